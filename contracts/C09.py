"""C09 -- shape descriptors of a molecule do not depend on its pose or atom ordering
(shape/shape_descriptors.py, interpolate/_density.pyx, core/molecule.py, crystal/crystal.py).

What is proved (P, from the real source text) is the DATAFLOW that pose independence rests on: which origin the radial function is
computed about, that the property channel is sampled on the surface found from that same origin, the direction/grid layout, the
error path for radii that were not found, which coefficient layout reaches the invariants, what the Molecule / Crystal entry points
hand over (interior, exterior, origin, pose-independent bounds, the ATOM'S element), and -- on the de-cythonised root finder -- the
sign-bracket invariant of Brent's iteration.  Pose / permutation invariance of the numbers themselves is only a bounded run-time
contract (B), as is everything about the compiled binary."""
import ast
import time
from fractions import Fraction

import numpy as np
import z3

from pyvc import libmodels, source
from pyvc.api import Contract, Interp, LoopInv, NDArr, Obj, conj, farr, iarr
from pyvc.symex import ClassVal, ModelFn
from pyvc.values import Cx, PyRaise, Unsupported, is_sym, num_cmp, to_real, z

from contracts import c09_native as nat

SD = "chmpy.shape.shape_descriptors"
MOLM = "chmpy.core.molecule"
CRY = "chmpy.crystal.crystal"
KMOD = "chmpy.interpolate._density"

HARNESS = '''
class ElementTable:
    def __getitem__(self, val):
        return element_lookup(val)
'''


# ======================================================================================================================================
# engine extensions (gaps routed around without touching pyvc/)
# ======================================================================================================================================
class Interp9(Interp):
    """Two additions: stores into the .real / .imag views of a complex array (r_cplx.real = r); `&` / `|` of two concrete Python
    bools stay bools (boolean masks handed to np.where)."""

    def scalar_binop(self, op, l, r):
        if op in ("&", "|", "^") and isinstance(l, bool) and isinstance(r, bool):
            return {"&": l & r, "|": l | r, "^": l ^ r}[op]
        return super().scalar_binop(op, l, r)

    def binop(self, op, l, r):
        out = super().binop(op, l, r)
        if op in ("&", "|", "^") and isinstance(out, NDArr) and all(isinstance(c, bool) for c in out.flat()):
            out.kind = "b"
        return out

    def assign(self, t, v, fr):
        if isinstance(t, ast.Attribute) and t.attr in ("real", "imag"):
            base = self.eval(t.value, fr)
            if isinstance(base, NDArr):
                if base.kind != "c":
                    raise Unsupported("store into .real/.imag of a non-complex array")
                if isinstance(v, NDArr):
                    try:
                        src = np.broadcast_to(v.data, base.shape)
                    except ValueError:
                        raise PyRaise("ValueError", "could not broadcast input array")
                else:
                    src = np.empty(base.shape, dtype=object)
                    for ix in np.ndindex(*base.shape):
                        src[ix] = v
                for ix in np.ndindex(*base.shape):
                    old = base.data[ix]
                    old = old if isinstance(old, Cx) else Cx(to_real(old), Fraction(0))
                    val = src[ix]
                    val = val.re if isinstance(val, Cx) else val
                    base.data[ix] = Cx(to_real(val), old.im) if t.attr == "real" else Cx(old.re, to_real(val))
                return
        return super().assign(t, v, fr)


def native(f):
    f._pyvc_native = True
    return f


def prop_model(ident, fn):
    m = ModelFn(ident, fn)
    m.is_prop = True
    return m


def cells_equal(a, b):
    """z3 Bool: two arrays / sequences have the same shape and equal cells (False on any structural mismatch)."""
    def arr(x):
        if isinstance(x, NDArr):
            return x
        if isinstance(x, (list, tuple)):
            try:
                return NDArr(np.array([[c for c in (r.flat() if isinstance(r, NDArr) else (r if isinstance(r, (list, tuple)) else [r]))] for r in x], dtype=object)
                             if x and isinstance(x[0], (NDArr, list, tuple)) else np.array(list(x), dtype=object), "o")
            except Exception:  # noqa
                return None
        return None
    A, B = arr(a), arr(b)
    if A is None or B is None or A.shape != B.shape:
        return z3.BoolVal(False)
    out = []
    for x, y in zip(A.flat(), B.flat()):
        if isinstance(x, Cx) or isinstance(y, Cx):
            if not (isinstance(x, Cx) and isinstance(y, Cx)):
                return z3.BoolVal(False)
            out += [z(to_real(x.re)) == z(to_real(y.re)), z(to_real(x.im)) == z(to_real(y.im))]
        else:
            out.append(z(num_cmp("==", x, y)))
    return conj(out)


def free_consts(t, acc=None):
    acc = set() if acc is None else acc
    if z3.is_const(t) and t.decl().kind() == z3.Z3_OP_UNINTERPRETED:
        acc.add(t.decl().name())
    for c in t.children():
        free_consts(c, acc)
    return acc


# ======================================================================================================================================
# stubs standing for the objects the descriptor pipeline talks to (each one an assumed / separately verified contract)
# ======================================================================================================================================
class ProStub:
    """PromoleculeDensity((n, p)): keeps the atoms it was built from (C05 proves the wrapper forwards them unchanged)."""

    def __init__(self, n, p, tag):
        self.n, self.p, self.tag = n, p, tag


class KernelHandle:
    def __init__(self, owner):
        self.owner = owner


class StockStub:
    def __init__(self, a, b, background):
        self.a, self.b, self.background = a, b, background


class StockCls:
    pass


class MolCls:
    pass


class MolStub:
    def __init__(self, els, pos):
        self.els, self.pos = els, pos


class ShtToken:
    """SHT(l_max) as seen by the Molecule / Crystal entry points."""

    def __init__(self, lmax):
        self.lmax = lmax


def ufun3(name):
    return z3.Function(name, z3.RealSort(), z3.RealSort(), z3.RealSort(), z3.RealSort())


PRO_DNORM = [ufun3(f"pro_dnorm_component{k}") for k in range(3)]          # (dists, d_norm, vecs)
STOCK_DNORM = [ufun3(f"stock_dnorm_component{k}") for k in range(6)]      # (d_a, d_b, d_norm_a, d_norm_b, dp, angles)
ESP = ufun3("esp_of_interior_molecule")
USERPROP = ufun3("user_property")
VDW = z3.Function("vdw_radius_of_Z", z3.IntSort(), z3.RealSort())


def rows_of(x):
    return [[z(to_real(x.data[k, c])) for c in range(3)] for k in range(x.shape[0])]


class Pipeline:
    """Interpreter + models for one symbolic run of a descriptor function; `log` records every hand-over."""

    def __init__(self, ctx, T, N, L, K, KE):
        self.ctx, self.T, self.N, self.L, self.K, self.KE = ctx, T, N, L, K, KE
        self.log = {}
        log = self.log

        def np_mean(I, a, axis=None, dtype=None, **kw):
            return libmodels.MODELS["numpy.mean"].fn(I, a, axis=axis)

        def meshgrid(I, a, b, indexing="xy"):
            if indexing != "ij":
                raise Unsupported("meshgrid indexing other than 'ij'")
            A, B = np.empty((a.shape[0], b.shape[0]), dtype=object), np.empty((a.shape[0], b.shape[0]), dtype=object)
            for i in range(a.shape[0]):
                for j in range(b.shape[0]):
                    A[i, j], B[i, j] = a.data[i], b.data[j]
            return [NDArr(A, "f"), NDArr(B, "f")]

        def ones_like(I, a):
            d = np.empty(a.shape, dtype=object)
            for ix in np.ndindex(*a.shape):
                d[ix] = Fraction(1)
            return NDArr(d, "f")

        def pro_ctor(I, mol):
            n, p = mol
            st = ProStub(n, p, "promolecule")
            log.setdefault("pro_ctor", []).append(st)
            return st

        def pro_d_norm(I, recv, x):
            log.setdefault("dnorm_calls", []).append((recv, x))
            R = rows_of(x)
            return tuple(farr([f(*r) for r in R]) if k < 2 else farr([[f(*r)] * 3 for r in R]) for k, f in enumerate(PRO_DNORM))

        def stock_from_arrays(I, recv, n1, p1, n2, p2, unit="angstrom", **kw):
            st = StockStub(ProStub(n1, p1, "interior"), ProStub(n2, p2, "exterior"), kw.get("background", Fraction(0)))
            log["stock_ctor"] = {"n1": n1, "p1": p1, "n2": n2, "p2": p2, "kw": dict(kw), "obj": st}
            return st

        def stock_d_norm(I, recv, x):
            log.setdefault("dnorm_calls", []).append((recv, x))
            R = rows_of(x)
            return tuple(farr([f(*r) for r in R]) for f in STOCK_DNORM)

        def mol_from_arrays(I, recv, els, pos, **kw):
            m = MolStub(els, pos)
            log["esp_molecule"] = m
            return m

        def mol_esp(I, recv, x):
            log.setdefault("esp_calls", []).append((recv, x))
            return farr([ESP(*r) for r in rows_of(x)])

        def radii(which):
            def f(I, handle, o, g, l, u, tol, it, iso):
                log["radii"] = dict(which=which, handle=handle, o=o, g=g, l=l, u=u, tol=tol, it=it, iso=iso)
                if not isinstance(g, NDArr) or g.ndim != 2:
                    raise Unsupported("grid handed to the root finder is not a 2-d array")
                return farr([z3.Real(f"rad{k}") for k in range(g.shape[0])])
            return f

        def expand(I, lmax, coeffs):
            log["expand"] = (lmax, coeffs)
            if not isinstance(lmax, int):
                raise Unsupported("symbolic l_max")
            out = np.empty((lmax + 1) ** 2, dtype=object)
            for k in range(out.shape[0]):
                out[k] = Cx(z3.Real(f"full{k}r"), z3.Real(f"full{k}i"))
            return NDArr(out, "c")

        def analysis_result(I, self_, values):
            log["analysis"] = values
            Lm = self_.fields["lmax"]
            n = (Lm + 1) ** 2 if values.kind == "c" else (Lm + 1) * (Lm + 2) // 2
            out = np.empty(n, dtype=object)
            for k in range(n):
                out[k] = Cx(z3.Real(f"an{k}r"), z3.Real(f"an{k}i"))
            res = NDArr(out, "c")
            log["analysis_out"] = res
            return res

        def mkinv_result(I, l_max, coeffs, kinds="NP"):
            log["make_invariants"] = (l_max, coeffs, kinds)
            res = farr([z3.Real(f"inv{k}") for k in range(4)])
            log["invariants"] = res
            return res

        @native
        def user_property(x):
            log.setdefault("user_calls", []).append(x)
            return farr([USERPROP(*r) for r in rows_of(x)])
        self.user_property = user_property
        models = {
            "numpy.mean": ModelFn("numpy.mean(axis, dtype): arithmetic mean (floats as reals)", np_mean),
            "numpy.meshgrid": ModelFn("numpy.meshgrid(indexing='ij')", meshgrid),
            "numpy.ones_like": ModelFn("numpy.ones_like", ones_like),
            "chmpy.PromoleculeDensity": ModelFn("contract:PromoleculeDensity((Z, positions)) keeps the atoms it was given (C05)", pro_ctor),
            "ProStub.d_norm": ModelFn("contract:PromoleculeDensity.d_norm(points) -> (dists, d_norm, vecs), each a function of the point", pro_d_norm),
            "ProStub.dens": prop_model("PromoleculeDensity.dens (kernel handle)", lambda I, r: KernelHandle(r)),
            "ProStub.elements": prop_model("PromoleculeDensity.elements", lambda I, r: r.n),
            "ProStub.positions": prop_model("PromoleculeDensity.positions", lambda I, r: r.p),
            "chmpy.StockholderWeight": StockCls(),
            "StockCls.from_arrays": ModelFn("contract:StockholderWeight.from_arrays(Zi, Pi, Ze, Pe, background) (C05)", stock_from_arrays),
            "StockStub.s": prop_model("StockholderWeight.s (kernel handle)", lambda I, r: KernelHandle(r)),
            "StockStub.dens_a": prop_model("StockholderWeight.dens_a (interior density)", lambda I, r: r.a),
            "StockStub.dens_b": prop_model("StockholderWeight.dens_b (exterior density)", lambda I, r: r.b),
            "StockStub.d_norm": ModelFn("contract:StockholderWeight.d_norm(points) -> 6 arrays, each a function of the point", stock_d_norm),
            "chmpy.Molecule": MolCls(),
            "MolCls.from_arrays": ModelFn("contract:Molecule.from_arrays(Z, positions)", mol_from_arrays),
            "MolStub.electrostatic_potential": ModelFn("contract:Molecule.electrostatic_potential(points): a function of the point for a fixed molecule", mol_esp),
            KMOD + ".sphere_promolecule_radii": ModelFn("contract:sphere_promolecule_radii (one radius per grid row; Brent VCs + binary conformance B)", radii("promolecule")),
            KMOD + ".sphere_stockholder_radii": ModelFn("contract:sphere_stockholder_radii (one radius per grid row; Brent VCs + binary conformance B)", radii("stockholder")),
            "chmpy.shape._sht.expand_coeffs_to_full": ModelFn("contract:expand_coeffs_to_full(l_max, compact) -> (l_max+1)^2 coefficients (C07)", expand),
        }
        self.I = Interp9(models=models, contracts={SD + ".make_invariants": Contract(result=mkinv_result),
                                                  "chmpy.shape.sht.SHT.analysis": Contract(result=analysis_result)})
        ctx._interps = getattr(ctx, "_interps", [])
        ctx._interps.append(self.I)
        I = self.I
        self.theta = [z3.Real(f"theta{t}") for t in range(T)]
        self.phi = [z3.Real(f"phi{j}") for j in range(N)]
        shtmod = source.load_module("chmpy.shape.sht")
        self.sht = Obj(I.class_of(shtmod, "SHT"), {"lmax": L, "theta": farr(self.theta), "phi": farr(self.phi)})
        self.Z = [z3.Int(f"Z{k}") for k in range(K)]
        self.P = [[z3.Real(f"p{k}_{c}") for c in range(3)] for k in range(K)]
        self.ZE = [z3.Int(f"ZE{k}") for k in range(KE)]
        self.PE = [[z3.Real(f"pe{k}_{c}") for c in range(3)] for k in range(KE)]
        self.O = [z3.Real(f"origin{c}") for c in range(3)]

    # the SHT grid directions in (theta, phi) row-major order -- the oracle of the statement ("along every grid direction")
    def direction(self, t, j):
        sin, cos = libmodels.ufun("sin"), libmodels.ufun("cos")
        return [sin(self.theta[t]) * cos(self.phi[j]), sin(self.theta[t]) * sin(self.phi[j]), cos(self.theta[t])]

    def args(self, kind):
        a = [self.sht, iarr(self.Z), farr(self.P)]
        if kind == "stockholder":
            a += [iarr(self.ZE), farr(self.PE)]
        return a


CONFIGS = {      # option sets under which each descriptor function is executed symbolically
    "defaults": lambda pl: {},
    "all_options": lambda pl: {"origin": farr(pl.O), "bounds": (z3.Real("bound_lo"), z3.Real("bound_hi")), "isovalue": z3.Real("iso"), "kinds": "N", "coefficients": True},
    "d_norm": lambda pl: {"with_property": "d_norm"},
    "esp_origin": lambda pl: {"with_property": "esp", "origin": farr(pl.O)},
    "callable": lambda pl: {"with_property": pl.user_property, "origin": farr(pl.O), "coefficients": True},
}


def native_kwargs(cfg, Pi, rng):
    o = (np.mean(Pi, axis=0) + np.array([0.07, -0.05, 0.04])).astype(np.float32)
    return {"defaults": {}, "all_options": {"origin": o, "bounds": (0.3, 15.0), "isovalue": None, "kinds": "N", "coefficients": True},
            "d_norm": {"with_property": "d_norm"}, "esp_origin": {"with_property": "esp", "origin": o},
            "callable": {"with_property": (lambda pts: np.linalg.norm(pts - Pi[0], axis=1)), "origin": o, "coefficients": True}}[cfg]


def native_clause(kind, cfg, clause, seed, extra_bounds=None):
    """Replay of a dataflow obligation: the same clause evaluated on the running code (seeded small systems, real SHT)."""
    def replay(model):
        from chmpy.shape import SHT
        rng = np.random.default_rng(seed + 4)
        iso, part = nat.systems(seed, "quick")
        worst = None
        with nat.quiet_stderr():
            for s in (iso[:3] if kind == "promolecule" else part[:3]):
                for L in (2, 4):
                    kw = dict(native_kwargs(cfg, s["Pi"], rng))
                    if kw.get("isovalue", 0) is None:
                        kw["isovalue"] = 0.0003 if kind == "promolecule" else 0.45
                    for b in ([None] if extra_bounds is None else extra_bounds):
                        sht = SHT(L)
                        if b == "partial":
                            b = nat.partial_bounds(kind, sht, s)
                            if b is None:
                                continue
                        if b is not None:
                            kw["bounds"] = b
                        tr = nat.trace_descriptor(kind, sht, s["Zi"], s["Pi"], s.get("Ze"), s.get("Pe"), **kw)
                        cl = nat.dataflow_clauses(kind, sht, tr, s["Zi"], s["Pi"], s.get("Ze"), s.get("Pe"), **kw)
                        if clause in cl and not cl[clause][0]:
                            worst = {"system": s["name"], "Zi": s["Zi"].tolist(), "Pi": s["Pi"].tolist(), "l_max": L,
                                     "kwargs": {k: (v if isinstance(v, (str, float, int, bool)) else ("callable" if callable(v) else np.asarray(v).tolist())) for k, v in kw.items()},
                                     "observed": cl[clause][1]}
                            break
                    if worst:
                        break
                if worst:
                    break
        return {"native_inputs": worst or f"seeded systems x l_max 2,4, configuration {cfg}", "reproduced": worst is not None, "observed": worst and worst["observed"]}
    return replay


# ======================================================================================================================================
def descriptor_obligations(ctx, kind, fn, T, N, L, K, KE, tag=""):
    fname = fn.qualname.split(".")[-1]
    base = f"shape_descriptors.{fname}"

    for cfg, mk in CONFIGS.items():
        def thunk(cfg=cfg, mk=mk):
            pl = Pipeline(ctx, T, N, L, K, KE)
            I, log = pl.I, pl.log
            kwargs = mk(pl)
            has_prop = "with_property" in kwargs
            pre = [zz >= 1 for zz in pl.Z + pl.ZE] + [zz <= 103 for zz in pl.Z + pl.ZE]
            logs = path_logs(pl, kind, fname, kwargs, pre)
            ident = f"{base}/{cfg}{tag}"
            rp = lambda clause, **kw2: native_clause(kind, cfg, clause, ctx.seed, **kw2)
            rets = [(r, lg) for r, lg in logs if r.kind == "return"]
            raises = [(r, lg) for r, lg in logs if r.kind == "raise"]
            # ---- error path -----------------------------------------------------------------------------------------------------
            ok_shape = len(rets) == 1 and len(raises) == 1 and raises[0][0].value.exc_type == "ValueError"
            ctx.prove(f"{ident}/error/paths", [], z3.BoolVal(ok_shape), fn=fn, replay=rp("error_iff_negative_radius", extra_bounds=["partial", (0.05, 0.3), None]),
                      clause="exactly two outcomes: a ValueError, or a normal return (no other exception on well-formed input)")
            for r, lg in raises:
                rad = lg.get("radii_result")
                goal = z3.Or(*[c < 0 for c in rad]) if rad else z3.BoolVal(False)
                ctx.prove(f"{ident}/error/raised_only_if_some_radius_negative", r.pc, goal, fn=fn, replay=rp("error_iff_negative_radius", extra_bounds=["partial", (0.05, 0.3), None]),
                          clause="ValueError is raised only when the root finder reported some direction as not found (radius < 0)")
            for r, lg in rets:
                rad = lg.get("radii_result")
                goal = z3.And(*[c >= 0 for c in rad]) if rad else z3.BoolVal(False)
                ctx.prove(f"{ident}/error/no_description_of_unfound_surface", r.pc, goal, fn=fn, split=False, replay=rp("error_iff_negative_radius", extra_bounds=["partial", (0.05, 0.3), (9.0, 15.0)]),
                          clause="a normal return implies every radius >= 0: a surface not found inside the bounds is never described")
            for r, lg in rets:
                hy = r.pc
                rd = lg.get("radii")
                if rd is None:
                    ctx.prove(f"{ident}/kernel_called", hy, z3.BoolVal(False), fn=fn, clause="the root finder is called")
                    continue
                # ---- origin --------------------------------------------------------------------------------------------------------
                if "origin" in kwargs:
                    goal = cells_equal(rd["o"], farr(pl.O))
                    cl = "the radial function is computed about the origin that was passed"
                else:
                    cen = [sum(pl.P[k][c] for k in range(K)) / K for c in range(3)]
                    goal = cells_equal(rd["o"], farr(cen))
                    cl = "without an origin argument the radial function is computed about the centroid of the interior atoms"
                ctx.prove(f"{ident}/origin", hy, goal, fn=fn, clause=cl, replay=rp("origin"))
                # ---- which density ---------------------------------------------------------------------------------------------------
                h = rd["handle"]
                if kind == "promolecule":
                    okh = isinstance(h, KernelHandle) and isinstance(h.owner, ProStub) and rd["which"] == "promolecule"
                    goal = z3.And(cells_equal(h.owner.n, iarr(pl.Z)), cells_equal(h.owner.p, farr(pl.P))) if okh else z3.BoolVal(False)
                    cl = "the surface searched is the promolecule density of exactly the given atoms (numbers and positions, in the given pairing)"
                else:
                    okh = isinstance(h, KernelHandle) and isinstance(h.owner, StockStub) and rd["which"] == "stockholder"
                    if okh:
                        st = h.owner
                        bg = kwargs.get("background", Fraction(0))
                        goal = z3.And(cells_equal(st.a.n, iarr(pl.Z)), cells_equal(st.a.p, farr(pl.P)), cells_equal(st.b.n, iarr(pl.ZE)), cells_equal(st.b.p, farr(pl.PE)),
                                      z(num_cmp("==", st.background, bg)))
                    else:
                        goal = z3.BoolVal(False)
                    cl = "the surface searched is the stockholder weight of (interior = n_i,p_i) against (exterior = n_e,p_e) with the requested background"
                ctx.prove(f"{ident}/density_atoms", hy, goal, fn=fn, clause=cl, replay=rp("density_atoms"))
                # ---- bounds / isovalue ---------------------------------------------------------------------------------------------------
                if "bounds" in kwargs:
                    goal = z3.And(z(num_cmp("==", rd["l"], kwargs["bounds"][0])), z(num_cmp("==", rd["u"], kwargs["bounds"][1])))
                    cl = "the search interval handed to the root finder is (bounds[0], bounds[1]) in that order"
                else:
                    okc = not is_sym(rd["l"]) and not is_sym(rd["u"])
                    goal = z3.And(z3.BoolVal(okc), z(num_cmp("<", 0, rd["l"])), z(num_cmp("<", rd["l"], rd["u"])))
                    cl = "the default search interval is a pose-independent constant interval 0 < lower < upper"
                ctx.prove(f"{ident}/bounds", hy, goal, fn=fn, clause=cl, replay=rp("bounds"))
                if "isovalue" in kwargs:
                    goal = z(num_cmp("==", rd["iso"], kwargs["isovalue"]))
                    cl = "the isovalue solved for is the one requested"
                else:
                    goal = z3.And(z3.BoolVal(not is_sym(rd["iso"])), z(num_cmp("<", 0, rd["iso"])))
                    cl = "the default isovalue is a positive constant"
                ctx.prove(f"{ident}/isovalue", hy, goal, fn=fn, clause=cl, replay=rp("isovalue"))
                # ---- directions & layout ----------------------------------------------------------------------------------------------------
                g = rd["g"]
                if isinstance(g, NDArr) and g.shape == (T * N, 3):
                    goal = conj([z(to_real(g.data[t * N + j, c])) == pl.direction(t, j)[c] for t in range(T) for j in range(N) for c in range(3)])
                else:
                    goal = z3.BoolVal(False)
                ctx.prove(f"{ident}/grid/directions", hy, goal, fn=fn, split=False, replay=rp("grid_directions"),
                          clause="row t*nphi+j of the direction array is the unit vector (sin th_t cos ph_j, sin th_t sin ph_j, cos th_t) of SHT grid point (t, j)")
                vin = lg.get("analysis")
                rad = lg["radii_result"]
                if isinstance(vin, NDArr) and vin.shape == (T, N):
                    re_ = [[(vin.data[t, j].re if isinstance(vin.data[t, j], Cx) else vin.data[t, j]) for j in range(N)] for t in range(T)]
                    goal = conj([z(to_real(re_[t][j])) == rad[t * N + j] for t in range(T) for j in range(N)])
                else:
                    goal = z3.BoolVal(False)
                ctx.prove(f"{ident}/grid/radial_function_layout", hy, goal, fn=fn, split=False, replay=rp("radial_function_layout"),
                          clause="the function analysed has, at grid point (t, j), the radius found along direction row t*nphi+j (same row-major order as the directions)")
                # ---- property channel --------------------------------------------------------------------------------------------------------------
                if has_prop:
                    pts = [[z(to_real(rd["o"].data[c])) + rad[k] * z(to_real(g.data[k, c])) for c in range(3)] for k in range(T * N)] if isinstance(g, NDArr) and g.shape == (T * N, 3) else None
                    prop = kwargs["with_property"]
                    fam = {"d_norm": (PRO_DNORM[1:2] if kind == "promolecule" else STOCK_DNORM[2:4]), "esp": [ESP]}.get(prop if isinstance(prop, str) else "", [USERPROP])
                    if pts is not None and isinstance(vin, NDArr) and vin.shape == (T, N) and vin.kind == "c":
                        cellsg = []
                        for t in range(T):
                            for j in range(N):
                                im = vin.data[t, j].im if isinstance(vin.data[t, j], Cx) else Fraction(0)
                                cellsg.append(z3.Or(*[z(to_real(im)) == f(*pts[t * N + j]) for f in fam]))
                        goal = conj(cellsg)
                    else:
                        goal = z3.BoolVal(False)
                    ctx.prove(f"{ident}/property/sampled_on_surface", hy, goal, fn=fn, split=False, replay=rp("property_sampled_on_surface"),
                              clause="the imaginary channel at grid point (t, j) is the property evaluated at origin + r(t,j) * direction(t,j), with the SAME origin the radii were found from")
                    if prop == "esp":
                        m = lg.get("esp_molecule")
                        goal = z3.And(cells_equal(m.els, iarr(pl.Z)), cells_equal(m.pos, farr(pl.P))) if isinstance(m, MolStub) else z3.BoolVal(False)
                        ctx.prove(f"{ident}/property/esp_of_interior", hy, goal, fn=fn, replay=rp("property_of_interior"),
                                  clause="the electrostatic potential is that of the molecule made of the interior atoms")
                    if prop == "d_norm":
                        calls = lg.get("dnorm_calls", [])
                        owner = calls[0][0] if calls else None
                        if kind == "promolecule":
                            okd = isinstance(owner, ProStub) and owner is (h.owner if okh else None)
                        else:
                            okd = isinstance(owner, StockStub) and owner is (h.owner if okh else None)
                        ctx.prove(f"{ident}/property/d_norm_of_same_system", hy, z3.BoolVal(bool(okd)), fn=fn, replay=rp("property_of_interior"),
                                  clause="d_norm is evaluated on the same density object whose surface is described")
                # ---- coefficient layout handed to the invariants (the `real` flag) ---------------------------------------------------------------
                mk_ = lg.get("make_invariants")
                an = lg.get("analysis_out")
                if mk_ is None or an is None or not isinstance(vin, NDArr):
                    goal_layout, goal_l, goal_k = z3.BoolVal(False), z3.BoolVal(False), z3.BoolVal(False)
                else:
                    l_p, c_p, kinds_p = mk_
                    full_len = isinstance(c_p, NDArr) and c_p.shape == ((L + 1) ** 2,)
                    if vin.kind == "c":
                        good = full_len and c_p is an and "expand" not in lg
                    else:
                        ex = lg.get("expand")
                        good = full_len and ex is not None and ex[0] == L and ex[1] is an and c_p is not an and all(isinstance(c, Cx) and str(c.re).startswith("full") for c in c_p.flat())
                    goal_layout = z3.BoolVal(bool(good))
                    goal_l = z3.BoolVal(l_p == L)
                    goal_k = z3.BoolVal(kinds_p == kwargs.get("kinds", "NP"))
                ctx.prove(f"{ident}/coefficients/full_layout", hy, goal_layout, fn=fn, replay=rp("coefficients_full_layout"),
                          clause="the invariants are computed from the (l_max+1)^2 full-layout coefficients of the analysed function: the compact coefficients of a REAL radial function are "
                                 "expanded first, the coefficients of a COMPLEX shape+property function (already full layout) are passed as they are")
                ctx.prove(f"{ident}/coefficients/l_max", hy, goal_l, fn=fn, replay=rp("l_max_forwarded"), clause="make_invariants receives the transform's l_max")
                ctx.prove(f"{ident}/coefficients/kinds", hy, goal_k, fn=fn, replay=rp("result_is_invariants"), clause="the kinds of invariants computed are the ones requested (default 'NP')")
                # ---- result ---------------------------------------------------------------------------------------------------------------------------
                inv = lg.get("invariants")
                if kwargs.get("coefficients"):
                    good = isinstance(r.value, tuple) and len(r.value) == 2 and r.value[0] is an and r.value[1] is inv and inv is not None
                else:
                    good = r.value is inv and inv is not None
                ctx.prove(f"{ident}/result", hy, z3.BoolVal(bool(good)), fn=fn, replay=rp("result_is_invariants"),
                          clause="the value returned is the invariant vector (preceded by the transform coefficients when coefficients=True)")
            ctx.safety(f"{ident}", [r for r, _ in logs], fn=fn)
            covers(ctx, ident, [r for r, _ in logs])
        ctx.attempt(f"{base}/{cfg}{tag}", thunk, fn=fn)


def path_logs(pl, kind, fname, kwargs, pre):
    """Explore the descriptor, keeping the hand-over log of EVERY feasible path (also the raising one) -> [(PathResult, log)]."""
    from pyvc.symex import _PathEnd
    I, log = pl.I, pl.log
    snaps = []

    def run(I2, a, kw):
        log.clear()
        feasible = True
        try:
            return I2.call_function(I2.lookup_global(source.load_module(SD), fname), a, kw)
        except _PathEnd as e:
            feasible = e.why != "infeasible"
            raise
        finally:
            if feasible:
                snap = dict(log)
                rd = snap.get("radii")
                snap["radii_result"] = [z3.Real(f"rad{k}") for k in range(rd["g"].shape[0])] if rd is not None and isinstance(rd.get("g"), NDArr) else None
                snaps.append(snap)
    res = I.explore(run, pl.args(kind), kwargs, pre=pre)
    if len(res) != len(snaps):
        raise RuntimeError(f"path/log bookkeeping out of step: {len(res)} paths, {len(snaps)} logs")
    return list(zip(res, snaps))


# ======================================================================================================================================
def build(ctx):
    t_start = time.time()
    ctx.level = "other"
    ctx.explanation = (
        "P (VCs generated by the symbolic executor from the REAL source text, discharged by z3): the dataflow that pose independence rests on.  "
        "promolecule_density_descriptor / stockholder_weight_descriptor (with _compute_property_in_j_channel inlined) executed on symbolic atoms, symbolic SHT angles and five option "
        "sets (defaults; origin+bounds+isovalue+kinds+coefficients; d_norm; esp+origin; user callable+origin): origin = centroid of the interior atoms unless given; the density searched "
        "is built from exactly the given interior/exterior atoms; bounds and isovalue forwarded in order; direction row t*nphi+j = unit vector of grid point (t,j) and the radii are "
        "reshaped in the same order; ValueError iff some radius < 0 and never a description of an unfound surface; the property channel is sampled at origin + r*direction with the SAME "
        "origin (REFUTED on the unchanged tree for promolecule_density_descriptor: origin not passed); esp is that of the interior atoms; the `real` flag: compact coefficients of a real "
        "function are expanded, full-layout coefficients of a complex function are not, before make_invariants; l_max/kinds/result forwarding.  Molecule.shape_descriptors, "
        "Molecule.atomic_shape_descriptors, Crystal.molecule_/molecular_/atomic_/atom_group_shape_descriptors executed against contracts of their callees: interior/exterior pairing, "
        "origin = centroid of the interior, rows in atom/molecule order, options forwarded; F: the search bounds read the atoms only through their distances to the origin "
        "(resp. through the van der Waals radius of the atom's OWN element) and are symmetric in the atoms (REFUTED for Molecule.atomic_shape_descriptors: Element[n] is indexed by the loop "
        "counter, which since the C17 fix raises ValueError for every molecule).  De-cythonised _density.pyx: fvmul = o + a*v; brents_pro / brents_stock by the invariant rule for ANY "
        "max_iter: -1 returned only for equal strict signs at the bounds, iteration entered only from a strict sign change, sign-bracket invariant f(xcur)*f(xblk) <= 0 with "
        "f-values consistent with their abscissae (entry + preservation), exit inside the iteration only with f == 0 or a sign change within xtol + tol*|r|, no division by zero in the "
        "secant / inverse-quadratic step; sphere_*_radii forward (field, origin, row i, l, u, tol, max_iter, isovalue) in order and store root i in row i.  "
        "B (NOT proved): pose (rotation+translation), translation-only and atom-order invariance of the descriptor VALUES on seeded small molecules, generated interior/exterior shells "
        "and real crystal environments, l_max 4/8/12, channels none/d_norm/esp/callable, with the rotation error required to shrink from l_max 4 to 12; the same dataflow clauses observed "
        "on the running code; the compiled root finders against the isovalue equation (sign change within 2e-3 A of every returned radius, -1 exactly for unbracketed rays, radii inside "
        "the bounds); the Molecule/Crystal entry points against function-level calls and under reordering of the asymmetric unit.  Rotation invariance of N/P given the coefficients is "
        "C08's; exactness of the transform is C07's; that a sign change brackets a solution is the intermediate value theorem (cited).")
    ctx.assumptions += [
        "floats (float32 kernel, float32 origin/grid, float64 elsewhere) are mathematical reals in P obligations",
        "intermediate value theorem: a sign change of the continuous function value(origin + t*direction) - isovalue brackets a solution of the isovalue equation",
        "callee contracts used modularly (each verified or bounded elsewhere): PromoleculeDensity / StockholderWeight keep the atoms they are given and d_norm / one_rho / one_weight / "
        "electrostatic_potential are functions of the evaluation point for a fixed system (C05); SHT.analysis returns (l+1)(l+2)/2 compact coefficients for a real and (l+1)^2 for a complex "
        "array, expand_coeffs_to_full maps compact to full layout (C07); make_invariants is rotation invariant on full-layout coefficients (C08); Element[Z] raises ValueError outside "
        "1..103 and its vdw_radius is a function of Z (C17); Molecule.from_arrays keeps numbers and positions",
        "Cython 3 / gcc implement the de-cythonised semantics of _density.pyx (C float arithmetic as reals, `cdef float v[3]` a fresh array, fabs = |.|); the .so was built from the .c "
        "next to it -- the compiled root finder itself is only covered by run-time conformance (B)",
        "instances: the dataflow VCs are generated for a 2 x 3 (thorough: also 3 x 4) angular grid, 3 interior and 2 exterior atoms, 3-atom molecules, 2 environments per crystal; the "
        "code paths do not depend on these sizes (all loops are per-cell numpy operations), but this is an argument, not an obligation",
        "rotation error caps in the bounded stand-ins are engineering thresholds (3-4x the largest error measured on the unchanged tree), not derived from the statement",
    ]
    f_pro = ctx.fn(SD, "promolecule_density_descriptor")
    f_stock = ctx.fn(SD, "stockholder_weight_descriptor")
    ctx.fn(SD, "_compute_property_in_j_channel")
    descriptor_obligations(ctx, "promolecule", f_pro, 2, 3, 1, 3, 0)
    descriptor_obligations(ctx, "stockholder", f_stock, 2, 3, 1, 2, 2)
    if ctx.tier != "quick":
        descriptor_obligations(ctx, "promolecule", f_pro, 3, 4, 2, 4, 0, tag="@3x4")
        descriptor_obligations(ctx, "stockholder", f_stock, 3, 4, 2, 3, 3, tag="@3x4")
    entry_obligations(ctx)
    kernel_obligations(ctx)
    ctx.attempt("lemma", lambda: lemmas(ctx))
    cv = getattr(ctx, "_covers9", {})
    ctx.notes.append(f"vacuity covers: {cv.get('sat', 0)} path conditions satisfiable, {cv.get('unknown', 0)} undetermined (non-linear), "
                     f"{sum(1 for e in ctx.checker_errors if str(e).startswith('vacuous'))} vacuous")
    ctx.notes.append(f"obligation generation {time.time() - t_start:.1f}s")
    bounded_obligations(ctx)


def bounded_obligations(ctx):
    t0 = time.time()
    seed, tier = ctx.seed, ctx.tier
    with nat.quiet_stderr():
        r = nat.bounded_dataflow(seed, tier)
        ctx.add_bounded("shape_descriptors/bounded/dataflow_on_running_code",
                        "the dataflow clauses (origin, density atoms, directions, layout, error iff negative radius, property sampled on the surface, coefficient layout, result) observed through "
                        f"recorders on the real call chain: 4 isolated + 3 partitioned seeded systems x l_max {(3, 6) if tier == 'quick' else (2, 3, 5, 8)} x 7 option sets (incl. two "
                        "bounds that cannot bracket the surface)", r["evaluations"], r["distinct"], r["failures"], rule="distinct (l_max, system, function, clause, option set)",
                        samples=[{"id": "C09/shape_descriptors/bounded/dataflow_on_running_code", "tag": "B", "evaluations": r["evaluations"], "failures": len(r["failures"])}])
        for kind in ("promolecule", "stockholder"):
            r = nat.bounded_pose(kind, seed, tier)
            ctx.add_bounded(f"shape_descriptors/bounded/pose_invariance/{kind}",
                            f"{len(r['systems'])} seeded systems ({'small molecules and compact random clusters' if kind == 'promolecule' else 'generated interior/exterior shells, molecules and atoms in the acetic acid / ice II crystals'}) "
                            f"x l_max 4, 8, 12 x channels none / d_norm / esp / callable x ({r['nrot']} rigid motions, 1 translation, {r['nperm']} atom permutations); normalised change "
                            f"(N entries relative to max N, P entries compared before the cube root) <= {nat.TOL_EXACT} for translations and permutations (float32 + xtol noise), <= "
                            f"{nat.ROT_CAP} for rotations by l_max; mean rotation error at l_max 12 <= that at l_max 4", r["evaluations"], r["distinct"], r["failures"],
                            rule="distinct (l_max, system, channel, motion)",
                            samples=[{"id": f"C09/shape_descriptors/bounded/pose_invariance/{kind}", "tag": "B", "rotation_error_summary": r["summary"]}])
            ctx.notes.append(f"rotation error summary ({kind}): " + str({k: {kk: (round(vv, 6) if isinstance(vv, float) else vv) for kk, vv in v.items() if kk != 'worst'} for k, v in r["summary"].items()}))
        r = nat.bounded_roots(seed, tier)
        ctx.add_bounded("_density.sphere_radii/bounded/isovalue_equation",
                        f"compiled sphere_promolecule_radii / sphere_stockholder_radii on seeded systems x {40 if tier == 'quick' else 200} random directions x 3 search intervals (one bracketing, "
                        "one inside and one just outside the surface; rays whose end points lie in the far field, total density < 1e-6, are skipped): sign change of (batch value - isovalue) within 2e-3 A of every returned radius, radius inside the interval, -1 exactly when the signs at "
                        "the bounds agree (float32 ties excluded)", r["evaluations"], r["distinct"], r["failures"], rule="distinct (system, interval, direction)")
        ctx.notes.append(f"root finder stand-in: {r['stats']}")
        r = nat.bounded_entry_points(seed, tier)
        ctx.add_bounded("entry_points/bounded/molecule_and_crystal",
                        "Molecule.shape_descriptors / atomic_shape_descriptors on seeded small molecules (vs function-level calls with the spec'd arguments; moved + reordered), "
                        f"Crystal.molecule_/molecular_/atomic_/atom_group_shape_descriptors on {'acetic acid' if tier == 'quick' else 'acetic acid and ice II'} (vs function-level calls; asymmetric "
                        "unit listed in a different order)", r["evaluations"], r["distinct"], r["failures"], rule="distinct (system, entry point, option)")
    ctx.notes.append(f"bounded stand-ins took {time.time() - t0:.1f}s")


# ======================================================================================================================================
# Molecule / Crystal entry points
# ======================================================================================================================================
class EntryHarness:
    """Interpreter for the entry points: SHT(l_max) -> token, descriptor functions -> logged calls with fresh results,
    Element[...] -> the lookup contract established by C17 (ValueError outside 1..103, vdw radius a function of the atomic number),
    np.linalg.norm(rows, axis=1) -> fresh non-negative lengths with the rows logged (so that 'the bounds read the atoms only through
    their distances to the origin' is a checkable frame statement)."""

    def __init__(self, ctx, contracts=None):
        self.ctx = ctx
        self.calls = []          # logged descriptor calls
        self.norms = []          # (rows, lengths)
        self.hm = source.ModuleSrc("contracts.c09_harness", "<harness>", HARNESS, ast.parse(HARNESS))
        calls, norms = self.calls, self.norms

        def sht_ctor(I, lm, *a, **kw):
            return ShtToken(lm)

        def descriptor(name):
            def f(I, *args, **kw):
                k = len(calls)
                res = farr([z3.Real(f"desc{k}_{i}") for i in range(3)])
                coeffs = farr([z3.Real(f"coef{k}_{i}") for i in range(3)])
                out = (coeffs, res) if (kw.get("coefficients") is True) else res
                if is_sym(kw.get("coefficients")):
                    raise Unsupported("symbolic `coefficients` flag")
                calls.append({"fn": name, "args": list(args), "kw": dict(kw), "result": out})
                return out
            return f

        def np_norm(I, a, ord=None, axis=None):
            if ord is not None or axis != 1 or not isinstance(a, NDArr) or a.ndim != 2:
                raise Unsupported("np.linalg.norm outside the modelled call shape (2-d rows, axis=1)")
            k = len(norms)
            out = [z3.Real(f"dist{k}_{i}") for i in range(a.shape[0])]
            for d in out:
                I.assume(d >= 0)
            norms.append((a, out))
            return farr(out)

        def np_mean(I, a, axis=None, dtype=None, **kw):
            return libmodels.MODELS["numpy.mean"].fn(I, a, axis=axis)

        def np_array(I, v, dtype=None, copy=True, **kw):
            return libmodels.MODELS["numpy.array"].fn(I, v)           # float32 / float64 conversions keep the value (floats as reals)

        def np_asarray(I, v, dtype=None, **kw):
            if isinstance(v, list) and v and all(isinstance(x, (NDArr, tuple)) for x in v):
                return RowList(list(v))                                 # np.asarray(list of per-item results): keep the rows identifiable
            return libmodels.MODELS["numpy.asarray"].fn(I, v)

        def cdist(I, a, b):
            raise Unsupported("cdist: the distance matrix is supplied as a field of the molecule shell")
        models = {
            "chmpy.shape.SHT": ModelFn("contract:SHT(l_max) (C07)", sht_ctor),
            "chmpy.shape.promolecule_density_descriptor": ModelFn("contract:promolecule_density_descriptor (dataflow obligations above)", descriptor("promolecule_density_descriptor")),
            "chmpy.shape.stockholder_weight_descriptor": ModelFn("contract:stockholder_weight_descriptor (dataflow obligations above)", descriptor("stockholder_weight_descriptor")),
            "numpy.linalg.norm": ModelFn("numpy.linalg.norm(rows, axis=1): Euclidean lengths of the rows, >= 0", np_norm),
            "numpy.mean": ModelFn("numpy.mean(axis, dtype): arithmetic mean (floats as reals)", np_mean),
            "numpy.array": ModelFn("numpy.array(dtype=float32) keeps values (floats as reals)", np_array),
            "numpy.asarray": ModelFn("numpy.asarray of a list of per-item results stacks them in list order", np_asarray),
            "scipy.spatial.distance.cdist": ModelFn("scipy cdist (not used: distance matrix given)", cdist),
        }
        self.I = Interp9(models=models, contracts=contracts or {})
        ctx._interps = getattr(ctx, "_interps", [])
        ctx._interps.append(self.I)
        I = self.I
        self.elmod = source.load_module("chmpy.core.element")
        self.ElementCls = I.class_of(self.elmod, "Element")

        @native
        def element_lookup(val):
            if isinstance(val, bool) or not (isinstance(val, int) or (is_sym(val) and z3.is_int(val))):
                raise Unsupported(f"Element[...] with a non-integer key ({type(val).__name__})")
            if not I.decide(z3.And(z(val) >= 1, z(val) <= 103) if is_sym(val) else (1 <= val <= 103)):
                raise PyRaise("ValueError", "Invalid atomic number")
            return self.element(val)
        I.module_globals[("contracts.c09_harness", "element_lookup")] = element_lookup
        table = Obj(ClassVal(self.hm, self.hm.classes["ElementTable"]), {})
        I.models["chmpy.core.element.Element"] = table
        I.module_globals[(MOLM, "Element")] = table
        I.module_globals[(CRY, "Element")] = table

    def element(self, Z):
        zt = z(Z)
        return Obj(self.ElementCls, {"atomic_number": Z, "vdw": VDW(zt), "name": "?", "symbol": "?", "cov": z3.Real("cov_unused"), "mass": z3.Real("mass_unused")})

    def molecule(self, I, Z, P):
        mm = source.load_module(MOLM)
        return Obj(I.class_of(mm, "Molecule"), {"elements": [self.element(zz) for zz in Z], "positions": farr(P), "properties": {}, "bonds": None, "labels": None, "charge": 0, "multiplicity": 1})


class RowList:
    """np.asarray(list of descriptor results): the rows, in order."""

    def __init__(self, rows):
        self.rows = rows


def same_obj(a, b):
    return z3.BoolVal(a is b)


def pose_free_bounds(ctx, ident, hyps, lo, hi, dist_terms, fn, replay, what):
    """The search interval is a function of the listed distances only (frame), symmetric in them, and 0 <= lo < hi."""
    names = {d.decl().name() for d in dist_terms}
    fv = (free_consts(z(to_real(lo))) | free_consts(z(to_real(hi)))) - names
    ctx.ground(f"{ident}/bounds/reads_only_distances", not fv, tag="F", fn=fn, detail={"other_symbols_read": sorted(fv)}, witness={"other_symbols_read": sorted(fv)},
               clause=f"the search bounds depend on the atoms only through {what} (no coordinate, index or order enters): they are unchanged by rigid motions")
    n = len(dist_terms)
    if n >= 2:
        lo_t, hi_t = z(to_real(lo)), z(to_real(hi))
        goals = []
        for (i, j) in [(0, 1)] + ([(k, k + 1) for k in range(1, n - 1)]):
            sub = [(dist_terms[i], dist_terms[j]), (dist_terms[j], dist_terms[i])]
            goals += [z3.substitute(lo_t, *sub) == lo_t, z3.substitute(hi_t, *sub) == hi_t]
        ctx.prove(f"{ident}/bounds/symmetric_in_atoms", hyps, conj(goals), fn=fn, replay=replay,
                  clause="exchanging any two interior atoms (adjacent transpositions generate all permutations) leaves the search bounds unchanged")
    ctx.prove(f"{ident}/bounds/ordered", hyps, z3.And(z(to_real(lo)) >= 0, z(to_real(lo)) < z(to_real(hi))), fn=fn, replay=replay, clause="0 <= lower < upper")


def entry_replay(key, seed):
    def replay(model):
        with nat.quiet_stderr():
            r = nat.bounded_entry_points(seed, "quick")
        hit = [f for f in r["failures"] if f["key"].startswith(key)]
        return {"native_inputs": hit[0]["input"] if hit else "seeded small molecules / acetic acid crystal", "reproduced": bool(hit), "observed": hit[0]["observed"] if hit else None}
    return replay


def entry_obligations(ctx):
    seed = ctx.seed
    # ---------------------------------------------------------------------------------------------------- Molecule.shape_descriptors
    f = ctx.fn(MOLM, "Molecule.shape_descriptors")

    def ob_mol_shape():
        H = EntryHarness(ctx)
        I = H.I
        K = 3
        Z = [z3.Int(f"Z{k}") for k in range(K)]
        P = [[z3.Real(f"p{k}_{c}") for c in range(3)] for k in range(K)]
        mol = H.molecule(I, Z, P)
        marker = native(lambda pts: pts)
        kw = {"with_property": "d_norm", "isovalue": z3.Real("iso"), "origin": farr([z3.Real(f"o{c}") for c in range(3)]), "bounds": (z3.Real("lo"), z3.Real("hi")), "coefficients": True, "kinds": "N"}
        for label, lmax_args, kwargs in (("defaults", [], {}), ("forwarding", [7], kw)):
            H.calls.clear()
            res = I.run(f, [mol] + lmax_args, dict(kwargs), pre=[zz >= 1 for zz in Z] + [zz <= 103 for zz in Z])
            rp = entry_replay("Molecule.shape_descriptors", seed)
            ident = f"molecule.Molecule.shape_descriptors/{label}"
            ok = len(res) == 1 and res[0].kind == "return" and len(H.calls) == 1 and H.calls[0]["fn"] == "promolecule_density_descriptor"
            ctx.prove(f"{ident}/single_call", [], z3.BoolVal(ok), fn=f, replay=rp, clause="one normal path; exactly one call of promolecule_density_descriptor")
            if not ok:
                continue
            c = H.calls[0]
            a = c["args"]
            hy = res[0].pc
            good = len(a) == 3 and isinstance(a[0], ShtToken) and a[0].lmax == (lmax_args[0] if lmax_args else 5)
            ctx.prove(f"{ident}/transform_degree", hy, z3.BoolVal(bool(good)), fn=f, replay=rp, clause="the transform is SHT(l_max) for the requested l_max (default 5)")
            ctx.prove(f"{ident}/atoms", hy, z3.And(cells_equal(a[1], iarr(Z)), cells_equal(a[2], farr(P))) if len(a) == 3 else z3.BoolVal(False), fn=f, replay=rp,
                      clause="the molecule's own atomic numbers and positions are described, atom k paired with position k")
            same_kw = set(c["kw"]) == set(kwargs) and all((c["kw"][k] is kwargs[k]) or (not isinstance(kwargs[k], (NDArr, tuple)) and not is_sym(kwargs[k]) and c["kw"][k] == kwargs[k]) or
                                                          (is_sym(kwargs[k]) and z3.eq(z(c["kw"][k]), kwargs[k])) or
                                                          (isinstance(kwargs[k], tuple) and all(z3.eq(z(x), z(y)) for x, y in zip(c["kw"][k], kwargs[k]))) or
                                                          (isinstance(kwargs[k], NDArr) and isinstance(c["kw"][k], NDArr) and z3.is_true(z3.simplify(cells_equal(c["kw"][k], kwargs[k])))) for k in kwargs)
            ctx.prove(f"{ident}/options_forwarded", hy, z3.BoolVal(bool(same_kw)), fn=f, replay=rp, clause="every keyword option (property, isovalue, origin, bounds, ...) reaches the descriptor unchanged; none is added")
            ctx.prove(f"{ident}/result", hy, z3.BoolVal(res[0].value is c["result"]), fn=f, replay=rp, clause="the descriptor's result is returned as is")
            ctx.safety(ident, res, fn=f)
    ctx.attempt("molecule.Molecule.shape_descriptors", ob_mol_shape, fn=f)

    # ---------------------------------------------------------------------------------------------------- Molecule.atomic_shape_descriptors
    fa = ctx.fn(MOLM, "Molecule.atomic_shape_descriptors")

    def ob_mol_atomic():
        H = EntryHarness(ctx)
        I = H.I
        K = 3
        Z = [z3.Int(f"Z{k}") for k in range(K)]
        P = [[z3.Real(f"p{k}_{c}") for c in range(3)] for k in range(K)]
        mol = H.molecule(I, Z, P)
        # neighbour pattern (the only thing the distances decide): 0-1 bonded, 0-2 within the radius, 1-2 outside it, nothing closer than 1e-3
        D = [[Fraction(0), Fraction(1), Fraction(5, 2)], [Fraction(1), Fraction(0), Fraction(7)], [Fraction(5, 2), Fraction(7), Fraction(0)]]
        mol.fields["distance_matrix"] = farr(D)
        neigh = {0: [1, 2], 1: [0], 2: [0]}
        bg = z3.Real("background")
        res = I.run(fa, [mol], {"l_max": 4, "background": bg}, pre=[zz >= 1 for zz in Z] + [zz <= 103 for zz in Z])
        rp = entry_replay("Molecule.atomic_shape_descriptors", seed)
        ident = "molecule.Molecule.atomic_shape_descriptors"
        rets = [r for r in res if r.kind == "return"]
        for k, r in enumerate([r for r in res if r.kind != "return"]):
            ctx.prove(f"{ident}/describes_every_atom/{k}", r.pc, z3.BoolVal(False), fn=fa, replay=rp,
                      clause="for a molecule whose atomic numbers are all in 1..103 the method returns normally (this path ends in "
                             f"{getattr(r.value, 'exc_type', r.kind)}: {getattr(r.value, 'msg', '')})")
        if rets or len(res) == len(rets):
            ctx.prove(f"{ident}/paths", [], z3.BoolVal(len(rets) == 1), fn=fa, replay=rp, clause="exactly one normal path for the 3-atom instance")
        if len(rets) != 1:
            return
        r = rets[0]
        hy = r.pc
        calls = list(H.calls)
        ctx.prove(f"{ident}/one_call_per_atom", hy, z3.BoolVal(len(calls) == K and all(c["fn"] == "stockholder_weight_descriptor" for c in calls)), fn=fa, replay=rp,
                  clause="one stockholder descriptor per atom")
        if len(calls) != K:
            return
        for n, c in enumerate(calls):
            a = c["args"]
            okn = len(a) == 5 and isinstance(a[0], ShtToken) and a[0].lmax == 4
            interior = z3.And(cells_equal(a[1], iarr([Z[n]])), cells_equal(a[2], farr([P[n]]))) if okn else z3.BoolVal(False)
            exterior = z3.And(cells_equal(a[3], iarr([Z[j] for j in neigh[n]])), cells_equal(a[4], farr([P[j] for j in neigh[n]]))) if okn else z3.BoolVal(False)
            ctx.prove(f"{ident}/atom{n}/interior_is_the_atom", hy, interior, fn=fa, replay=rp, clause=f"descriptor {n}: the interior is atom {n} alone (its number, its position)")
            ctx.prove(f"{ident}/atom{n}/exterior_is_its_neighbours", hy, exterior, fn=fa, replay=rp,
                      clause=f"descriptor {n}: the exterior is exactly the other atoms within the radius (numbers paired with positions)")
            b = c["kw"].get("bounds")
            if isinstance(b, tuple) and len(b) == 2:
                lo, hi = b
                fv = (free_consts(z(to_real(lo))) | free_consts(z(to_real(hi))))
                # the bound may read the atom's ELEMENT only: after abstracting vdw(Z_n) nothing else may remain
                hi_t = z(to_real(hi))
                vd = z3.Real("vdw_of_this_atom")
                hi_abs = z3.substitute(hi_t, (VDW(Z[n]), vd))
                lo_abs = z3.substitute(z(to_real(lo)), (VDW(Z[n]), vd))
                other = (free_consts(hi_abs) | free_consts(lo_abs)) - {"vdw_of_this_atom"}
                uses_vdw = "vdw_of_this_atom" in free_consts(hi_abs)
                ctx.ground(f"{ident}/atom{n}/bounds/element_of_this_atom", not other and uses_vdw and not _mentions_vdw(hi_abs), tag="F", fn=fa,
                           detail={"upper_bound_term": str(hi_t), "other_symbols_read": sorted(other)}, witness={"upper_bound_term": str(hi_t)},
                           clause=f"descriptor {n}: the search bounds read nothing but the van der Waals radius of atom {n}'s OWN element (not its index, not another atom): "
                                  "pose and order independent")
                ctx.prove(f"{ident}/atom{n}/bounds/ordered", hy + [VDW(Z[n]) >= 1], z3.And(z(to_real(lo)) > 0, z(to_real(lo)) < hi_t), fn=fa, replay=rp,
                          clause="0 < lower < upper for every tabulated van der Waals radius (>= 1 A)")
            else:
                ctx.prove(f"{ident}/atom{n}/bounds/element_of_this_atom", hy, z3.BoolVal(False), fn=fa, replay=rp, clause="bounds passed as a pair")
            ctx.prove(f"{ident}/atom{n}/background", hy, z(num_cmp("==", c["kw"].get("background", Fraction(-1)), bg)), fn=fa, replay=rp, clause="the requested background density is used")
            ctx.prove(f"{ident}/atom{n}/origin_defaulted", hy, z3.BoolVal("origin" not in c["kw"] or z3.is_true(z3.simplify(cells_equal(c["kw"]["origin"], farr(P[n]))))), fn=fa, replay=rp,
                      clause="the surface is centred on the atom (default origin = centroid of the one-atom interior, or the atom's position given explicitly)")
        rows = r.value.rows if isinstance(r.value, RowList) else None
        ctx.prove(f"{ident}/rows_follow_atom_order", hy, z3.BoolVal(rows is not None and len(rows) == K and all(rows[n] is calls[n]["result"] for n in range(K))), fn=fa, replay=rp,
                  clause="row n of the result is the descriptor of atom n")
        ctx.safety(ident, res, fn=fa)
    ctx.attempt("molecule.Molecule.atomic_shape_descriptors", ob_mol_atomic, fn=fa)

    # ---------------------------------------------------------------------------------------------------- Crystal entry points
    crystal_obligations(ctx)


def _mentions_vdw(t):
    if z3.is_app(t) and t.decl().name() == "vdw_radius_of_Z":
        return True
    return any(_mentions_vdw(c) for c in t.children())


def crystal_obligations(ctx):
    seed = ctx.seed
    K, KE = 3, 2

    def env(H, I, tag):
        Z = [z3.Int(f"{tag}Z{k}") for k in range(K)]
        P = [[z3.Real(f"{tag}p{k}_{c}") for c in range(3)] for k in range(K)]
        ZE = [z3.Int(f"{tag}ZE{k}") for k in range(KE)]
        PE = [[z3.Real(f"{tag}pe{k}_{c}") for c in range(3)] for k in range(KE)]
        return Z, P, ZE, PE

    def check_centroid_call(ident, c, hy, H, Z, P, ZE, PE, f, rp, norm_index, lmax, extra_kw):
        a = c["args"]
        okn = len(a) == 5 and isinstance(a[0], ShtToken) and a[0].lmax == lmax and c["fn"] == "stockholder_weight_descriptor"
        ctx.prove(f"{ident}/interior_exterior", hy, z3.And(cells_equal(a[1], iarr(Z)), cells_equal(a[2], farr(P)), cells_equal(a[3], iarr(ZE)), cells_equal(a[4], farr(PE))) if okn else z3.BoolVal(False),
                  fn=f, replay=rp, clause="interior = the molecule/group (numbers paired with positions), exterior = its surroundings, transform of the requested degree")
        cen = [sum(P[k][cc] for k in range(K)) / K for cc in range(3)]
        o = c["kw"].get("origin")
        ctx.prove(f"{ident}/origin_is_centroid", hy, cells_equal(o, farr(cen)) if o is not None else z3.BoolVal(True), fn=f, replay=rp,
                  clause="the origin handed over is the centroid of the interior atoms (moves rigidly with the system, independent of atom order)")
        b = c["kw"].get("bounds")
        if isinstance(b, tuple) and len(b) == 2 and norm_index < len(H.norms):
            rows, dts = H.norms[norm_index]
            ctx.prove(f"{ident}/bounds/distances_to_origin", hy, cells_equal(rows, farr([[P[k][cc] - cen[cc] for cc in range(3)] for k in range(K)])), fn=f, replay=rp,
                      clause="the lengths the bounds are built from are |position_k - origin| of the interior atoms")
            pose_free_bounds(ctx, ident, hy, b[0], b[1], dts, f, rp, "the distances of the interior atoms to the origin")
        elif b is not None:
            ctx.prove(f"{ident}/bounds/distances_to_origin", hy, z3.BoolVal(False), fn=f, replay=rp, clause="bounds built from the logged distances")
        for k2, v in extra_kw.items():
            got = c["kw"].get(k2, "<absent>")
            ctx.prove(f"{ident}/option_{k2}", hy, z3.BoolVal(got is v or (not is_sym(v) and not isinstance(v, NDArr) and got == v)), fn=f, replay=rp, clause=f"option {k2} reaches the descriptor unchanged")

    # ---- Crystal.molecule_shape_descriptors ------------------------------------------------------------------------------------------------
    f1 = ctx.fn(CRY, "Crystal.molecule_shape_descriptors")

    def ob_molecule():
        state = {}

        def env_result(I, self_, mol, radius=6.0, threshold=Fraction(1, 1000)):
            state["radius"] = radius
            return (state["mol"], iarr(state["ZE"]), farr(state["PE"]))
        H = EntryHarness(ctx, contracts={CRY + ".Crystal.molecule_environment": Contract(result=env_result)})
        I = H.I
        Z, P, ZE, PE = env(H, I, "m")
        state.update(mol=H.molecule(I, Z, P), ZE=ZE, PE=PE)
        cry = Obj(I.class_of(source.load_module(CRY), "Crystal"), {})
        arg_mol = H.molecule(I, [z3.Int(f"q{k}") for k in range(K)], [[z3.Real(f"qp{k}_{c}") for c in range(3)] for k in range(K)])
        rad = z3.Real("radius")
        res = I.run(f1, [cry, arg_mol], {"l_max": 6, "radius": rad, "with_property": "esp"})
        rp = entry_replay("Crystal.molecule_shape_descriptors", seed)
        ident = "crystal.Crystal.molecule_shape_descriptors"
        ok = len(res) == 1 and res[0].kind == "return" and len(H.calls) == 1
        ctx.prove(f"{ident}/single_call", [], z3.BoolVal(ok), fn=f1, replay=rp, clause="one normal path, one descriptor call")
        if ok:
            ctx.prove(f"{ident}/radius_forwarded", res[0].pc, z3.BoolVal(state.get("radius") is rad), fn=f1, replay=rp, clause="the environment is collected with the requested radius")
            check_centroid_call(ident, H.calls[0], res[0].pc, H, Z, P, ZE, PE, f1, rp, 0, 6, {"with_property": "esp"})
            ctx.prove(f"{ident}/result", res[0].pc, z3.BoolVal(res[0].value is H.calls[0]["result"]), fn=f1, replay=rp, clause="the descriptor is returned as is")
        ctx.safety(ident, res, fn=f1)
    ctx.attempt("crystal.Crystal.molecule_shape_descriptors", ob_molecule, fn=f1)

    # ---- Crystal.molecular_shape_descriptors ------------------------------------------------------------------------------------------------
    f2 = ctx.fn(CRY, "Crystal.molecular_shape_descriptors")

    def ob_molecular(return_coefficients):
        state = {}

        def envs_result(I, self_, radius=6.0, threshold=Fraction(1, 1000)):
            state["radius"] = radius
            return [(m, iarr(ze), farr(pe)) for (m, ze, pe) in state["envs"]]
        H = EntryHarness(ctx, contracts={CRY + ".Crystal.molecule_environments": Contract(result=envs_result)})
        I = H.I
        sysm = [env(H, I, t) for t in ("a", "b")]
        state["envs"] = [(H.molecule(I, Z, P), ZE, PE) for (Z, P, ZE, PE) in sysm]
        cry = Obj(I.class_of(source.load_module(CRY), "Crystal"), {})
        res = I.run(f2, [cry], {"l_max": 3, "with_property": "d_norm", "return_coefficients": return_coefficients})
        rp = entry_replay("Crystal.molecular_shape_descriptors", seed)
        ident = f"crystal.Crystal.molecular_shape_descriptors/{'with_coefficients' if return_coefficients else 'plain'}"
        ok = len(res) == 1 and res[0].kind == "return" and len(H.calls) == 2
        ctx.prove(f"{ident}/one_call_per_molecule", [], z3.BoolVal(ok), fn=f2, replay=rp, clause="one normal path, one descriptor call per symmetry-unique molecule")
        if ok:
            for k, (Z, P, ZE, PE) in enumerate(sysm):
                check_centroid_call(f"{ident}/molecule{k}", H.calls[k], res[0].pc, H, Z, P, ZE, PE, f2, rp, k, 3, {"with_property": "d_norm", "coefficients": return_coefficients})
            v = res[0].value
            if return_coefficients:
                good = isinstance(v, tuple) and len(v) == 2 and all(isinstance(x, RowList) and len(x.rows) == 2 for x in v) and \
                    all(v[0].rows[k] is H.calls[k]["result"][0] and v[1].rows[k] is H.calls[k]["result"][1] for k in range(2))
            else:
                good = isinstance(v, RowList) and len(v.rows) == 2 and all(v.rows[k] is H.calls[k]["result"] for k in range(2))
            ctx.prove(f"{ident}/rows_follow_molecule_order", res[0].pc, z3.BoolVal(bool(good)), fn=f2, replay=rp, clause="row k of the result belongs to molecule k (coefficients and invariants not swapped)")
        ctx.safety(ident, res, fn=f2)
    for rc in (False, True):
        ctx.attempt(f"crystal.Crystal.molecular_shape_descriptors/{rc}", lambda rc=rc: ob_molecular(rc), fn=f2)

    # ---- Crystal.atom_group_shape_descriptors ------------------------------------------------------------------------------------------------
    f3 = ctx.fn(CRY, "Crystal.atom_group_shape_descriptors")

    def ob_group():
        state = {}

        def sur_result(I, self_, atoms, radius=6.0):
            state["radius"], state["atoms"] = radius, atoms
            return ((iarr(state["Z"]), farr(state["P"])), (iarr(state["ZE"]), farr(state["PE"])))

        def from_arrays_result(I, cls, elements, positions, **kw):
            state["from_arrays"] = (elements, positions)
            return H.molecule(I, list(elements.flat()), [[positions.data[k, c] for c in range(3)] for k in range(positions.shape[0])])
        H = EntryHarness(ctx, contracts={CRY + ".Crystal.atom_group_surroundings": Contract(result=sur_result), MOLM + ".Molecule.from_arrays": Contract(result=from_arrays_result)})
        I = H.I
        Z, P, ZE, PE = env(H, I, "g")
        state.update(Z=Z, P=P, ZE=ZE, PE=PE)
        cry = Obj(I.class_of(source.load_module(CRY), "Crystal"), {})
        atoms = (0, 2, 3)
        res = I.run(f3, [cry, atoms], {"l_max": 4})
        rp = entry_replay("Crystal.atom_group_shape_descriptors", seed)
        ident = "crystal.Crystal.atom_group_shape_descriptors"
        ok = len(res) == 1 and res[0].kind == "return" and len(H.calls) == 1
        ctx.prove(f"{ident}/single_call", [], z3.BoolVal(ok), fn=f3, replay=rp, clause="one normal path, one descriptor call")
        if ok:
            ctx.prove(f"{ident}/atoms_forwarded", res[0].pc, z3.BoolVal(state.get("atoms") is atoms or state.get("atoms") == atoms), fn=f3, replay=rp, clause="the surroundings are those of the requested atoms")
            check_centroid_call(ident, H.calls[0], res[0].pc, H, Z, P, ZE, PE, f3, rp, 0, 4, {})
        ctx.safety(ident, res, fn=f3)
    ctx.attempt("crystal.Crystal.atom_group_shape_descriptors", ob_group, fn=f3)

    # ---- Crystal.atomic_shape_descriptors ------------------------------------------------------------------------------------------------
    f4 = ctx.fn(CRY, "Crystal.atomic_shape_descriptors")

    def ob_atomic(return_coefficients):
        state = {}
        M = 2

        def sur_result(I, self_, radius=6.0):
            state["radius"] = radius
            return [{"centre": {"element": state["Zc"][m], "cart_pos": farr(state["Pc"][m]), "asym_atom": m},
                     "neighbours": {"element": iarr(state["ZE"][m]), "cart_pos": farr(state["PE"][m]), "distance": farr([z3.Real(f"nd{m}_{k}") for k in range(KE)]), "asym_atom": iarr([0] * KE)}}
                    for m in range(M)]
        H = EntryHarness(ctx, contracts={CRY + ".Crystal.atomic_surroundings": Contract(result=sur_result)})
        I = H.I
        state["Zc"] = [z3.Int(f"Zc{m}") for m in range(M)]
        state["Pc"] = [[z3.Real(f"pc{m}_{c}") for c in range(3)] for m in range(M)]
        state["ZE"] = [[z3.Int(f"ze{m}_{k}") for k in range(KE)] for m in range(M)]
        state["PE"] = [[[z3.Real(f"pe{m}_{k}_{c}") for c in range(3)] for k in range(KE)] for m in range(M)]
        cry = Obj(I.class_of(source.load_module(CRY), "Crystal"), {})
        rad = z3.Real("radius")
        pre = [zz >= 1 for zz in state["Zc"]] + [zz <= 103 for zz in state["Zc"]]
        res = I.run(f4, [cry], {"l_max": 3, "radius": rad, "with_property": "d_norm", "return_coefficients": return_coefficients}, pre=pre)
        rp = entry_replay("Crystal.atomic_shape_descriptors", seed)
        ident = f"crystal.Crystal.atomic_shape_descriptors/{'with_coefficients' if return_coefficients else 'plain'}"
        rets = [r for r in res if r.kind == "return"]
        for k, r in enumerate([r for r in res if r.kind != "return"]):
            ctx.prove(f"{ident}/describes_every_atom/{k}", r.pc, z3.BoolVal(False), fn=f4, replay=rp, clause="for atomic numbers in 1..103 the method returns normally")
        ok = len(rets) == 1 and len(H.calls) == M
        ctx.prove(f"{ident}/one_call_per_atom", [], z3.BoolVal(ok), fn=f4, replay=rp, clause="one normal path, one descriptor per asymmetric-unit atom")
        if not ok:
            return
        r = rets[0]
        hy = r.pc
        ctx.prove(f"{ident}/radius_forwarded", hy, z3.BoolVal(state.get("radius") is rad), fn=f4, replay=rp, clause="surroundings collected with the requested radius")
        for m, c in enumerate(H.calls):
            a = c["args"]
            okn = len(a) == 5 and isinstance(a[0], ShtToken) and a[0].lmax == 3
            ctx.prove(f"{ident}/atom{m}/interior_exterior", hy, z3.And(cells_equal(a[1], iarr([state["Zc"][m]])), cells_equal(a[2], farr([state["Pc"][m]])), cells_equal(a[3], iarr(state["ZE"][m])),
                                                                          cells_equal(a[4], farr(state["PE"][m]))) if okn else z3.BoolVal(False), fn=f4, replay=rp,
                      clause=f"descriptor {m}: interior = the site itself, exterior = its neighbours")
            b = c["kw"].get("bounds")
            if isinstance(b, tuple) and len(b) == 2:
                vd = z3.Real("vdw_of_this_atom")
                hi_abs = z3.substitute(z(to_real(b[1])), (VDW(state["Zc"][m]), vd))
                lo_abs = z3.substitute(z(to_real(b[0])), (VDW(state["Zc"][m]), vd))
                other = (free_consts(hi_abs) | free_consts(lo_abs)) - {"vdw_of_this_atom"}
                ctx.ground(f"{ident}/atom{m}/bounds/element_of_this_atom", not other and "vdw_of_this_atom" in free_consts(hi_abs) and not _mentions_vdw(hi_abs), tag="F", fn=f4,
                           detail={"upper_bound_term": str(b[1]), "other_symbols_read": sorted(other)}, witness={"upper_bound_term": str(b[1])},
                           clause=f"descriptor {m}: the search bounds read nothing but the van der Waals radius of the site's own element")
                ctx.prove(f"{ident}/atom{m}/bounds/ordered", hy + [VDW(state["Zc"][m]) >= 1], z3.And(z(to_real(b[0])) > 0, z(to_real(b[0])) < z(to_real(b[1]))), fn=f4, replay=rp, clause="0 < lower < upper")
            else:
                ctx.prove(f"{ident}/atom{m}/bounds/element_of_this_atom", hy, z3.BoolVal(False), fn=f4, replay=rp, clause="bounds passed as a pair")
            ctx.prove(f"{ident}/atom{m}/options", hy, z3.BoolVal(c["kw"].get("with_property") == "d_norm" and c["kw"].get("coefficients") is return_coefficients and
                                                                  ("origin" not in c["kw"] or z3.is_true(z3.simplify(cells_equal(c["kw"]["origin"], farr(state["Pc"][m])))))), fn=f4, replay=rp,
                      clause="property and coefficient options forwarded; surface centred on the site")
        v = r.value
        if return_coefficients:
            good = isinstance(v, tuple) and len(v) == 2 and all(isinstance(x, RowList) and len(x.rows) == M for x in v) and \
                all(v[0].rows[k] is H.calls[k]["result"][0] and v[1].rows[k] is H.calls[k]["result"][1] for k in range(M))
        else:
            good = isinstance(v, RowList) and len(v.rows) == M and all(v.rows[k] is H.calls[k]["result"] for k in range(M))
        ctx.prove(f"{ident}/rows_follow_site_order", hy, z3.BoolVal(bool(good)), fn=f4, replay=rp, clause="row k belongs to asymmetric-unit atom k (coefficients first, invariants second)")
        ctx.safety(ident, res, fn=f4)
    for rc in (False, True):
        ctx.attempt(f"crystal.Crystal.atomic_shape_descriptors/{rc}", lambda rc=rc: ob_atomic(rc), fn=f4)


# ======================================================================================================================================
# the root finder (de-cythonised _density.pyx): sign-bracket invariant of Brent's iteration, evaluation points, forwarding
# ======================================================================================================================================
G = z3.Function("value_along_ray", z3.RealSort(), z3.RealSort())           # t |-> rho(origin + t*direction)  resp.  w(origin + t*direction)
RAY = [z3.Function(f"ray_point_{c}", z3.RealSort(), z3.RealSort()) for c in range(3)]


class FieldStub:
    """The density / weight object as seen by the root finder: a function of the point."""


class InterpK(Interp9):
    """Keeps the local environment of the frame that executed `return` (needed to state the exit condition of the iteration)."""

    def x_Return(self, s, fr):
        self.return_env = dict(fr.env)
        self.return_fname = fr.fname
        return super().x_Return(s, fr)


def brent_obligations(ctx, pyx, fname, method):
    from contracts.c05_decython import ExtractError  # noqa
    qn = KMOD + "." + fname
    d = pyx.describe(fname)
    ctx.functions[d["qualname"]] = d
    ident = f"_density.{fname}"
    O = [z3.Real(f"o{c}") for c in range(3)]
    Dv = [z3.Real(f"d{c}") for c in range(3)]
    lower, upper, tol, iso = z3.Real("lower"), z3.Real("upper"), z3.Real("tol"), z3.Real("isovalue")
    max_iter = z3.Int("max_iter")
    F = lambda x: G(z(to_real(x))) - iso
    state = {"fv_bad": False}

    def fvmul_result(I, o, a, v, dest):
        good = isinstance(o, NDArr) and isinstance(v, NDArr) and o.shape == (3,) and v.shape == (3,) and \
            all(z3.eq(z(to_real(o.data[c])), O[c]) and z3.eq(z(to_real(v.data[c])), Dv[c]) for c in range(3))
        if not good:
            state["fv_bad"] = True
        for c in range(3):
            dest.data[c] = RAY[c](z(to_real(a)))
        return None

    def field_value(I, recv, v):
        cells = [z(to_real(v.data[c])) for c in range(3)]
        ts = []
        for c in range(3):
            t = cells[c]
            if not (z3.is_app(t) and t.decl().eq(RAY[c]) if hasattr(t.decl(), "eq") else False):
                if not (z3.is_app(t) and t.decl().name() == RAY[c].name()):
                    raise Unsupported("the field is evaluated at a point that was not produced by fvmul(origin, t, direction, .)")
            ts.append(t.arg(0))
        if not (z3.eq(ts[0], ts[1]) and z3.eq(ts[1], ts[2])):
            raise Unsupported("the field is evaluated at a point mixing different ray parameters")
        return G(ts[0])
    MOD = ["xpre", "xcur", "xblk", "fpre", "fcur", "fblk", "spre", "scur", "sbis", "stry", "dpre", "dblk", "delta", "i", "v"]

    def havoc(I, name, env):
        if name == "v":
            return farr([I.fresh("real", "v") for _ in range(3)])
        if name == "i":
            return I.fresh("int", "i")
        return I.fresh("real", name)

    def inv(I, env, k):
        e = lambda n: z(to_real(env[n]))
        A = z3.And(e("fpre") == F(env["xpre"]), e("fcur") == F(env["xcur"]))
        B = z3.Or(e("fpre") * e("fcur") < 0, z3.And(e("fblk") == F(env["xblk"]), e("fblk") * e("fcur") <= 0))
        return z3.And(A, B)
    I = InterpK(models={"FieldStub." + method: ModelFn(f"contract:{method}(point) is a function of the point (C05)", field_value)},
                contracts={KMOD + ".fvmul": Contract(result=fvmul_result)},
                loop_invs={(qn, "for", 0): LoopInv(inv, MOD, havoc)})
    ctx._interps = getattr(ctx, "_interps", [])
    ctx._interps.append(I)
    I.module_globals[(KMOD, "c_array")] = native(lambda k: farr([0] * k))
    I.module_globals[(KMOD, "fabs")] = libmodels.MODELS["builtins.abs"]
    fv = I.lookup_global(pyx.mod, fname)
    envs = []

    def run(I2, a, kw):
        I2.return_env, I2.return_fname = None, None
        try:
            return I2.call_function(fv, a, kw)
        finally:
            envs.append((I2.return_env if I2.return_fname == qn else None))
    from pyvc.symex import _PathEnd

    def run2(I2, a, kw):
        ok = True
        try:
            return run(I2, a, kw)
        except _PathEnd as e:
            ok = e.why != "infeasible"
            raise
        finally:
            if not ok:
                envs.pop()
    pre = [tol >= 0, max_iter >= 0]
    res = I.explore(run2, [FieldStub(), farr(O), farr(Dv), lower, upper, tol, max_iter, iso], {}, pre=pre)
    if len(res) != len(envs):
        raise RuntimeError(f"path/env bookkeeping out of step: {len(res)} vs {len(envs)}")

    def replay(model):
        with nat.quiet_stderr():
            r = nat.bounded_roots(ctx.seed, "quick")
        return {"native_inputs": r["failures"][0]["input"] if r["failures"] else "seeded rays through small systems (binary; the .pyx cannot be rebuilt here)",
                "reproduced": bool(r["failures"]), "observed": r["failures"][0]["observed"] if r["failures"] else r["stats"]}
    ctx.prove(f"{ident}/evaluation_points", [], z3.BoolVal(not state["fv_bad"]), replay=replay,
              clause="every point at which the field is evaluated is fvmul(origin, t, direction): the function's own origin and direction, never anything else")
    kinds = {"early": [], "inloop": [], "cap": [], "body": []}
    for r, env in zip(res, envs):
        ch = [dd for dd in r.decisions if type(dd) is int]
        if r.kind == "loop-end":
            kinds["body"].append((r, env))
        elif not ch:
            kinds["early"].append((r, env))
        elif ch[0] == 0:
            kinds["inloop"].append((r, env))
        else:
            kinds["cap"].append((r, env))
    fl, fu = F(lower), F(upper)
    n_minus1 = 0
    for k, (r, env) in enumerate(kinds["early"]):
        v = r.value
        is_m1 = (not is_sym(v)) and Fraction(v) == -1
        if is_m1:
            n_minus1 += 1
            ctx.prove(f"{ident}/not_found/only_if_unbracketed", r.pc, fl * fu > 0, replay=replay,
                      clause="-1 (not found) is returned only when (value - isovalue) has the same strict sign at both search bounds")
        else:
            ctx.prove(f"{ident}/exact_root_at_bound/{k}", r.pc, z3.And(z3.Not(fl * fu > 0), F(v) == 0, z3.Or(z(to_real(v)) == lower, z(to_real(v)) == upper)), replay=replay,
                      clause="an early return other than -1 returns a search bound at which value == isovalue exactly")
    ctx.prove(f"{ident}/not_found/path_exists", [], z3.BoolVal(n_minus1 == 1 and len(kinds["early"]) == 3), replay=replay,
              clause="before iterating: one 'not found' return and the two exact-root returns, nothing else")
    # all paths that enter the iteration were bracketed
    for k, (r, env) in enumerate(kinds["inloop"] + kinds["cap"] + kinds["body"]):
        ctx.prove(f"{ident}/iteration_entered_only_if_bracketed/{k}", r.pc, fl * fu < 0, replay=replay,
                  clause="the iteration starts only from a strict sign change between the bounds: 'not found' is returned whenever the signs agree")
    for k, (r, env) in enumerate(kinds["inloop"]):
        if env is None:
            ctx.prove(f"{ident}/converged_exit/{k}", r.pc, z3.BoolVal(False), replay=replay, clause="environment of the returning frame available")
            continue
        xc, xb = z(to_real(env["xcur"])), z(to_real(env["xblk"]))
        val = z(to_real(r.value))
        width = z(to_real(Fraction(1, 100000))) + tol * z3.If(xc >= 0, xc, -xc)
        dist = z3.If(xb - xc >= 0, xb - xc, xc - xb)
        ctx.prove(f"{ident}/converged_exit/{k}", r.pc, z3.And(val == xc, z3.Or(F(xc) == 0, z3.And(F(xb) * F(xc) <= 0, dist < width))), replay=replay, split=False,
                  clause="a return from inside the iteration returns a radius r with value(r) == isovalue, or with a sign change of (value - isovalue) between r and a point closer "
                         "than xtol + tol*|r| (xtol = 1e-5): by the intermediate value theorem a solution of the isovalue equation lies within that distance")
    for k, (r, env) in enumerate(kinds["cap"]):
        ctx.prove(f"{ident}/iteration_cap_exit/{k}", r.pc, z3.BoolVal(env is not None and z3.eq(z(to_real(r.value)), z(to_real(env["xcur"])))), replay=replay,
                  clause="when max_iter iterations did not converge the current iterate is returned (NOT reported as an error by the code; counted by the bounded stand-in)")
    ctx.safety(ident, res, replay=replay)
    covers(ctx, ident, res)
    return {k: len(v) for k, v in kinds.items()}


def kernel_obligations(ctx):
    from contracts.c05_decython import ExtractError, PyxModule, embedded_pyx_lines
    import os
    try:
        pyx = PyxModule(KMOD)
    except (ExtractError, SyntaxError, OSError) as e:
        ctx.attempt("_density/extract", lambda: (_ for _ in ()).throw(Unsupported(f"de-cythoniser: {e}")))
        return
    cpath = pyx.path[:-4] + ".c"
    if not os.path.exists(cpath) and os.environ.get("CHMPY_VERIF_REPO"):
        cpath = os.path.join("/repo/src", KMOD.replace(".", "/") + ".c")
    if os.path.exists(cpath):
        emb = embedded_pyx_lines(cpath, os.path.basename(pyx.path))
        bad = [k for k, v in emb.items() if k > len(pyx.pyx_lines) or v.rstrip() != pyx.pyx_lines[k - 1].rstrip()]
        ctx.notes.append(f"SOURCE/BINARY SKEW: {len(bad)} of {len(emb)} embedded .pyx lines differ from the working tree (first: line {min(bad)}); P obligations speak about the source, "
                         "B stand-ins about the stale binary" if bad else f"source/binary skew check: all {len(emb)} .pyx lines embedded in {os.path.basename(cpath)} match the working-tree .pyx")
    # ---- fvmul: dest = o + a * v ------------------------------------------------------------------------------------------------------------
    def ob_fvmul():
        d = pyx.describe("fvmul")
        ctx.functions[d["qualname"]] = d
        I = Interp9()
        ctx._interps.append(I)
        o, v, a = [z3.Real(f"o{c}") for c in range(3)], [z3.Real(f"v{c}") for c in range(3)], z3.Real("a")
        dest = farr([z3.Real(f"junk{c}") for c in range(3)])
        res = I.explore(lambda I2, ar, kw: (I2.call_function(I2.lookup_global(pyx.mod, "fvmul"), ar, kw), ar[3])[1], [farr(o), a, farr(v), dest], {})
        ok = len(res) == 1 and res[0].kind == "return" and isinstance(res[0].value, NDArr)
        goal = conj([z(to_real(res[0].value.data[c])) == o[c] + a * v[c] for c in range(3)]) if ok else z3.BoolVal(False)
        ctx.prove("_density.fvmul/ensures/point_on_ray", res[0].pc if ok else [], goal, clause="fvmul(o, a, v, dest) stores dest = o + a*v (component-wise): the point at parameter a of the ray from o along v")
        ctx.safety("_density.fvmul", res)
    ctx.attempt("_density.fvmul", ob_fvmul)
    counts = {}
    for fname, method in (("brents_pro", "one_rho"), ("brents_stock", "one_weight")):
        def thunk(fname=fname, method=method):
            counts[fname] = brent_obligations(ctx, pyx, fname, method)
        ctx.attempt(f"_density.{fname}", thunk)
    ctx.notes.append(f"Brent paths explored (early returns / returns inside the iteration / cap exits / completed bodies): {counts}")
    # ---- sphere_*_radii: one root search per grid row, everything forwarded in order --------------------------------------------------------------
    for fname, callee in (("sphere_promolecule_radii", "brents_pro"), ("sphere_stockholder_radii", "brents_stock")):
        def thunk(fname=fname, callee=callee):
            d = pyx.describe(fname)
            ctx.functions[d["qualname"]] = d
            calls = []

            def brent_result(I, s, o, dd, l, u, tol, it, iso):
                calls.append(dict(s=s, o=[o.data[c] for c in range(3)], d=[dd.data[c] for c in range(3)], l=l, u=u, tol=tol, it=it, iso=iso))
                return z3.Real(f"root{len(calls) - 1}")

            def np_empty(I, shape=None, dtype=None, **kw):
                n = shape if isinstance(shape, int) else shape[0]
                return farr([z3.Real(f"uninit{k}") for k in range(n)])
            I = Interp9(models={"numpy.empty": ModelFn("numpy.empty (cells unspecified)", np_empty)}, contracts={KMOD + "." + callee: Contract(result=brent_result)})
            ctx._interps.append(I)
            I.module_globals[(KMOD, "c_array")] = native(lambda k: farr([z3.Real(f"cjunk{k}_{j}") for j in range(k)]))
            NG = 3
            o = [z3.Real(f"o{c}") for c in range(3)]
            g = [[z3.Real(f"g{i}_{c}") for c in range(3)] for i in range(NG)]
            l, u, tol, iso, it = z3.Real("l"), z3.Real("u"), z3.Real("tol"), z3.Real("iso"), z3.Int("max_iter")
            handle = FieldStub()
            res = I.explore(lambda I2, ar, kw: I2.call_function(I2.lookup_global(pyx.mod, fname), ar, kw), [handle, farr(o), farr(g), l, u, tol, it, iso], {})
            ok = len(res) == 1 and res[0].kind == "return" and len(calls) == NG and isinstance(res[0].value, NDArr) and res[0].value.shape == (NG,)
            idn = f"_density.{fname}"
            ctx.prove(f"{idn}/one_search_per_direction", [], z3.BoolVal(ok), clause="one normal path; one root search per grid row; one radius per grid row")
            if not ok:
                return
            hy = res[0].pc
            for i, c in enumerate(calls):
                good = z3.And(z3.BoolVal(c["s"] is handle), *[z(to_real(c["o"][k])) == o[k] for k in range(3)], *[z(to_real(c["d"][k])) == g[i][k] for k in range(3)],
                              z(to_real(c["l"])) == l, z(to_real(c["u"])) == u, z(to_real(c["tol"])) == tol, z(c["it"]) == it, z(to_real(c["iso"])) == iso)
                ctx.prove(f"{idn}/search{i}/arguments", hy, good, split=False,
                          clause=f"search {i} runs on the given field from the given origin along grid row {i}, with (lower, upper, tol, max_iter, isovalue) in that order")
                ctx.prove(f"{idn}/search{i}/stored_in_row", hy, z(to_real(res[0].value.data[i])) == z3.Real(f"root{i}"), clause=f"radius {i} of the result is the root found along grid row {i}")
            ctx.safety(idn, res)
        ctx.attempt(f"_density.{fname}", thunk)


# ======================================================================================================================================
# lemmas about the spec functions only (why the proved dataflow gives pose independence of the sampled functions)
# ======================================================================================================================================
def lemmas(ctx):
    K = 3
    R = [[z3.Real(f"R{i}{j}") for j in range(3)] for i in range(3)]
    t = [z3.Real(f"t{i}") for i in range(3)]
    P = [[z3.Real(f"p{k}_{c}") for c in range(3)] for k in range(K)]
    mv = lambda v: [sum(R[i][c] * v[c] for c in range(3)) + t[i] for i in range(3)]
    lin = lambda v: [sum(R[i][c] * v[c] for c in range(3)) for i in range(3)]
    cen = lambda pts: [sum(p[c] for p in pts) / len(pts) for c in range(3)]
    moved = [mv(p) for p in P]
    ctx.prove("lemma/centroid/moves_with_the_system", [], conj([cen(moved)[c] == mv(cen(P))[c] for c in range(3)]), tag="L",
              clause="centroid(R p_k + t) == R centroid(p_k) + t for every matrix R and vector t: the default origin moves rigidly with the system")
    ctx.prove("lemma/centroid/independent_of_atom_order", [], conj([cen([P[1], P[0], P[2]])[c] == cen(P)[c] for c in range(3)] + [cen([P[0], P[2], P[1]])[c] == cen(P)[c] for c in range(3)]), tag="L",
              clause="the centroid is unchanged by exchanging two atoms (adjacent transpositions generate all permutations)")
    o, d, r = [z3.Real(f"o{c}") for c in range(3)], [z3.Real(f"d{c}") for c in range(3)], z3.Real("r")
    ctx.prove("lemma/surface_point/moves_with_the_system", [], conj([mv(o)[c] + r * lin(d)[c] == mv([o[j] + r * d[j] for j in range(3)])[c] for c in range(3)]), tag="L",
              clause="(R o + t) + r (R d) == R (o + r d) + t: with the origin ADDED, the points at which the property is sampled move rigidly with the system; "
                     "without it (r d alone) they do not follow a translation")
    tt = z3.Real("shift")
    ctx.prove("lemma/surface_point/origin_needed", [], z3.Not(z3.ForAll([tt, r, d[0], o[0]], (o[0] + tt) + r * d[0] == (r * d[0]) + tt)), tag="L",
              clause="sanity: the identity above fails when the origin is dropped from the right-hand side (the lemma is not vacuous)")
    hy = [sum(R[c][i] * R[c][j] for c in range(3)) - (1 if i == j else 0) for i in range(3) for j in range(i, 3)]
    a = [z3.Real(f"a{c}") for c in range(3)]
    goal = sum((mv(P[0])[i] - mv(a)[i]) * (mv(P[0])[i] - mv(a)[i]) for i in range(3)) - sum((P[0][i] - a[i]) * (P[0][i] - a[i]) for i in range(3))
    rr = ctx.prove_identity("lemma/distance_to_origin/rigid_motion", [goal], hy,
                            clause="|(R p + t) - (R a + t)|^2 == |p - a|^2 whenever R^T R = 1: the distances the crystal entry points build their search bounds from are pose independent")
    rr.tag = "L"
    g = [z3.Real(f"g{c}") for c in range(3)]
    goal2 = sum(lin(g)[i] * lin(g)[i] for i in range(3)) - sum(g[i] * g[i] for i in range(3))
    rr = ctx.prove_identity("lemma/direction/stays_unit", [goal2], hy, clause="|R g|^2 == |g|^2 whenever R^T R = 1: rotated grid directions are again directions on the unit sphere")
    rr.tag = "L"


def covers(ctx, label, results):
    """Vacuity guard: the hypotheses (path condition) of the obligations of a path must be satisfiable."""
    n_sat = n_unk = 0
    for k, r in enumerate(results):
        s = z3.Solver()
        s.set("timeout", 3000)
        for c in r.pc:
            s.add(z(c))
        v = s.check()
        if v == z3.unsat:
            ctx.checker_errors.append(f"vacuous: path condition of {label} path {k} is unsatisfiable")
        elif v == z3.sat:
            n_sat += 1
        else:
            n_unk += 1
    cv = getattr(ctx, "_covers9", {"sat": 0, "unknown": 0})
    cv["sat"] += n_sat
    cv["unknown"] += n_unk
    ctx._covers9 = cv
