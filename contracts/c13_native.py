"""C13 — run-time contracts (oracle evaluated natively on the real functions), replay harnesses and the bounded stand-ins."""
import contextlib
import copy
import io
import itertools

import numpy as np

R_GROUPS = (146, 148, 155, 160, 161, 166, 167)
# fractional tolerance for "coincides modulo the lattice": float64 products/sums of O(100) numbers give errors ~1e-13; 1e-6 of a cell edge
# (<= 1e-4 Angstrom) is far above that and far below any interatomic separation
FTOL = 1e-6
RTOL = 1e-9          # relative tolerance for scalar quantities (lengths, density, volume) computed in float64


def quiet():
    return contextlib.redirect_stdout(io.StringIO())


# ----------------------------------------------------------------------------------------------------------------------
# crystals
# ----------------------------------------------------------------------------------------------------------------------
def rotation(rng):
    q = rng.normal(size=4)
    q /= np.linalg.norm(q)
    w, x, y, z = q
    return np.array([[1 - 2 * (y * y + z * z), 2 * (x * y - z * w), 2 * (x * z + y * w)],
                     [2 * (x * y + z * w), 1 - 2 * (x * x + z * z), 2 * (y * z - x * w)],
                     [2 * (x * z - y * w), 2 * (y * z + x * w), 1 - 2 * (x * x + y * y)]])


ROT345 = np.array([[0.6, 0.8, 0.0], [-0.8, 0.6, 0.0], [0.0, 0.0, 1.0]])
MOLECULES = {
    "CO": (["C", "O"], np.array([[0.0, 0.0, 0.0], [1.13, 0.0, 0.0]])),
    "H2O": (["O", "H", "H"], np.array([[0.0, 0.0, 0.0], [0.757, 0.586, 0.0], [-0.757, 0.586, 0.0]])),
    "HCN": (["H", "C", "N"], np.array([[-1.06, 0.0, 0.0], [0.0, 0.0, 0.0], [1.16, 0.0, 0.0]])),
}
# (number, choice, cell constructor name, parameter ranges)
SETTINGS = [
    (1, "", "triclinic"), (2, "", "triclinic"), (4, "", "monoclinic"), (14, "", "monoclinic"), (19, "", "orthorhombic"), (33, "", "orthorhombic"),
    (61, "", "orthorhombic"), (76, "", "tetragonal"), (143, "", "hexagonal"), (146, "H", "hexagonal"), (146, "R", "rhombohedral"), (148, "H", "hexagonal"),
    (148, "R", "rhombohedral"), (198, "", "cubic"),
]


def make_cell(kind, rng):
    from chmpy.crystal import UnitCell
    L = rng.uniform(9.0, 14.0, 3)
    if kind == "triclinic":
        return UnitCell.from_lengths_and_angles(L, np.radians(rng.uniform(75, 105, 3)))
    if kind == "monoclinic":
        return UnitCell.from_lengths_and_angles(L, [np.pi / 2, np.radians(rng.uniform(95, 115)), np.pi / 2])
    if kind == "orthorhombic":
        return UnitCell.from_lengths_and_angles(L, [np.pi / 2] * 3)
    if kind == "tetragonal":
        return UnitCell.from_lengths_and_angles([L[0], L[0], L[2] + 3], [np.pi / 2] * 3)
    if kind == "hexagonal":
        return UnitCell.from_lengths_and_angles([L[0] + 4, L[0] + 4, L[2]], [np.pi / 2, np.pi / 2, 2 * np.pi / 3])
    if kind == "rhombohedral":
        ang = np.radians(rng.uniform(60, 100))
        return UnitCell.from_lengths_and_angles([L[0] + 2] * 3, [ang] * 3)
    if kind == "cubic":
        return UnitCell.from_lengths_and_angles([L[0] + 3] * 3, [np.pi / 2] * 3)
    raise ValueError(kind)


def separated(c, dmin=2.2):
    """every unit-cell molecule is one of the placed molecules (no contacts between different molecules below dmin, periodic)."""
    uc = c.unit_cell_atoms()
    f = uc["frac_pos"]
    n_asym = len(c.asymmetric_unit)
    if len(f) != n_asym * len(c.space_group.symmetry_operations):
        return False                                   # an atom sits on a special position
    pts = np.vstack([(f + np.array(s)) @ c.unit_cell.direct for s in itertools.product((-1, 0, 1), repeat=3)])
    from scipy.spatial import cKDTree
    t = cKDTree(pts)
    centre = slice(13 * len(f), 14 * len(f))
    pairs = t.query_ball_point(pts[centre], dmin)
    # two atoms closer than dmin must belong to the same placed molecule under the same operation (the molecule may straddle the cell boundary)
    mol_of_site = c._c13_mol_of_site
    ident = [(int(s), mol_of_site[int(a)]) for s, a in zip(uc["symop"], uc["asym_atom"])]
    for a_, nb in enumerate(pairs):
        for b_ in nb:
            if ident[a_] != ident[b_ % len(f)]:
                return False
    return True


def make_crystal(number, choice, kind, rng, orientation="standard", n_mol=1):
    """A molecular crystal in the given setting: n_mol small rigid molecules at general positions, well separated from all images.
    orientation: 'standard' (cell from lengths and angles), 'rotated' (same cell given as UnitCell(vectors . Q), Q a seeded rotation), 'rot345'."""
    from chmpy.crystal import Crystal, UnitCell, SpaceGroup, AsymmetricUnit
    from chmpy import Element
    sg = SpaceGroup(number, choice=choice)
    for _try in range(400):
        cell = make_cell(kind, rng)
        els, pos, mol_of_site = [], [], []
        first = int(rng.integers(0, len(MOLECULES)))
        for m in range(n_mol):
            name = list(MOLECULES)[(first + m) % len(MOLECULES)]          # different molecules when n_mol > 1 (so a wrong stacking order is visible)
            sym, xyz = MOLECULES[name]
            xyz = xyz @ rotation(rng).T + rng.uniform(0.05, 0.95, 3) @ cell.direct
            els += [Element[s] for s in sym]
            pos.append(xyz)
            mol_of_site += [m] * len(sym)
        pos = np.vstack(pos)
        frac = cell.to_fractional(pos)
        c = Crystal(cell, sg, AsymmetricUnit(els, frac))
        c._c13_mol_of_site = mol_of_site
        if separated(c):
            break
    else:
        return None
    if orientation != "standard":
        Q = ROT345 if orientation == "rot345" else rotation(rng)
        c = Crystal(UnitCell(cell.direct @ Q), sg, AsymmetricUnit(els, frac.copy()))
    c._c13_desc = {"space_group": f"{number}:{choice}", "cell_lengths": [float(x) for x in cell.lengths], "cell_angles_deg": [float(np.degrees(x)) for x in cell.angles],
                   "orientation": orientation, "direct": np.round(c.unit_cell.direct, 6).tolist(), "elements": [str(e) for e in els], "frac": np.round(frac, 6).tolist()}
    return c


def load(name):
    from chmpy.crystal import Crystal
    from chmpy.tests import TEST_FILES
    with quiet():
        c = Crystal.load(str(TEST_FILES[name]))
    c._c13_desc = {"file": name}
    return c


# ----------------------------------------------------------------------------------------------------------------------
# oracle: supercell
# ----------------------------------------------------------------------------------------------------------------------
def check_supercell(c, fname, size):
    """Run-time contract of as_P1 / as_P1_supercell / to_translational_symmetry on one crystal.  Returns a list of problems."""
    problems = []
    with quiet():
        uc = c.unit_cell_atoms()
        fo, eo = np.array(uc["frac_pos"]), np.array(uc["element"])
        new = getattr(c, fname)() if fname == "as_P1" else getattr(c, fname)(tuple(size))
    size = np.array(size)
    if new.space_group.international_tables_number != 1:
        problems.append({"space_group": int(new.space_group.international_tables_number)})
    fn, en = np.array(new.asymmetric_unit.positions), np.array(new.asymmetric_unit.atomic_numbers)
    nvol = int(np.prod(size))
    if len(fn) != nvol * len(fo) or len(en) != len(fn):
        problems.append({"count": int(len(fn)), "expected": int(nvol * len(fo))})
    if not (np.allclose(new.unit_cell.lengths, size * np.array(c.unit_cell.lengths), rtol=RTOL) and np.allclose(new.unit_cell.angles, c.unit_cell.angles, rtol=0, atol=1e-9)):
        problems.append({"cell": [list(map(float, new.unit_cell.lengths)), list(map(float, new.unit_cell.angles))]})
    if not np.isclose(new.unit_cell.volume(), nvol * c.unit_cell.volume(), rtol=RTOL):
        problems.append({"volume": float(new.unit_cell.volume()), "expected": float(nvol * c.unit_cell.volume())})
    # coincidence modulo the lattice, in the coordinates of the original lattice
    g = fn * size
    hit = {}
    n_bad = 0
    first_bad = None
    for k in range(len(g)):
        d = g[k] - fo
        nint = np.round(d)
        ok = np.where((np.abs(d - nint).max(axis=1) < FTOL) & (eo == en[k]))[0]
        if len(ok) != 1:
            n_bad += 1
            if first_bad is None:
                first_bad = {"new_atom": int(k), "element": int(en[k]), "position_in_original_lattice": np.round(g[k], 6).tolist(), "coincides_with_old_atoms": int(len(ok))}
            continue
        key = (int(ok[0]),) + tuple(int(v) for v in np.mod(nint[ok[0]], size))
        hit[key] = hit.get(key, 0) + 1
    if n_bad:
        problems.append({"atoms_not_coinciding_with_exactly_one_old_atom_of_the_same_element": n_bad, "of": int(len(g)), "first": first_bad})
    else:
        want = len(fo) * nvol
        if len(hit) != want or any(v != 1 for v in hit.values()):
            problems.append({"bijection": "some (old atom, cell residue) is hit %s" % ("more than once" if any(v != 1 for v in hit.values()) else "never"),
                             "distinct_images": len(hit), "expected": want})
    with quiet():
        d0, d1 = c.density, new.density
    if not np.isclose(d0, d1, rtol=RTOL):
        problems.append({"density": float(d1), "original": float(d0)})
    return problems


def replay_supercell(fname, size, orientation):
    def replay(model):
        rng = np.random.default_rng(13)
        c = make_crystal(2, "", "triclinic", rng, orientation="rot345" if orientation == "rotated" else "standard", n_mol=2)
        if orientation == "rotated":
            from chmpy.crystal import Crystal, UnitCell
            c2 = Crystal(UnitCell(np.diag([5.0, 10.0, 7.0]) @ ROT345), c.space_group, c.asymmetric_unit)
            c2._c13_desc = dict(c._c13_desc, direct=c2.unit_cell.direct.tolist(), cell_lengths=[5, 10, 7], cell_angles_deg=[90, 90, 90])
            c = c2
        probs = check_supercell(c, fname, size)
        return {"native_inputs": {"crystal": c._c13_desc, "call": f"{fname}({'' if fname == 'as_P1' else tuple(size)})"}, "reproduced": bool(probs), "observed": probs[:3]}
    return replay


def replay_density(model):
    rng = np.random.default_rng(14)
    c = make_crystal(14, "", "monoclinic", rng, n_mol=2)
    from chmpy import Element
    with quiet():
        uc = c.unit_cell_atoms()
        want = sum(Element[int(x)].mass for x in uc["element"]) / abs(np.linalg.det(c.unit_cell.direct)) / 0.6022
        probs = [] if np.isclose(c.density, want, rtol=RTOL) else [{"density": float(c.density), "expected": float(want)}]
        probs += [p for p in check_supercell(c, "as_P1_supercell", (2, 1, 1)) if "density" in p]
    return {"native_inputs": {"crystal": c._c13_desc}, "reproduced": bool(probs), "observed": probs}


# ----------------------------------------------------------------------------------------------------------------------
# oracle: trigonal switch
# ----------------------------------------------------------------------------------------------------------------------
def expanded(c):
    with quiet():
        uc = c.unit_cell_atoms()
    return np.array(uc["cart_pos"]), np.array(uc["element"])


def primitive_lattice(c):
    """Rows spanning the full translation lattice of a crystal in one of the R groups (the rhombohedral primitive cell)."""
    Dm = np.array(c.unit_cell.direct)
    if c.space_group.choice == "H":
        cent = np.array([2 / 3, 1 / 3, 1 / 3]) @ Dm
        return np.array([Dm[0], Dm[1], cent])           # a, b and one centring vector generate the R lattice
    return Dm


def check_trigonal(c, target):
    """choose_trigonal_lattice(target) on a copy of c: same arrangement, counts by volume ratio, density, round trip."""
    problems = []
    c0 = copy.deepcopy(c)
    src = c0.space_group.choice
    P0, E0 = expanded(c0)
    cart_asym0 = c0.to_cartesian(c0.asymmetric_unit.positions)
    with quiet():
        d0 = c0.density
    c1 = copy.deepcopy(c0)
    for a_ in ("_unit_cell_atom_dict", "_uc_graph", "_unit_cell_molecules", "_symmetry_unique_molecules"):
        if hasattr(c1, a_):
            delattr(c1, a_)
    c1.choose_trigonal_lattice(target)
    if c1.space_group.choice != target or c1.space_group.international_tables_number != c0.space_group.international_tables_number:
        problems.append({"space_group": [int(c1.space_group.international_tables_number), c1.space_group.choice]})
    P1, E1 = expanded(c1)
    if not np.allclose(c1.to_cartesian(c1.asymmetric_unit.positions), cart_asym0, rtol=0, atol=1e-8):
        problems.append({"asymmetric_unit_moved_by": float(np.abs(c1.to_cartesian(c1.asymmetric_unit.positions) - cart_asym0).max())})
    v0, v1 = c0.unit_cell.volume(), c1.unit_cell.volume()
    ratio = {("H", "R"): 1 / 3, ("R", "H"): 3.0}.get((src, target), 1.0)
    if not np.isclose(v1, ratio * v0, rtol=RTOL):
        problems.append({"volume": float(v1), "expected": float(ratio * v0)})
    if not np.isclose(len(P1), ratio * len(P0), rtol=0, atol=0.1):
        problems.append({"atom_count": int(len(P1)), "expected": float(ratio * len(P0))})
    # same arrangement: modulo the full (primitive rhombohedral) lattice, computed from the ORIGINAL description
    Lp = primitive_lattice(c0)
    Li = np.linalg.inv(Lp)
    big, small = ((P0, E0), (P1, E1)) if len(P0) >= len(P1) else ((P1, E1), (P0, E0))
    mult = max(1, round(len(big[0]) / max(1, len(small[0]))))
    counts = np.zeros(len(small[0]), dtype=int)
    n_bad, first = 0, None
    for k in range(len(big[0])):
        d = (big[0][k] - small[0]) @ Li
        ok = np.where((np.abs(d - np.round(d)).max(axis=1) < FTOL) & (small[1] == big[1][k]))[0]
        if len(ok) != 1:
            n_bad += 1
            first = first or {"atom": int(k), "element": int(big[1][k]), "coincides_with": int(len(ok))}
        else:
            counts[ok[0]] += 1
    if n_bad or (counts != mult).any():
        problems.append({"atoms_not_matched_modulo_the_lattice": n_bad, "of": int(len(big[0])), "first": first, "images_per_atom": sorted(set(counts.tolist())), "expected_images": mult})
    # the new cell spans the same lattice
    T = np.array(c1.unit_cell.direct) @ Li
    if not (np.allclose(T, np.round(T), atol=1e-8) and np.isclose(abs(np.linalg.det(np.round(T))), {"H": 3, "R": 1}.get(target, 1))):
        problems.append({"new_cell_not_a_basis_of_the_lattice": np.round(T, 6).tolist()})
    with quiet():
        d1 = c1.density
    if not np.isclose(d0, d1, rtol=RTOL):
        problems.append({"density": float(d1), "original": float(d0)})
    # round trip
    c2 = copy.deepcopy(c1)
    c2.choose_trigonal_lattice(src)
    if not (np.allclose(c2.unit_cell.direct, c0.unit_cell.direct, rtol=0, atol=1e-9 * np.abs(c0.unit_cell.direct).max())
            and np.allclose(c2.asymmetric_unit.positions, c0.asymmetric_unit.positions, rtol=0, atol=1e-9) and c2.space_group.choice == src):
        problems.append({"round_trip": {"direct_error": float(np.abs(c2.unit_cell.direct - c0.unit_cell.direct).max()),
                                        "position_error": float(np.abs(c2.asymmetric_unit.positions - c0.asymmetric_unit.positions).max()), "choice": c2.space_group.choice}})
    return problems


def trigonal_crystal(number, choice, rng, n_mol=1):
    return make_crystal(number, choice, "hexagonal" if choice == "H" else "rhombohedral", rng, n_mol=n_mol)


def replay_trigonal(target_first="R"):
    def replay(model):
        rng = np.random.default_rng(15)
        out = []
        for number in (148, 161):
            src = "H" if target_first == "R" else "R"
            c = trigonal_crystal(number, src, rng)
            probs = check_trigonal(c, target_first)
            if probs:
                out.append({"crystal": c._c13_desc, "problems": probs[:3]})
        return {"native_inputs": [o["crystal"] for o in out] or {"groups": [148, 161], "switch_to": target_first}, "reproduced": bool(out), "observed": [o["problems"] for o in out][:2]}
    return replay


def replay_guard(model):
    rng = np.random.default_rng(16)
    c = make_crystal(14, "", "monoclinic", rng)
    try:
        c.choose_trigonal_lattice("R")
        bad = {"no ValueError for space group 14": True}
    except ValueError:
        bad = None
    c2 = trigonal_crystal(148, "H", rng)
    before = (c2.unit_cell.direct.copy(), c2.asymmetric_unit.positions.copy())
    c2.choose_trigonal_lattice("H")
    if not (np.array_equal(before[0], c2.unit_cell.direct) and np.array_equal(before[1], c2.asymmetric_unit.positions)):
        bad = {"same choice is not a no-op": True}
    return {"native_inputs": {"crystals": ["space group 14", "148:H -> H"]}, "reproduced": bad is not None, "observed": bad}


# ----------------------------------------------------------------------------------------------------------------------
# bounded stand-ins
# ----------------------------------------------------------------------------------------------------------------------
def bounded(ctx):
    thorough = ctx.tier == "thorough"
    rng = np.random.default_rng(ctx.seed + 13)
    all_sizes = list(itertools.product((1, 2, 3), repeat=3))
    fails, evals, distinct = {"standard": [], "vectors": [], "files": []}, {"standard": 0, "vectors": 0, "files": 0}, {"standard": set(), "vectors": set(), "files": set()}

    def run(group, c, fname, size, key):
        evals[group] += 1
        distinct[group].add((key, fname, tuple(size)))
        try:
            probs = check_supercell(c, fname, size)
        except Exception as e:  # noqa
            probs = [{"exception": repr(e)[:300]}]
        if probs and len(fails[group]) < 3:
            fails[group].append({"input": {"crystal": c._c13_desc, "call": f"{fname}({'' if fname == 'as_P1' else tuple(size)})"}, "observed": probs[:3],
                                 "clause": "same arrangement: every new atom coincides with exactly one old atom of the same element modulo the original lattice, every (old atom, cell) exactly once, "
                                           "count/volume scale by u v w, cell = (u a, v b, w c; same angles), density unchanged", "key": "supercell_" + group})

    def sizes_for(n_extra):
        base = [(1, 1, 1), (2, 1, 1), (1, 2, 3)]
        if thorough:
            return all_sizes
        extra = [all_sizes[int(i)] for i in rng.choice(len(all_sizes), size=n_extra, replace=False)]
        return base + [s for s in extra if s not in base]
    # files
    ac = load("acetic_acid.cif")
    for size in sizes_for(2):
        for fname in ("as_P1_supercell", "to_translational_symmetry"):
            run("files", ac, fname, size, "acetic_acid")
    run("files", ac, "as_P1", (1, 1, 1), "acetic_acid")
    r3 = load("r3c_example.cif")
    run("files", r3, "as_P1", (1, 1, 1), "r3c:H")
    run("files", r3, "as_P1_supercell", (2, 1, 1), "r3c:H")
    if thorough:
        run("files", r3, "to_translational_symmetry", (1, 2, 2), "r3c:H")
    # generated crystals, cells in standard orientation and the same kind of crystals with the cell given by rotated vectors
    reps = 2 if thorough else 1
    for number, choice, kind in SETTINGS:
        for rep in range(reps):
            for group, orient in (("standard", "standard"), ("vectors", "rotated")):
                c = make_crystal(number, choice, kind, rng, orientation=orient, n_mol=1 + (rep + number) % 2)
                if c is None:
                    continue
                for size in sizes_for(1):
                    fname = ("as_P1_supercell", "to_translational_symmetry")[int(rng.integers(0, 2))] if not thorough else "as_P1_supercell"
                    run(group, c, fname, size, (number, choice, rep))
                run(group, c, "as_P1", (1, 1, 1), (number, choice, rep))
    # crystals with atoms on special positions (images merged, summed site occupation above one): density and contents still those of the distinct atoms in the cell
    from chmpy.crystal import Crystal as _Cr, UnitCell as _UC, SpaceGroup as _SG, AsymmetricUnit as _AU
    from chmpy import Element as _El
    r_ = np.pi / 2
    specials = [("calcite R-3c:H", _UC.from_lengths_and_angles([4.99, 4.99, 17.06], [r_, r_, 2 * np.pi / 3]), _SG(167, choice="H"), ["Ca", "C", "O"], [[0, 0, 0], [0, 0, 0.25], [0.257, 0, 0.25]]),
                ("rock salt Fm-3m", _UC.cubic(5.64), _SG(225), ["Na", "Cl"], [[0, 0, 0], [0.5, 0.5, 0.5]]),
                ("CO2 on the inversion centre of P-1", _UC.from_lengths_and_angles([5.1, 5.7, 6.3], [np.radians(84), np.radians(97), np.radians(105)]), _SG(2), ["C", "O"], [[0.5, 0.5, 0.5], [0.5, 0.62, 0.66]])]
    for name_, cell_, sg_, els_, pos_ in specials:
        try:
            c = _Cr(cell_, sg_, _AU([_El[e_] for e_ in els_], np.array(pos_, dtype=float)))
            c._c13_desc = {"crystal": name_, "sites": pos_, "elements": els_}
        except Exception as e:  # noqa
            fails["standard"].append({"input": {"crystal": name_}, "observed": {"exception": repr(e)[:200]}, "clause": "the crystal can be constructed", "key": "supercell_standard"})
            continue
        run("standard", c, "as_P1", (1, 1, 1), ("special", name_))
        run("standard", c, "as_P1_supercell", (2, 1, 1), ("special", name_))
        evals["standard"] += 1
        with quiet():
            want_ = sum(_El[int(x)].mass for x in c.unit_cell_atoms()["element"]) / abs(np.linalg.det(c.unit_cell.direct)) / 0.6022
            got_ = c.density
        if not np.isclose(got_, want_, rtol=1e-3) and len(fails["standard"]) < 3:
            fails["standard"].append({"input": {"crystal": c._c13_desc}, "observed": {"density": float(got_), "mass of the distinct atoms in the cell / volume": float(want_)},
                                      "clause": "density is the mass of the distinct atoms in the unit cell over the cell volume (an atom on a special position counts once)", "key": "supercell_standard"})
    # crystals whose cell is in a non-standard orientation because the trigonal setting was switched first
    for number in (148, 161) if not thorough else R_GROUPS:
        for src, tgt in (("H", "R"), ("R", "H")):
            c = trigonal_crystal(number, src, rng)
            if c is None:
                continue
            c.choose_trigonal_lattice(tgt)
            c._c13_desc = dict(c._c13_desc, then=f"choose_trigonal_lattice('{tgt}')", direct=np.round(c.unit_cell.direct, 6).tolist())
            for size in [(1, 1, 1), (2, 1, 1)] + ([(1, 2, 3)] if thorough else []):
                run("vectors", c, "as_P1_supercell", size, (number, src, tgt))
    ctx.add_bounded("crystal.Crystal.as_P1_supercell/bounded/files", "acetic_acid.cif and r3c_example.cif; as_P1, as_P1_supercell, to_translational_symmetry; sizes " +
                    ("all 27 (acetic acid)" if thorough else "(1,1,1), (2,1,1), (1,2,3) + 2 seeded"), evals["files"], len(distinct["files"]), fails["files"], rule="distinct (structure, function, size)")
    ctx.add_bounded("crystal.Crystal.as_P1_supercell/bounded/generated_standard_cells", f"{len(SETTINGS)} settings (triclinic ... cubic, both trigonal axes) x {reps} seeded molecular crystals "
                    "(1-2 rigid molecules CO/H2O/HCN at general positions), cell from lengths and angles; sizes " + ("all 27" if thorough else "(1,1,1), (2,1,1), (1,2,3) + 1 seeded"),
                    evals["standard"], len(distinct["standard"]), fails["standard"], rule="distinct (crystal, function, size)")
    ctx.add_bounded("crystal.Crystal.as_P1_supercell/bounded/cells_given_by_vectors", "the same family of crystals with the cell specified as UnitCell(vectors) in a seeded rigid rotation of the "
                    "standard orientation, plus trigonal crystals after choose_trigonal_lattice", evals["vectors"], len(distinct["vectors"]), fails["vectors"],
                    rule="distinct (crystal, function, size)")
    # ---- trigonal switch
    tf, te, td = [], 0, set()
    reps_t = 3 if thorough else 1
    for number in R_GROUPS:
        for rep in range(reps_t):
            for src, tgt in (("H", "R"), ("R", "H")):
                c = trigonal_crystal(number, src, rng, n_mol=1 + rep % 2)
                if c is None:
                    continue
                te += 1
                td.add((number, src, rep))
                try:
                    probs = check_trigonal(c, tgt)
                except Exception as e:  # noqa
                    probs = [{"exception": repr(e)[:300]}]
                if probs and len(tf) < 3:
                    tf.append({"input": {"crystal": c._c13_desc, "call": f"choose_trigonal_lattice('{tgt}')"}, "observed": probs[:3],
                               "clause": "trigonal switch: asymmetric unit keeps its Cartesian positions, expanded unit cells coincide atom by atom modulo the lattice (3 hexagonal-cell atoms "
                                         "per rhombohedral-cell atom), volume/count ratio 3, density unchanged, new cell is a basis of the same lattice, round trip restores cell and coordinates",
                               "key": "trigonal"})
    # metric coincidences: the setting is what the space group says, not what the cell happens to look like -- a rhombohedral cell with alpha = 90 degrees exactly (it looks
    # cubic) and the hexagonal cell of the same lattice (c/a = sqrt(3/2))
    from chmpy.crystal import Crystal as _Cr, UnitCell as _UC, SpaceGroup as _SG, AsymmetricUnit as _AU
    from chmpy import Element as _El
    for number in (146, 148):
        for src, tgt, cell_ in (("R", "H", _UC.from_lengths_and_angles([6.0, 6.0, 6.0], [np.pi / 2] * 3)),
                                ("H", "R", _UC.from_lengths_and_angles([6.0 * np.sqrt(2.0), 6.0 * np.sqrt(2.0), 6.0 * np.sqrt(3.0)], [np.pi / 2, np.pi / 2, 2 * np.pi / 3]))):
            te += 1
            td.add((number, src, "alpha=90"))
            try:
                c = _Cr(cell_, _SG(number, choice=src), _AU([_El["C"], _El["O"]], np.array([[0.11, 0.23, 0.37], [0.19, 0.31, 0.42]])))
                c._c13_desc = {"setting": f"{number}:{src}", "cell": "rhombohedral a = 6, alpha = 90 degrees" if src == "R" else "hexagonal a = 6 sqrt 2, c = 6 sqrt 3 (its rhombohedral cell has alpha = 90)",
                               "sites": [[0.11, 0.23, 0.37], [0.19, 0.31, 0.42]]}
                probs = check_trigonal(c, tgt)
            except Exception as e:  # noqa
                probs = [{"exception": repr(e)[:300]}]
            if probs and len(tf) < 3:
                tf.append({"input": {"crystal": getattr(c, "_c13_desc", None), "call": f"choose_trigonal_lattice('{tgt}')"}, "observed": probs[:3],
                           "clause": "trigonal switch of a crystal whose rhombohedral cell has alpha = 90 degrees (the direction of the switch follows the space-group setting, not the cell shape)", "key": "trigonal"})
    for tgt in ("R",):
        te += 1
        td.add(("r3c_example", tgt))
        try:
            probs = check_trigonal(r3, tgt)
        except Exception as e:  # noqa
            probs = [{"exception": repr(e)[:300]}]
        if probs and len(tf) < 3:
            tf.append({"input": {"crystal": r3._c13_desc, "call": f"choose_trigonal_lattice('{tgt}')"}, "observed": probs[:3], "clause": "trigonal switch on r3c_example.cif", "key": "trigonal"})
    # ---- trigonal switch with atoms on special positions that lie on faces / edges / corners of the cell (images coincide across the periodic boundary)
    sf, se, sd = [], 0, set()
    from chmpy.crystal import Crystal, UnitCell, SpaceGroup, AsymmetricUnit
    from chmpy import Element
    sites_H = ([0.5, 0.0, 0.0], [0.0, 0.0, 0.0], [0.0, 0.0, 0.5], [0.5, 0.0, 0.5], [1 / 3, 2 / 3, 1 / 6], [0.5, 0.5, 0.0])
    for number in R_GROUPS:
        for rep in range(4 if thorough else 2):
            a_, c_ = float(np.round(rng.uniform(5, 15), 3)), float(np.round(rng.uniform(5, 20), 3))
            cell = UnitCell.from_lengths_and_angles([a_, a_, c_], [np.pi / 2, np.pi / 2, 2 * np.pi / 3])
            for site in sites_H:
                cr = Crystal(cell, SpaceGroup(number, choice="H"), AsymmetricUnit([Element["Xe"], Element["O"]], np.array([site, [0.1231, 0.2717, 0.0911]])))
                cr._c13_desc = {"space_group": f"{number}:H", "a": a_, "c": c_, "sites": [site, [0.1231, 0.2717, 0.0911]], "elements": ["Xe", "O"]}
                se += 1
                sd.add((number, rep, tuple(site)))
                try:
                    probs = check_trigonal(cr, "R")
                except Exception as e:  # noqa
                    probs = [{"exception": repr(e)[:300]}]
                if probs and len(sf) < 3:
                    sf.append({"input": {"crystal": cr._c13_desc, "call": "choose_trigonal_lattice('R')"}, "observed": probs[:3], "key": "trigonal_special",
                               "clause": "trigonal switch with an atom on a special position on a face, edge or corner of the cell: counts scale by 3, expanded cells coincide atom by atom "
                                         "(images that coincide across the periodic boundary are one atom)"})
    ctx.add_bounded("crystal.Crystal.choose_trigonal_lattice/bounded/special_positions", "groups 146 ... 167 in the hexagonal setting, seeded a and c (3 decimals), one Xe at (1/2,0,0), (0,0,0), (0,0,1/2), "
                    "(1/2,0,1/2), (1/3,2/3,1/6) or (1/2,1/2,0) plus one O at a general position; switched to rhombohedral axes", se, len(sd), sf, rule="distinct (group, cell, site)")
    ctx.add_bounded("crystal.Crystal.choose_trigonal_lattice/bounded/seven_groups", f"groups 146, 148, 155, 160, 161, 166, 167 x (H->R, R->H) x {reps_t} seeded (a, c / a, alpha, molecules at general "
                    "positions) + r3c_example.cif; expanded unit cells compared atom by atom", te, len(td), tf, rule="distinct (group, source setting, repetition)")
