"""Sample calls of the public functions each property is observed at, for the generic run-time contracts of common_forms (bounded stand-ins).
Every factory returns (callable, args, kwargs); objects whose state matters are passed as explicit arguments so that `arguments unchanged' covers them."""
import numpy as np


def _rng(seed, k):
    return np.random.default_rng(1000 * (seed + 1) + k)


def _crystal(seed, number=14, choice="", kinds=("water", "co2")):
    from .gen_crystals import molecular_crystal, MOLS
    kinds = tuple(k for k in kinds if k in MOLS) or tuple(list(MOLS)[:2])
    for t in range(5):
        c, _ = molecular_crystal(_rng(seed, 7 + t), number, choice, list(kinds))
        if c is not None:
            return c
    raise RuntimeError("no crystal generated")


def _molecule(seed, n=7):
    from chmpy import Molecule
    from .c09_native import random_cluster
    Z, P = random_cluster(_rng(seed, 3), n)
    return Molecule.from_arrays(np.asarray(Z), np.asarray(P, dtype=float))


def cases(prop, seed):
    out = []
    add = lambda label, make: out.append((label, make))
    rng = _rng(seed, 1)
    if prop in ("C01", "C11"):
        from chmpy.crystal import SpaceGroup
        from chmpy.crystal.symmetry_operation import SymmetryOperation
        frac = np.round(rng.uniform(-1, 2, (5, 3)) * 16) / 16
        sg = SpaceGroup(14)
        add("SpaceGroup(14).apply_all_symops(coords)", lambda: (lambda s, x: s.apply_all_symops(x), (sg, frac.copy()), {}))
        op = sg.symmetry_operations[1]
        add("SymmetryOperation.apply(coords)", lambda: (lambda o, x: o.apply(x), (op, frac.copy()), {}))
        add("SymmetryOperation.apply((N,4) coords)", lambda: (lambda o, x: o.apply(x), (op, np.hstack([frac, np.ones((5, 1))])), {}))
        add("SymmetryOperation.seitz_matrix", lambda: (lambda o: o.seitz_matrix, (op,), {}))
        add("another SymmetryOperation.seitz_matrix", lambda: (lambda o: o.seitz_matrix, (sg.symmetry_operations[3],), {}))
        add("SymmetryOperation.inverted() and sum with a translation", lambda: (lambda o, t: (str(o.inverted()), str(o + t), (o + t).integer_code), (op, np.array([0.5, 0.0, 0.5])), {}))
        rot = np.array([[0.0, -1, 0], [1, -1, 0], [0, 0, 1]])
        tr = np.array([0.0, 0.5, 0.25])
        add("SymmetryOperation(rotation, translation): codes and text",
            lambda: (lambda r, t: (lambda o: (o.integer_code, str(o), o.seitz_matrix))(SymmetryOperation(r, t)), (rot.copy(), tr.copy()), {}))
        add("SymmetryOperation(rotation, integer translation)",
            lambda: (lambda r, t: (lambda o: (o.integer_code, str(o), o.seitz_matrix))(SymmetryOperation(r, t)), (rot.copy(), np.array([1.0, 0.0, 2.0])), {}))
    if prop in ("C01", "C03", "C04", "C10", "C13"):
        c = _crystal(seed)
        if prop == "C01":
            add("Crystal.unit_cell_atoms()", lambda: (lambda x: {k: v for k, v in x.unit_cell_atoms().items()}, (_crystal(seed),), {}))
            add("Crystal.unit_cell_atoms() of a P2_12_12_1 crystal", lambda: (lambda x: {k: v for k, v in x.unit_cell_atoms().items()}, (_crystal(seed, 19, kinds=("co2",)),), {}))
        if prop == "C03":
            add("Crystal.atoms_in_radius(4.1)", lambda: (lambda x, r: x.atoms_in_radius(r), (_crystal(seed), 4.1), {}))
            add("Crystal.atomic_surroundings(3.7)", lambda: (lambda x, r: x.atomic_surroundings(radius=r), (_crystal(seed), 3.7), {}))
            add("Crystal.atom_group_surroundings([0,1], 4.0)", lambda: (lambda x, a, r: x.atom_group_surroundings(a, radius=r), (_crystal(seed), [0, 1], 4.0), {}))
            add("Crystal.atom_group_surroundings(array([0,1]), 4.0)", lambda: (lambda x, a, r: x.atom_group_surroundings(a, radius=r), (_crystal(seed), np.array([0, 1]), 4.0), {}))
            add("Crystal.slab(bounds)", lambda: (lambda x, b: x.slab(bounds=b), (_crystal(seed), ((-1, -1, 0), (1, 0, 1))), {}))
            add("cartesian_product(a, b, c)", lambda: (__import__("chmpy.util.num", fromlist=["x"]).cartesian_product, (np.arange(-1.0, 2.0), np.arange(0.0, 2.0), np.arange(2.0, 4.0)), {}))
        if prop == "C04":
            add("Crystal.unit_cell_molecules()", lambda: (lambda x: [(m.positions, m.atomic_numbers) for m in x.unit_cell_molecules()], (_crystal(seed),), {}))
            add("Crystal.symmetry_unique_molecules()", lambda: (lambda x: [(m.positions, m.atomic_numbers) for m in x.symmetry_unique_molecules()], (_crystal(seed),), {}))
            add("Crystal.unit_cell_molecules() of a P-1 crystal", lambda: (lambda x: [(m.positions, m.atomic_numbers) for m in x.unit_cell_molecules()], (_crystal(seed, 2, kinds=("co2", "water")),), {}))
            add("Crystal.unit_cell_connectivity()", lambda: (lambda x: x.unit_cell_connectivity()[0], (_crystal(seed),), {}))
        if prop == "C10":
            add("Crystal.to_cif_string()", lambda: (lambda x: x.to_cif_string(), (_crystal(seed),), {}))
            add("Crystal.to_shelx_string()", lambda: (lambda x: x.to_shelx_string(), (_crystal(seed),), {}))
            add("Crystal.to_poscar_string()", lambda: (lambda x: x.to_poscar_string(), (_crystal(seed),), {}))
            from chmpy.crystal import Crystal
            s = c.to_cif_string()
            add("Crystal.from_cif_string(text)", lambda: (lambda t: Crystal.from_cif_string(t), (s,), {}))
            s2 = c.to_shelx_string()
            add("Crystal.from_shelx_string(text)", lambda: (lambda t: Crystal.from_shelx_string(t), (s2,), {}))
        if prop == "C13":
            add("Crystal.as_P1()", lambda: (lambda x: x.as_P1(), (_crystal(seed),), {}))
            add("Crystal.as_P1_supercell((2,1,1))", lambda: (lambda x, n: x.as_P1_supercell(n), (_crystal(seed), (2, 1, 1)), {}))
            add("Crystal.as_P1_supercell(array)", lambda: (lambda x, n: x.as_P1_supercell(n), (_crystal(seed), np.array([1, 2, 1])), {}))
            add("Crystal.density", lambda: (lambda x: x.density, (_crystal(seed),), {}))
    if prop == "C02":
        from chmpy.crystal import SpaceGroup
        sg = SpaceGroup(62)
        add("SpaceGroup.from_symmetry_operations(list)", lambda: (lambda ops: (lambda g: (g.international_tables_number, g.symbol, g.choice))(SpaceGroup.from_symmetry_operations(ops)), (list(sg.symmetry_operations),), {}))
        add("SpaceGroup(62).reduced_symmetry_operations()", lambda: (lambda g: [str(o) for o in g.reduced_symmetry_operations()], (SpaceGroup(62),), {}))
        add("SpaceGroup(62).latt", lambda: (lambda g: g.latt, (SpaceGroup(62),), {}))
    if prop == "C05":
        from chmpy.interpolate.density import PromoleculeDensity, StockholderWeight
        Z = np.array([8, 1, 1, 6])
        P = np.round(rng.uniform(-2, 2, (4, 3)) * 64) / 64
        pts = np.round(rng.uniform(-4, 4, (40, 3)) * 64) / 64
        add("PromoleculeDensity((numbers, positions)).rho(points)", lambda: (lambda z, p, q: PromoleculeDensity((z, p)).rho(q), (Z.copy(), P.copy(), pts.copy()), {}))
        add("StockholderWeight.from_arrays(...).weights(points)", lambda: (lambda z, p, z2, p2, q: StockholderWeight.from_arrays(z, p, z2, p2).weights(q), (Z[:3].copy(), P[:3].copy(), Z[3:].copy(), P[3:].copy() + 3.0, pts.copy()), {}))
        add("PromoleculeDensity((other numbers, positions)).rho(points)", lambda: (lambda z, p, q: PromoleculeDensity((z, p)).rho(q), (np.array([17, 7]), P[:2].copy(), pts.copy()), {}))
        add("StockholderWeight.from_arrays(..., background=0.0371).weights(points)", lambda: (lambda z, p, z2, p2, q: StockholderWeight.from_arrays(z, p, z2, p2, background=0.0371).weights(q), (Z[:3].copy(), P[:3].copy(), Z[3:].copy(), P[3:].copy() + 3.0, pts.copy()), {}))
        add("PromoleculeDensity.bb()", lambda: (lambda z, p: PromoleculeDensity((z, p)).bb(), (Z.copy(), P.copy()), {}))
    if prop == "C06":
        from chmpy.mc import marching_cubes
        g = np.linspace(-1, 1, 12)
        X, Y, Z3 = np.meshgrid(g, g * 1.1, g * 0.9, indexing="ij")
        vol = np.round((X ** 2 + Y ** 2 + Z3 ** 2) * 256) / 256
        add("marching_cubes(volume, level)", lambda: (lambda v, lv: marching_cubes(v, lv)[:2], (vol.copy(), 0.5), {}))
        add("marching_cubes(volume, level, spacing)", lambda: (lambda v, lv, sp: marching_cubes(v, lv, spacing=sp)[:2], (vol.copy(), 0.5, (0.5, 0.25, 1.0)), {}))
        add("marching_cubes(volume, level, gradient_direction='ascent')", lambda: (lambda v, lv: marching_cubes(v, lv, gradient_direction="ascent")[:2], (vol.copy(), 0.5), {}))
        from chmpy.surface import promolecule_density_isosurface
        from chmpy.interpolate.density import PromoleculeDensity
        Zs = np.array([8, 1, 1])
        Ps = np.array([[0.0, 0, 0.125], [0.75, 0.5, -0.375], [-0.75, 0.5, -0.375]])
        add("promolecule_density_isosurface(numbers, positions)", lambda: (lambda z, p: (lambda s: (s.vertices, s.faces))(promolecule_density_isosurface(PromoleculeDensity((z, p)), isovalue=0.002, sep=0.4, props=False)), (Zs.copy(), Ps.copy()), {}))
    if prop in ("C07", "C08"):
        from chmpy.shape.sht import SHT
        sht = SHT(6)
        vals = rng.normal(size=sht.grid[0].shape if hasattr(sht, "grid") and hasattr(sht.grid[0], "shape") else (sht.ntheta, sht.nphi))
        co = sht.analysis(vals)
        cc = sht.analysis(vals + 1j * rng.normal(size=vals.shape))
        if prop == "C07":
            add("SHT(6).analysis(real grid values)", lambda: (lambda s, v: s.analysis(v), (SHT(6), vals.copy()), {}))
            add("SHT(6).analysis(complex grid values)", lambda: (lambda s, v: s.analysis(v), (SHT(6), vals + 1j * vals[::-1]), {}))
            v3 = rng.normal(size=(SHT(3).ntheta, SHT(3).nphi))
            add("SHT(3).analysis(real grid values)", lambda: (lambda s, v: s.analysis(v), (SHT(3), v3.copy()), {}))
            add("SHT(6).synthesis(coefficients)", lambda: (lambda s, c: s.synthesis(c), (SHT(6), co.copy()), {}))
            add("SHT(6).synthesis(complex-function coefficients)", lambda: (lambda s, c: s.synthesis(c), (SHT(6), cc.copy()), {}))
            add("SHT(6).complete_coefficients(c)", lambda: (lambda s, c: s.complete_coefficients(c), (SHT(6), co.copy()), {}))
            th = float(np.round(rng.uniform(0.1, 3.0) * 64) / 64)
            ph = float(np.round(rng.uniform(0, 6.2) * 64) / 64)
            add("SHT(6).evaluate_at_points(c, theta, phi)", lambda: (lambda s, c, t, p: s.evaluate_at_points(c, t, p), (SHT(6), co.copy(), th, ph), {}))
            add("SHT(6).evaluate_at_points(complex c, theta, phi)", lambda: (lambda s, c, t, p: s.evaluate_at_points(c, t, p), (SHT(6), cc.copy(), th, ph), {}))
            add("SHT(6).analysis_pure_python(values)", lambda: (lambda s, v: s.analysis_pure_python(v), (SHT(6), vals.copy()), {}))
            add("SHT(6).synthesis_pure_python(c)", lambda: (lambda s, c: s.synthesis_pure_python(c), (SHT(6), co.copy()), {}))
        else:
            from chmpy.shape.shape_descriptors import make_invariants, make_N_invariants
            full = sht.complete_coefficients(co) if co.shape[0] != 49 else co
            add("make_N_invariants(coefficients)", lambda: (make_N_invariants, (full.copy(),), {}))
            add("make_invariants(6, coefficients, 'NP')", lambda: (make_invariants, (6, full.copy(), "NP"), {}))
            add("SHT(6).power_spectrum(c)", lambda: (lambda s, c: s.power_spectrum(c), (SHT(6), co.copy()), {}))
            add("SHT(6).power_spectrum(full c)", lambda: (lambda s, c: s.power_spectrum(c), (SHT(6), cc.copy()), {}))
    if prop == "C09":
        from chmpy.shape.sht import SHT
        from chmpy.shape.shape_descriptors import promolecule_density_descriptor, stockholder_weight_descriptor
        Z = np.array([8, 1, 1])
        P = np.array([[0.0, 0, 0.125], [0.75, 0.5, -0.375], [-0.75, 0.5, -0.375]])
        Ze = np.array([8, 1, 1])
        Pe = P + np.array([0.0, 0.0, 3.0])
        add("promolecule_density_descriptor(sht, numbers, positions)", lambda: (lambda z, p: promolecule_density_descriptor(SHT(4), z, p), (Z.copy(), P.copy()), {}))
        add("stockholder_weight_descriptor(sht, n_i, p_i, n_e, p_e)", lambda: (lambda z, p, z2, p2: stockholder_weight_descriptor(SHT(4), z, p, z2, p2), (Z.copy(), P.copy(), Ze.copy(), Pe.copy()), {}))
        add("Molecule.shape_descriptors(l_max=4)", lambda: (lambda m: m.shape_descriptors(l_max=4), (_molecule(seed, 5),), {}))
    if prop == "C12":
        from chmpy.crystal.unit_cell import UnitCell
        V = np.array([[5.0, 0, 0], [-1.25, 6.5, 0], [0.5, -0.75, 7.25]])
        X = np.round(rng.uniform(-1, 2, (6, 3)) * 32) / 32
        add("UnitCell(vectors): parameters and matrices", lambda: (lambda v: (lambda u: (u.lengths, u.angles, u.direct, u.inverse, u.volume(), u.reciprocal_lattice))(UnitCell(v)), (V.copy(),), {}))
        add("UnitCell.to_cartesian(coords)", lambda: (lambda u, x: u.to_cartesian(x), (UnitCell(V.copy()), X.copy()), {}))
        add("UnitCell.to_cartesian(coords) of a cubic cell", lambda: (lambda u, x: u.to_cartesian(x), (UnitCell.cubic(4.5), X.copy()), {}))
        add("UnitCell.to_fractional(coords)", lambda: (lambda u, x: u.to_fractional(x), (UnitCell(V.copy()), X.copy()), {}))
        add("UnitCell.from_lengths_and_angles(lengths, angles)", lambda: (lambda le, an: (lambda u: (u.direct, u.inverse, u.volume()))(UnitCell.from_lengths_and_angles(le, an)), (np.array([5.0, 6.0, 7.0]), np.array([1.5, 1.75, 1.25])), {}))
        add("UnitCell.from_lengths_and_angles(lengths, degrees, unit='degrees')", lambda: (lambda le, an: (lambda u: (u.direct, u.inverse, u.volume()))(UnitCell.from_lengths_and_angles(le, an, unit="degrees")), (np.array([5.0, 6.0, 7.0]), np.array([90.0, 100.0, 90.0])), {}))
    if prop == "C15":
        from chmpy.fmt.cif import Cif, parse_value
        data = {"blk": {"_cell_length_a": 5.25, "_name": "a b", "_atom_site_label": ["C1", "O 2"], "_atom_site_fract_x": [0.25, 0.5], "_n": 3}}
        add("Cif(data).to_string()", lambda: (lambda d: Cif(d).to_string(), ({k: {a: (list(b) if isinstance(b, list) else b) for a, b in v.items()} for k, v in data.items()},), {}))
        txt = Cif(data).to_string()
        add("Cif.from_string(text)", lambda: (lambda t: Cif.from_string(t).data, (txt,), {}))
        add("parse_value('1.25(3)')", lambda: (parse_value, ("1.25(3)",), {}))
    if prop == "C16":
        from chmpy import Molecule
        Z = np.array([8, 1, 1, 6])
        P = np.round(rng.uniform(-2, 2, (4, 3)) * 64) / 64
        add("Molecule.from_arrays(numbers, positions).to_xyz_string()", lambda: (lambda z, p: Molecule.from_arrays(z, p).to_xyz_string(), (Z.copy(), P.copy()), {}))
        add("Molecule.from_arrays(numbers, positions).to_sdf_string()", lambda: (lambda z, p: Molecule.from_arrays(z, p).to_sdf_string(), (Z.copy(), P.copy()), {}))
        t = Molecule.from_arrays(Z, P).to_xyz_string()
        add("Molecule.from_xyz_string(text)", lambda: (lambda s: (lambda m: (m.positions, m.atomic_numbers))(Molecule.from_xyz_string(s)), (t,), {}))
        add("Molecule.to_xyz_string()", lambda: (lambda m: m.to_xyz_string(), (_molecule(seed),), {}))
    if prop == "C17":
        from chmpy.core.element import Element, cov_radii, vdw_radii, chemical_formula, element_names, element_symbols
        Z = np.array([1, 6, 8, 17, 53, 103])
        for f in (cov_radii, vdw_radii, element_names, element_symbols):
            add(f"{f.__name__}(numbers)", lambda f=f: (f, (Z.copy(),), {}))
        add("chemical_formula(elements)", lambda: (lambda e: chemical_formula(e), ([Element[x] for x in ("H", "C", "H", "O", "Cl", "H")],), {}))
        add("chemical_formula(elements, subscript=True)", lambda: (lambda e: chemical_formula(e, subscript=True), ([Element[x] for x in ("H", "C", "H", "O")],), {}))
    if prop == "C18":
        from chmpy.util.num import kabsch_rotation_matrix, reorient_points, rmsd_points
        A = np.round(rng.normal(size=(6, 3)) * 32) / 32
        B = np.round(rng.normal(size=(6, 3)) * 32) / 32
        add("kabsch_rotation_matrix(A, B)", lambda: (kabsch_rotation_matrix, (A.copy(), B.copy()), {}))
        add("reorient_points(A, B)", lambda: (reorient_points, (A.copy(), B.copy()), {}))
        add("reorient_points(A, B, method='kabsch')", lambda: (reorient_points, (A.copy(), B.copy()), {"method": "kabsch"}))
        add("rmsd_points(A, B)", lambda: (rmsd_points, (A.copy(), B.copy()), {}))
        add("rmsd_points(A, B, reorient=None)", lambda: (rmsd_points, (A.copy(), B.copy()), {"reorient": None}))
    if prop == "C19":
        from chmpy.crystal.wulff import WulffConstruction
        N = np.array([[1.0, 0, 0], [-1, 0, 0], [0, 1, 0], [0, -1, 0], [0, 0, 1], [0, 0, -1], [1, 1, 1], [-1, -1, -1], [1, -1, 0.5]])
        E = np.array([1.0, 1.0, 1.25, 1.25, 1.5, 1.5, 2.0, 2.0, 1.75])
        add("WulffConstruction(normals, energies): vertices and facets",
            lambda: (lambda n, e: (lambda w: (w.wulff_vertices, [list(f) for f in w.wulff_facets]))(WulffConstruction(n, e)), (N.copy(), E.copy()), {}))
    if prop == "C20":
        from chmpy.sampling import quasirandom, quasirandom_sobol, quasirandom_kgf
        add("quasirandom(64, 3, method='sobol')", lambda: (lambda n, d: quasirandom(n, d, method="sobol"), (64, 3), {}))
        add("quasirandom(64, 3, method='kgf')", lambda: (lambda n, d: quasirandom(n, d, method="kgf"), (64, 3), {}))
        add("quasirandom_sobol(3, 17)", lambda: (quasirandom_sobol, (3, 17), {}))
        add("quasirandom_kgf(3, 17)", lambda: (quasirandom_kgf, (3, 17), {}))
    return out
