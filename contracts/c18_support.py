"""Helpers for contracts/C18.py: (1) exact polynomial-matrix arithmetic and explicitly constructed algebraic certificates
(checked with pyvc.cert.Poly arithmetic, nothing trusted but that arithmetic), (2) the native run-time contract (bounded
stand-in) for the alignment routines of chmpy.util.num and Dimer.calculate_transform."""
from fractions import Fraction

import numpy as np
import z3

from pyvc.cert import Poly, z3_to_poly
from pyvc.values import z

# ======================================================================================================================
# 1. polynomial matrices
# ======================================================================================================================
ZERO, ONE = Poly(), Poly.const(1)


def P(t):
    """z3 term / Python number -> Poly."""
    if isinstance(t, Poly):
        return t
    return z3_to_poly(z3.simplify(z(t)) if not z3.is_expr(t) else t)


def pmat(cells):
    return [[P(x) for x in row] for row in cells]


def peye(n=3):
    return [[ONE if i == j else ZERO for j in range(n)] for i in range(n)]


def pdiag(vals):
    return [[P(vals[i]) if i == j else ZERO for j in range(len(vals))] for i in range(len(vals))]


def pT(A):
    return [list(r) for r in zip(*A)]


def psum(xs):
    acc = ZERO
    for x in xs:
        acc = acc + x
    return acc


def pmul(A, B):
    return [[psum(A[i][k] * B[k][j] for k in range(len(B))) for j in range(len(B[0]))] for i in range(len(A))]


def padd(A, B):
    return [[A[i][j] + B[i][j] for j in range(len(A[0]))] for i in range(len(A))]


def psub(A, B):
    return [[A[i][j] - B[i][j] for j in range(len(A[0]))] for i in range(len(A))]


def ptrace(A):
    return psum(A[i][i] for i in range(len(A)))


def pdet3(m):
    (a, b, c), (d, e, f), (g, h, i) = m
    return a * (e * i - f * h) - b * (d * i - f * g) + c * (d * h - e * g)


def pcof3(m):
    """cofactor matrix C with C[r][c] = (-1)^(r+c) * minor(r, c);  adj(m) = C^T and adj(m).m = det(m).1 identically."""
    C = [[None] * 3 for _ in range(3)]
    for r in range(3):
        for c in range(3):
            rows = [x for x in range(3) if x != r]
            cols = [x for x in range(3) if x != c]
            mn = m[rows[0]][cols[0]] * m[rows[1]][cols[1]] - m[rows[0]][cols[1]] * m[rows[1]][cols[0]]
            C[r][c] = mn if (r + c) % 2 == 0 else -mn
    return C


def fact_poly(f):
    """the hypothesis `lhs == rhs` as the polynomial lhs - rhs (which the hypothesis says is 0)."""
    assert z3.is_eq(f), f
    return P(f.arg(0)) - P(f.arg(1))


def sym_hyp_matrix(facts):
    """facts: the 6 equations (i <= j, row-major) of a symmetric 3x3 matrix equation -> 3x3 matrix of hypothesis polynomials."""
    E = [[None] * 3 for _ in range(3)]
    k = 0
    for i in range(3):
        for j in range(i, 3):
            E[i][j] = E[j][i] = fact_poly(facts[k])
            k += 1
    return E


def full_hyp_matrix(facts):
    return [[fact_poly(facts[3 * i + j]) for j in range(3)] for i in range(3)]


class Cert:
    """goal == sum_k q_k * h_k  with every h_k a hypothesis polynomial (== 0 on the path).  check() is exact."""

    def __init__(self, goal):
        self.goal = goal
        self.pairs = []

    def add(self, q, h):
        self.pairs.append((q, h))
        return self

    def add_matrix(self, Q, E):
        """sum_ij Q[i][j] * E[i][j]"""
        for i in range(len(E)):
            for j in range(len(E[0])):
                self.pairs.append((Q[i][j], E[i][j]))
        return self

    def check(self):
        acc = ZERO
        for q, h in self.pairs:
            if not q.is_zero():
                acc = acc + q * h
        return (self.goal - acc).is_zero()

    def size(self):
        return sum(len(q.t) for q, _ in self.pairs)


def det_minus_one_cofactors(E):
    """For M = 1 + E:  det(M) - 1 == sum_{r,c} Q[r][c] * E[r][c]  (telescoping over columns; multilinearity of det)."""
    M = padd(peye(), E)
    I3 = peye()
    Q = [[ZERO] * 3 for _ in range(3)]
    for c in range(3):
        X = [[(I3[r][k] if k < c else M[r][k]) for k in range(3)] for r in range(3)]   # column c itself is never read by a (.,c) cofactor
        C = pcof3(X)
        for r in range(3):
            Q[r][c] = C[r][c]
    return Q


def subst_cond(term, cond, value):
    return z3.simplify(z3.substitute(term, (cond, z3.BoolVal(value))))


def ite_conditions(terms):
    acc = {}

    def rec(t):
        if z3.is_app_of(t, z3.Z3_OP_ITE):
            acc[t.arg(0).get_id()] = t.arg(0)
        for c in t.children():
            rec(c)
    for t in terms:
        if z3.is_expr(t):
            rec(t)
    return list(acc.values())


# ======================================================================================================================
# 2. native run-time contract
# ======================================================================================================================
TOL_ORTH = 1e-10     # |R^T R - 1|, |det R - 1|: LAPACK's factors are orthogonal to a few ulp (1e-15); a wrong R is off by O(1)
TOL_REL = 1e-9       # relative slack on squared residuals (float64 accumulation over <= 50 points, coordinates O(10))


def rot_from_rotvec(w):
    """Rodrigues formula, vectorised: w (K,3) -> (K,3,3) proper rotations."""
    w = np.atleast_2d(w)
    th = np.linalg.norm(w, axis=1)
    k = np.divide(w, th[:, None], out=np.zeros_like(w), where=th[:, None] > 0)
    K = np.zeros((len(w), 3, 3))
    K[:, 0, 1], K[:, 0, 2], K[:, 1, 0], K[:, 1, 2], K[:, 2, 0], K[:, 2, 1] = -k[:, 2], k[:, 1], k[:, 2], -k[:, 0], -k[:, 1], k[:, 0]
    s, c = np.sin(th)[:, None, None], np.cos(th)[:, None, None]
    return np.eye(3)[None] + s * K + (1 - c) * (K @ K)


def random_rotation(rng):
    q = rng.normal(size=4)
    q /= np.linalg.norm(q)
    a, b, c, d = q
    return np.array([[a * a + b * b - c * c - d * d, 2 * (b * c - a * d), 2 * (b * d + a * c)],
                     [2 * (b * c + a * d), a * a - b * b + c * c - d * d, 2 * (c * d - a * b)],
                     [2 * (b * d - a * c), 2 * (c * d + a * b), a * a - b * b - c * c + d * d]])


def horn_max_trace(C):
    """max over proper rotations Q of trace(Q^T C): the largest eigenvalue of Horn's 4x4 quaternion matrix (independent of
    any SVD; Horn, J. Opt. Soc. Am. A 4 (1987) 629)."""
    Sxx, Sxy, Sxz = C[0]
    Syx, Syy, Syz = C[1]
    Szx, Szy, Szz = C[2]
    Nm = np.array([[Sxx + Syy + Szz, Syz - Szy, Szx - Sxz, Sxy - Syx],
                   [Syz - Szy, Sxx - Syy - Szz, Sxy + Syx, Szx + Sxz],
                   [Szx - Sxz, Sxy + Syx, -Sxx + Syy - Szz, Syz + Szy],
                   [Sxy - Syx, Szx + Sxz, Syz + Szy, -Sxx - Syy + Szz]])
    return float(np.linalg.eigvalsh(Nm)[-1])


def sq_residual(A, Q, B):
    d = A @ Q - B
    return float(np.vdot(d, d))


def make_points(rng, n, shape):
    if shape == "generic":
        A = rng.normal(size=(n, 3)) * rng.uniform(0.5, 5.0)
    elif shape == "planar":
        u, v = rng.normal(size=3), rng.normal(size=3)
        A = np.outer(rng.normal(size=n), u) + np.outer(rng.normal(size=n), v)
    elif shape == "collinear":
        A = np.outer(rng.normal(size=n) * 3.0, rng.normal(size=3))
    else:
        raise ValueError(shape)
    return A


RELATIONS = ("rotated", "rotated+noise", "mirrored", "mirrored+noise", "unrelated")
SHAPES = ("generic", "planar", "collinear")


def make_case(rng, n, shape, relation, centred):
    A = make_points(rng, n, shape)
    if centred:
        A = A - A.mean(axis=0)
    Q0 = random_rotation(rng)
    M = np.eye(3)
    if relation.startswith("mirrored"):
        nrm = rng.normal(size=3)
        nrm /= np.linalg.norm(nrm)
        M = np.eye(3) - 2 * np.outer(nrm, nrm)
    if relation == "unrelated":
        B = make_points(rng, n, "generic")
        if centred:
            B = B - B.mean(axis=0)
    else:
        B = A @ M @ Q0
        if relation.endswith("noise"):
            B = B + rng.normal(size=B.shape) * rng.choice([1e-6, 1e-3, 0.05, 0.3])
    return A, B, Q0, M


def is_chiral(A):
    """non-planar: the third singular value of the centred-at-origin point matrix is clearly non-zero."""
    s = np.linalg.svd(A, compute_uv=False)
    return len(s) == 3 and s[2] > 1e-3 * max(s[0], 1e-300)


class Failures:
    def __init__(self):
        self.by_key = {}
        self.evaluations = 0
        self.cases = 0

    def record(self, key, clause, inp, observed):
        if key not in self.by_key:
            self.by_key[key] = {"input": inp, "observed": observed, "clause": clause, "key": key}

    def as_list(self):
        return list(self.by_key.values())[:3]


def pack(A, B, **extra):
    d = {"A": np.asarray(A).tolist(), "B": np.asarray(B).tolist()}
    d.update(extra)
    return d


def check_alignment_case(num, A, B, rng, fl, tag, n_perturb, relation, Q0, M):
    """The statement's clauses as an ordinary run-time contract on the real functions, for one pair of point sets."""
    n = len(A)
    R = np.asarray(num.kabsch_rotation_matrix(A.copy(), B.copy()))
    info = dict(tag=tag, n=n)
    fl.evaluations += 1
    # -- orthogonal, proper
    if R.shape != (3, 3) or not np.all(np.isfinite(R)):
        fl.record("shape", "returns a finite 3x3 matrix", pack(A, B, **info), {"R": R.tolist()})
        return
    orth = max(np.abs(R.T @ R - np.eye(3)).max(), np.abs(R @ R.T - np.eye(3)).max())
    if orth > TOL_ORTH:
        fl.record("orthogonal", "R^T R == R R^T == 1", pack(A, B, **info), {"R": R.tolist(), "max|R^T R - 1|": float(orth)})
    det = float(np.linalg.det(R))
    if abs(det - 1) > TOL_ORTH:
        fl.record("det", "det R == +1 (never an improper rotation)", pack(A, B, **info), {"R": R.tolist(), "det": det})
    # -- optimal over proper rotations
    scale = float(np.vdot(A, A) + np.vdot(B, B)) + 1e-300
    tol = TOL_REL * scale
    mine = sq_residual(A, R, B)
    best_possible = scale - 1e-300 - 2 * horn_max_trace(A.T @ B)
    fl.evaluations += 1
    if mine > best_possible + tol:
        fl.record("optimal", "no proper rotation gives a smaller RMSD (oracle: Horn's quaternion eigenvalue)", pack(A, B, **info),
                  {"R": R.tolist(), "sum|A.R-B|^2": mine, "minimum over proper rotations": best_possible})
    angles = 10.0 ** rng.uniform(-5, 0.5, size=n_perturb)
    axes = rng.normal(size=(n_perturb, 3))
    axes /= np.linalg.norm(axes, axis=1)[:, None]
    pert = rot_from_rotvec(axes * angles[:, None])
    base = R if abs(det - 1) <= TOL_ORTH and orth <= TOL_ORTH else random_rotation(rng)
    Qs = np.concatenate([np.einsum("ij,kjl->kil", base, pert), np.einsum("kij,jl->kil", pert, base),
                         np.stack([random_rotation(rng) for _ in range(8)])])
    if relation != "unrelated" and not relation.startswith("mirrored"):
        Qs = np.concatenate([Qs, Q0[None]])
    D = np.einsum("ni,kij->knj", A, Qs) - B[None]
    res = np.einsum("knj,knj->k", D, D)
    fl.evaluations += len(Qs)
    k = int(np.argmin(res))
    if res[k] < mine - tol:
        fl.record("optimal", "no proper rotation gives a smaller RMSD (perturbations of R, random rotations, the generating rotation)",
                  pack(A, B, **info), {"R": R.tolist(), "sum|A.R-B|^2": mine, "better proper rotation": Qs[k].tolist(), "its sum": float(res[k])})
    # -- congruent sets are superposed exactly; mirror images only if they are achiral
    if relation == "rotated":
        dev = float(np.abs(A @ R - B).max())
        if dev > 1e-10 * (1 + np.abs(B).max()) * 10:
            fl.record("congruent", "congruent sets are superposed exactly", pack(A, B, **info), {"max|A.R-B|": dev, "R": R.tolist()})
    if relation == "mirrored":
        dev = float(np.sqrt(mine / n))
        chiral = is_chiral(A)
        if chiral and dev < 1e-6 * np.sqrt(scale / n):
            fl.record("mirror", "a chiral set is not superposed on its mirror image", pack(A, B, **info), {"rmsd": dev, "R": R.tolist(), "det": det})
        if not chiral and n >= 3 and np.linalg.matrix_rank(A, tol=1e-9 * (1 + np.abs(A).max())) <= 2:
            if dev > 1e-8 * np.sqrt(scale / n) + 1e-12:
                fl.record("optimal", "a planar/collinear set IS superposable on its mirror image by a proper rotation, so the optimum is 0",
                          pack(A, B, **info), {"rmsd": dev, "R": R.tolist()})
    # -- helpers
    AR = np.asarray(num.reorient_points(A.copy(), B.copy()))
    fl.evaluations += 1
    if AR.shape != A.shape or np.abs(AR - A @ R).max() > 1e-12 * (1 + np.abs(A).max()):
        fl.record("reorient", "reorient_points(A, B) == A . kabsch_rotation_matrix(A, B)", pack(A, B, **info), {"got": AR.tolist(), "expected": (A @ R).tolist()})
    r1 = float(num.rmsd_points(A.copy(), B.copy()))
    fl.evaluations += 1
    expect = float(np.sqrt(max(best_possible, 0.0) / n))
    if abs(r1 - np.sqrt(mine / n)) > 1e-12 * (1 + np.sqrt(scale / n)) or abs(r1 ** 2 - expect ** 2) * n > tol:
        fl.record("rmsd", "rmsd_points(A, B) == sqrt(sum|A.R - B|^2 / N) == the minimum over proper rotations", pack(A, B, **info),
                  {"rmsd_points": r1, "sqrt(sum|A.R-B|^2/N)": float(np.sqrt(mine / n)), "optimum": expect})
    # -- other argument forms of the same point sets: integer-valued coordinates given as an integer array / nested lists (lattice or grid points)
    Ai = np.round(A * 3).astype(int)
    if np.linalg.matrix_rank(Ai - Ai.mean(axis=0)) >= 2:
        Bi = Ai.astype(float) @ (R if abs(det - 1) <= TOL_ORTH and orth <= TOL_ORTH else random_rotation(rng))
        ref = np.asarray(num.reorient_points(Ai.astype(float), Bi.copy()))
        for form, Aform in (("int64 array", Ai.copy()), ("nested list of ints", Ai.tolist())):
            fl.evaluations += 1
            try:
                got = np.asarray(num.reorient_points(Aform, Bi.copy()), dtype=float)
                rr = float(num.rmsd_points(Ai.copy() if form.startswith("int") else Ai.tolist(), Bi.copy()))
                if got.shape != ref.shape or np.abs(got - ref).max() > 1e-9 * (1 + np.abs(ref).max()) or rr > 1e-8 * (1 + np.abs(Bi).max()):
                    fl.record("argument_forms", "integer-typed coordinates give the same aligned points as the same coordinates as floats (congruent sets: rmsd 0)",
                              pack(Ai.astype(float), Bi, form=form, **info), {"max|got - float result|": float(np.abs(got - ref).max()) if got.shape == ref.shape else None, "rmsd_points": rr})
            except Exception as e:  # noqa
                fl.record("argument_forms", "integer-typed coordinates are accepted like floats", pack(Ai.astype(float), Bi, form=form, **info), {"raised": repr(e)[:160]})
    r0 = float(num.rmsd_points(A.copy(), B.copy(), reorient=None))
    fl.evaluations += 1
    plain = float(np.sqrt(np.vdot(B - A, B - A) / n))
    if abs(r0 - plain) > 1e-12 * (1 + plain):
        fl.record("rmsd_plain", "rmsd_points(A, B, reorient=None) == sqrt(sum|A - B|^2 / N)", pack(A, B, **info), {"got": r0, "expected": plain})
    try:
        num.reorient_points(A.copy(), B.copy(), method="quaternion")
        fl.record("method", "an unknown method raises NotImplementedError", pack(A, B, **info), {"raised": None})
    except NotImplementedError:
        pass


def check_dimer_case(A, B, rng, fl, tag, relation):
    """Dimer.calculate_transform on real Molecule objects: R is the optimal proper rotation between the two CENTRED molecules
    (row convention: (pos_b - c_b) . R ~ pos_a - c_a, i.e. x_b - c_b ~ R (x_a - c_a) for column vectors) and v_ab = c_b - c_a."""
    from chmpy.core.dimer import Dimer
    from chmpy.core.element import Element
    from chmpy.core.molecule import Molecule
    n = len(A)
    els = [Element[x] for x in rng.choice(["H", "C", "N", "O"], size=n)]
    ta, tb = rng.normal(size=3) * 4, rng.normal(size=3) * 4
    pa, pb = A + ta, B + tb
    ma, mb = Molecule(list(els), pa.copy()), Molecule(list(els), pb.copy())
    d = Dimer(ma, mb, transform_ab="calculate")
    fl.evaluations += 1
    info = dict(tag=tag, n=n)
    inp = {"positions_a": pa.tolist(), "positions_b": pb.tolist(), "elements": [e.symbol for e in els], **info}
    t = d.transform_ab
    if not (isinstance(t, tuple) and len(t) == 2):
        fl.record("dimer", "transform_ab == (R, v_ab) for molecules with identical element lists", inp, {"transform_ab": repr(t)})
        return
    R, v = np.asarray(t[0]), np.asarray(t[1])
    ca, cb = pa.mean(axis=0), pb.mean(axis=0)
    if np.abs(v - (cb - ca)).max() > 1e-12 * (1 + np.abs(cb - ca).max()):
        fl.record("dimer", "v_ab == centroid_b - centroid_a", inp, {"v_ab": v.tolist(), "expected": (cb - ca).tolist()})
    X, Y = pb - cb, pa - ca
    orth = np.abs(R.T @ R - np.eye(3)).max()
    det = float(np.linalg.det(R))
    if orth > TOL_ORTH or abs(det - 1) > TOL_ORTH:
        fl.record("dimer", "the dimer rotation is a proper rotation", inp, {"R": R.tolist(), "det": det})
        return
    scale = float(np.vdot(X, X) + np.vdot(Y, Y)) + 1e-300
    mine = sq_residual(X, R, Y)
    best = scale - 2 * horn_max_trace(X.T @ Y)
    if mine > best + TOL_REL * scale:
        fl.record("dimer", "the dimer rotation optimally superposes the centred molecule b on the centred molecule a (rows: (b - c_b).R ~ a - c_a)",
                  inp, {"R": R.tolist(), "sum|(b-cb).R-(a-ca)|^2": mine, "minimum over proper rotations": best})
    if relation == "rotated":
        # a is carried onto b by x -> R (x - c_a) + c_a + v_ab   (column convention), exactly for congruent molecules
        img = (pa - ca) @ R.T + ca + v
        dev = float(np.abs(img - pb).max())
        if dev > 1e-9 * (1 + np.abs(pb).max()):
            fl.record("dimer", "for congruent molecules transform_ab carries molecule a onto molecule b exactly", inp, {"max deviation": dev, "R": R.tolist(), "v_ab": v.tolist()})
    # the same molecules after they were inspected and then moved (in place and as moved copies): the transform refers to where they are NOW
    _ = (ma.centroid, mb.centroid, ma.center_of_mass, mb.center_of_mass)
    sh_a, sh_b = rng.normal(size=3) * 3, rng.normal(size=3) * 3
    Qm = random_rotation(rng)
    ma2 = ma.translated(sh_a)
    mb.translate(sh_b)
    mb.rotate(Qm, origin=(0, 0, 0))
    pa2, pb2 = pa + sh_a, (pb + sh_b) @ Qm.T if np.allclose(np.asarray(mb.positions), (pb + sh_b) @ Qm.T, atol=1e-9) else np.asarray(mb.positions).copy()
    d3 = Dimer(ma2, mb, transform_ab="calculate")
    fl.evaluations += 1
    t3 = d3.transform_ab
    if isinstance(t3, tuple) and len(t3) == 2:
        R3, v3 = np.asarray(t3[0]), np.asarray(t3[1])
        ca2, cb2 = pa2.mean(axis=0), pb2.mean(axis=0)
        X3, Y3 = pb2 - cb2, pa2 - ca2
        sc3 = float(np.vdot(X3, X3) + np.vdot(Y3, Y3)) + 1e-300
        if np.abs(v3 - (cb2 - ca2)).max() > 1e-9 * (1 + np.abs(cb2 - ca2).max()) or sq_residual(X3, R3, Y3) > sc3 - 2 * horn_max_trace(X3.T @ Y3) + TOL_REL * sc3:
            fl.record("dimer", "after the molecules were inspected (centroid / centre of mass read) and then moved, the transform is that of their current positions",
                      dict(inp, history="read centroid; a.translated(s); b.translate(s'); b.rotate(Q); Dimer(a', b)"), {"v_ab": v3.tolist(), "expected_v_ab": (cb2 - ca2).tolist()})
    else:
        fl.record("dimer", "moved molecules with identical element lists have a transform", inp, {"transform_ab": repr(t3)})
    # unequal sizes / different elements -> None
    if n > 3:
        d2 = Dimer(ma, Molecule(list(els[:-1]), pb[:-1].copy()), transform_ab="calculate")
        fl.evaluations += 1
        if d2.transform_ab is not None:
            fl.record("dimer_none", "molecules of different size have no transform", inp, {"transform_ab": repr(d2.transform_ab)})


def run_native(seed, sizes, reps, n_perturb, dimer_sizes):
    """-> (Failures for util.num, Failures for Dimer)."""
    import importlib
    num = importlib.import_module("chmpy.util.num")
    rng = np.random.default_rng([seed, 18])
    fl, fd = Failures(), Failures()
    for n in sizes:
        for shape in SHAPES:
            for relation in RELATIONS:
                for rep in range(reps):
                    centred = bool((rep + n) % 2)
                    A, B, Q0, M = make_case(rng, n, shape, relation, centred)
                    tag = f"N={n} {shape} {relation} {'centred' if centred else 'uncentred'} rep={rep}"
                    fl.cases += 1
                    try:
                        check_alignment_case(num, A, B, rng, fl, tag, n_perturb, relation, Q0, M)
                    except Exception as e:  # the real code raised on a valid input
                        fl.record("raises", "the alignment routines return normally on equally sized point sets", pack(A, B, tag=tag), {"exception": repr(e)})
    for n in dimer_sizes:
        for shape in SHAPES:
            for relation in ("rotated", "rotated+noise", "mirrored", "unrelated"):
                A, B, Q0, M = make_case(rng, n, shape, relation, False)
                tag = f"N={n} {shape} {relation}"
                fd.cases += 1
                try:
                    check_dimer_case(A, B, rng, fd, tag, relation)
                except Exception as e:
                    fd.record("dimer_raises", "Dimer(..., transform_ab='calculate') returns normally", pack(A, B, tag=tag), {"exception": repr(e)})
    return fl, fd
