"""C13 — obligations for the hexagonal <-> rhombohedral switch (Crystal.choose_trigonal_lattice, UnitCell.as_rhombohedral/as_hexagonal)."""
import time
from fractions import Fraction

import numpy as np
import z3

from pyvc import cert
from pyvc.api import Contract, NDArr, Obj, conj, farr, real_matrix, source
from pyvc.libmodels import det3
from pyvc.values import PyRaise, to_real, z

from contracts import c13_native as N
from contracts.c13_support import CERT_BACKEND, FALLBACK, SMT, certified, eval_rat, prove_alg, prove_i, pz

CR, UCM, SG, AU = "chmpy.crystal.crystal", "chmpy.crystal.unit_cell", "chmpy.crystal.space_group", "chmpy.crystal.asymmetric_unit"
R_GROUPS = N.R_GROUPS
EYE = lambda i, j: 1 if i == j else 0
Dm = real_matrix("D", 3, 3)
Vm = real_matrix("V", 3, 3)
Fm = real_matrix("f", 2, 3)
INV = [sum(Dm[i][k] * Vm[k][j] for k in range(3)) == EYE(i, j) for i in range(3) for j in range(3)] + \
      [sum(Vm[i][k] * Dm[k][j] for k in range(3)) == EYE(i, j) for i in range(3) for j in range(3)]
NONSING = [det3(Dm) != 0] + [sum(Dm[i][k] * Dm[i][k] for k in range(3)) > 0 for i in range(3)]
OTHER = {"H": "R", "R": "H"}


def inverse_facts(X, Dn, H):
    """E[m][j] = (X . Dn - 1)[m][j] as polynomials, provided each of them is (up to sign) one of the equalities of the path condition H."""
    hp = []
    for l, r in cert.equalities_of([z(h) for h in H]):
        try:
            hp.append(cert.z3_to_poly(z3.simplify(l - r)))
        except cert.NotPolynomial:
            continue
    E = [[None] * 3 for _ in range(3)]
    for m in range(3):
        for j in range(3):
            e = pz(sum(z(to_real(X[m, k])) * z(to_real(Dn[k, j])) for k in range(3)) - EYE(m, j))
            if not any((e - h).is_zero() or (e + h).is_zero() for h in hp):
                return None
            E[m][j] = e
    return E


def _cof(M, i, j):
    a, b = [k for k in range(3) if k != i], [k for k in range(3) if k != j]
    sgn = 1 if (i + j) % 2 == 0 else -1
    return sgn * (M[a[0]][b[0]] * M[a[1]][b[1]] - M[a[0]][b[1]] * M[a[1]][b[0]])


def nonzero_row_lemma(ctx):
    r, c = [z3.Real(f"r{k}") for k in range(3)], [z3.Real(f"c{k}") for k in range(3)]
    d, s_ = z3.Real("d"), z3.Real("s")
    ctx.prove("lemma/nonzero_row", [d == sum(r[k] * c[k] for k in range(3)), d != 0, s_ >= 0, s_ * s_ == sum(r[k] * r[k] for k in range(3))], s_ != 0, tag="L",
              clause="a row r of a matrix with non-zero determinant d = r . cofactors has non-zero length s (s >= 0, s^2 = |r|^2)", timeout_ms=20000)


def set_vectors_safety(ctx, label, res, Dnew, Dold, fn, replay=None):
    """Side conditions of UnitCell(vectors) with vectors = Dnew (polynomial in Dold, det(Dold) != 0 assumed): the generic NRA queries for 'row norm != 0' and
    'det != 0' do not terminate, so they are discharged by exact polynomial identities + the lemma nonzero_row; everything else goes through ctx.safety."""
    Dn = [[z(to_real(Dnew[i, j])) for j in range(3)] for i in range(3)]
    Do = [[z(to_real(Dold[i][j])) for j in range(3)] for i in range(3)]
    pdn, pdo = pz(det3(Dn)), pz(det3(Do))
    ratio = None
    if not pdo.is_zero():
        k0 = next(iter(pdo.t))
        cand = pdn.t.get(k0, Fraction(0)) / pdo.t[k0]
        if cand != 0 and (pdn - pdo.scale(cand)).is_zero():
            ratio = cand
    rest, seen = [], set()
    n_row = 0
    for item in res.safety:
        kind, pc, goal, note = item
        key = (kind, z(goal).get_id())
        if key in seen:
            continue
        seen.add(key)
        gs = str(goal)
        if kind == "inv-nonsingular" and ratio is not None and (pz(z(goal).arg(0).arg(0)) - pdn).is_zero():
            r = ctx.ground(f"{label}/safe/inv-nonsingular", True, tag="P", clause=f"det(new direct) == {ratio} * det(direct) != 0 (exact polynomial identity): the new cell is non-singular", fn=fn)
            r.backend = CERT_BACKEND
            continue
        if kind == "sqrt-nonneg" and z3.is_ge(z(goal)):
            try:
                lhs = pz(z(goal).arg(0) - z(goal).arg(1))
                sq = [i for i in range(3) if (lhs - pz(sum(Dn[i][j] * Dn[i][j] for j in range(3)))).is_zero()]
            except Exception:  # noqa
                sq = []
            if sq:
                r = ctx.ground(f"{label}/safe/sqrt-nonneg/row{sq[0]}", True, tag="P", fn=fn, clause=f"the radicand is the sum of the squares of the entries of new lattice vector {sq[0]} (exact polynomial identity), hence >= 0")
                r.backend = CERT_BACKEND
                continue
        if kind == "div-nonzero" and "py_sqrt" in gs and ratio is not None:
            row = None
            for i in range(3):
                n2 = pz(sum(Dn[i][j] * Dn[i][j] for j in range(3)))
                try:
                    arg = z(goal).arg(0).arg(0).arg(0) if z3.is_not(z(goal)) else None       # Not(py_sqrt(N) == 0)
                    if arg is not None and (pz(arg) - n2).is_zero():
                        row = i
                except Exception:  # noqa
                    pass
            if row is not None:
                lap = pz(sum(Dn[row][j] * _cof(Dn, row, j) for j in range(3)))
                if (lap - pdn).is_zero():
                    n_row += 1
                    r = ctx.ground(f"{label}/safe/row_norm_nonzero/{n_row}", True, tag="P", fn=fn,
                                   clause=f"|new lattice vector {row}| != 0: instance of lemma/nonzero_row with d = det(new direct) = {ratio} det(direct) != 0 (Laplace expansion along the row checked exactly)")
                    r.backend = CERT_BACKEND
                    continue
        rest.append(item)

    class _R:
        pass
    rr = _R()
    rr.safety = rest
    ctx.safety(label, [rr], replay=replay, fn=fn)


def rational(t):
    t = z3.simplify(z(to_real(t)))
    if z3.is_rational_value(t) or z3.is_int_value(t):
        return Fraction(t.numerator_as_long(), t.denominator_as_long()) if z3.is_rational_value(t) else Fraction(t.as_long())
    return None


def extract_T(Dnew):
    """The matrix T with Dnew == T . D, read off a direct matrix whose cells are linear terms in the symbols D_ij; None if it is not of that form."""
    T = [[None] * 3 for _ in range(3)]
    zero = [(Dm[i][j], z3.RealVal(0)) for i in range(3) for j in range(3)]
    for i in range(3):
        for k in range(3):
            # coefficient of D[k][0] in Dnew[i][0]
            sub = [(Dm[a][b], z3.RealVal(1 if (a, b) == (k, 0) else 0)) for a in range(3) for b in range(3)]
            T[i][k] = rational(z3.substitute(z(to_real(Dnew[i, 0])), *sub))
            if T[i][k] is None:
                return None
    return T


def mat_mul(A, B):
    return [[sum(A[i][k] * B[k][j] for k in range(3)) for j in range(3)] for i in range(3)]


def mat_inv(A):
    det = (A[0][0] * (A[1][1] * A[2][2] - A[1][2] * A[2][1]) - A[0][1] * (A[1][0] * A[2][2] - A[1][2] * A[2][0]) + A[0][2] * (A[1][0] * A[2][1] - A[1][1] * A[2][0]))
    if det == 0:
        return None, det
    c = lambda i, j: A[(i + 1) % 3][(j + 1) % 3] * A[(i + 2) % 3][(j + 2) % 3] - A[(i + 1) % 3][(j + 2) % 3] * A[(i + 2) % 3][(j + 1) % 3]
    return [[Fraction(c(j, i)) / det for j in range(3)] for i in range(3)], det


def exact_ops(number, choice):
    from chmpy.crystal import SpaceGroup
    out = []
    for s in SpaceGroup(number, choice=choice).symmetry_operations:
        R = [[Fraction(int(round(float(s.rotation[i][j])))) for j in range(3)] for i in range(3)]
        t = [Fraction(int(round(float(s.translation[i]) * 12)), 12) for i in range(3)]
        ok = np.allclose(np.array(R, dtype=float), s.rotation, atol=1e-9) and np.allclose(np.array(t, dtype=float), s.translation, atol=1e-9)
        out.append((R, t, ok))
    return out


def conjugate(op, T, Tinv):
    """Operation f -> f R^T + t re-expressed in the basis D' = T D (f' = f T^-1):  R' = T^-T R T^T,  t' = T^-T t (column form), translation modulo 1."""
    R, t = op
    Tt = [[T[j][i] for j in range(3)] for i in range(3)]
    Tit = [[Tinv[j][i] for j in range(3)] for i in range(3)]
    Rn = mat_mul(mat_mul(Tit, R), Tt)
    tn = [sum(Tit[i][k] * t[k] for k in range(3)) % 1 for i in range(3)]
    return tuple(tuple(r) for r in Rn), tuple(tn)


INST_D = [[Fraction(5), Fraction(0), Fraction(0)], [Fraction(-2), Fraction(4), Fraction(0)], [Fraction(1), Fraction(1), Fraction(7)]]
INST_F = [[Fraction(1, 3), Fraction(1, 5), Fraction(2, 7)], [Fraction(-3, 4), Fraction(5, 6), Fraction(1, 9)]]


def trig_instance(cells):
    """Exact rational point for instance-guided refutation: a generic non-singular cell, two sites, and the values of the fresh inverse symbols of each constructed cell."""
    V0, _ = mat_inv(INST_D)
    env = {}
    for i in range(3):
        for j in range(3):
            env[f"D{i}{j}"], env[f"V{i}{j}"] = INST_D[i][j], V0[i][j]
    for i in range(2):
        for j in range(3):
            env[f"f{i}{j}"] = INST_F[i][j]
    facts = [Dm[i][j] == z(to_real(INST_D[i][j])) for i in range(3) for j in range(3)] + [Vm[i][j] == z(to_real(V0[i][j])) for i in range(3) for j in range(3)] + \
            [Fm[i][j] == z(to_real(INST_F[i][j])) for i in range(2) for j in range(3)]
    for X, Dn in cells:
        try:
            val = [[eval_rat(z(to_real(Dn[i, j])), env) for j in range(3)] for i in range(3)]
            inv, det = mat_inv(val)
            if inv is None:
                continue
            for i in range(3):
                for j in range(3):
                    c = X[i, j]
                    if z3.is_expr(c) and z3.is_const(c):
                        env[c.decl().name()] = inv[i][j]
        except (ValueError, ZeroDivisionError):
            continue
    return env, facts


def trigonal_obligations(ctx, env):
    f_ctl = ctx.fn(CR, "Crystal.choose_trigonal_lattice")
    nonzero_row_lemma(ctx)
    I = env.I
    AUc = I.class_of(source.load_module(AU), "AsymmetricUnit")
    extracted = {}

    def crystal(number, choice):
        uc = Obj(env.UC, {"direct": farr(Dm), "inverse": farr(Vm), "lengths": [z3.Real(f"len{i}") for i in range(3)], "angles": [z3.Real(n) for n in ("alpha", "beta", "gamma")]})
        sg = Obj(env.SGc, {"international_tables_number": number, "choice": choice})
        au = Obj(AUc, {"positions": farr(Fm), "atomic_numbers": None, "elements": None, "labels": None, "properties": {}})
        return Obj(env.CRc, {"unit_cell": uc, "space_group": sg, "asymmetric_unit": au, "properties": {}, "_unit_cell_atom_dict": {"stale": True}})

    for src in ("H", "R"):
        tgt = OTHER[src]
        lab = f"crystal.Crystal.choose_trigonal_lattice/ensures/{src}_to_{tgt}/"
        replay = N.replay_trigonal(tgt)

        def ob(src=src, tgt=tgt, lab=lab, replay=replay):
            env.sg_log.clear()

            def thunk(I2, a_, kw):
                cr = crystal(148, src)
                r1 = I2.call(I2.getattr(cr, "choose_trigonal_lattice"), [tgt])
                snap = {"D1": cr.fields["unit_cell"].fields["direct"].data.copy(), "X1": cr.fields["unit_cell"].fields["inverse"].data.copy(), "F1": cr.fields["asymmetric_unit"].fields["positions"].data.copy(),
                        "sg1": dict(cr.fields["space_group"].fields), "memo1": "_unit_cell_atom_dict" in cr.fields, "ret1": r1, "log1": list(env.sg_log)}
                r2 = I2.call(I2.getattr(cr, "choose_trigonal_lattice"), [src])
                snap.update({"D2": cr.fields["unit_cell"].fields["direct"].data.copy(), "X2": cr.fields["unit_cell"].fields["inverse"].data.copy(), "F2": cr.fields["asymmetric_unit"].fields["positions"].data.copy(),
                             "sg2": dict(cr.fields["space_group"].fields)})
                return snap
            res = I.explore(thunk, pre=NONSING + INV)
            if len(res) != 1 or res[0].kind != "return":
                ctx.prove(lab + "returns", [], z3.BoolVal(False), clause=f"choose_trigonal_lattice('{tgt}') and back run to completion on every crystal of an R group with a non-singular cell",
                          replay=replay, fn=f_ctl)
                return
            r = res[0]
            s, H = r.value, r.pc
            D1, F1, D2, F2 = s["D1"], s["F1"], s["D2"], s["F2"]
            T1 = extract_T(D1)
            ctx.prove(lab + "basis_change/linear", [], z3.BoolVal(T1 is not None), clause="new direct matrix == T . direct for a constant rational matrix T", replay=replay, fn=f_ctl)
            if T1 is None:
                return
            extracted[(src, tgt)] = T1
            ctx.prove(lab + "basis_change/direct", [], conj([z(to_real(D1[i, j])) == sum(z(to_real(T1[i][k])) * Dm[k][j] for k in range(3)) for i in range(3) for j in range(3)]),
                      split=False, clause=f"direct' == T . direct, T = {[[str(x) for x in row] for row in T1]} (new lattice vectors are integer / third-integer combinations of the old ones)",
                      replay=replay, fn=f_ctl, **SMT)
            ctx.prove(lab + "space_group", [], z3.BoolVal(s["sg1"].get("international_tables_number") == 148 and s["sg1"].get("choice") == tgt and s["log1"] == [(148, tgt)]),
                      clause="the new space group is SpaceGroup(same number, choice=target)", replay=replay, fn=f_ctl)
            ctx.prove(lab + "memo_dropped", [], z3.BoolVal(not s["memo1"]), clause="memoised unit-cell data of the old setting is discarded (C14 proves this for every memo; here: the run)", replay=replay, fn=f_ctl)
            cart = lambda F, Dd, i, j: sum(z(to_real(F[i, k])) * z(to_real(Dd[k, j])) for k in range(3))
            cart0 = lambda i, j: sum(Fm[i][k] * Dm[k][j] for k in range(3))
            def cart_cert(Fn, Dn, Xn, Fo, Do):
                """(Fn . Dn - Fo . Do)[i][j] == sum_m (Fo . Do)[i][m] * (Xn . Dn - 1)[m][j]  — holds when Fn == (Fo . Do) . Xn"""
                def check():
                    E = inverse_facts(Xn, Dn, H)
                    if E is None:
                        return False
                    for i in range(2):
                        c0 = [pz(cart(Fo, Do, i, m)) for m in range(3)]
                        for j in range(3):
                            g = pz(cart(Fn, Dn, i, j)) - c0[j]
                            acc = cert.Poly()
                            for m in range(3):
                                acc = acc + c0[m] * E[m][j]
                            if not (g - acc).is_zero():
                                return False
                    return True
                return check
            F0, D0 = np.array(Fm, dtype=object), np.array(Dm, dtype=object)
            ienv, ifacts = trig_instance([(s["X1"], D1), (s["X2"], D2)])
            certified(ctx, lab + "cartesian_unchanged", cart_cert(F1, D1, s["X1"], F0, D0), H, conj([cart(F1, D1, i, j) == cart0(i, j) for i in range(2) for j in range(3)]),
                      "f' . direct' == f . direct: every site keeps its Cartesian position (certificate: f' == (f . direct) . inverse' and inverse' . direct' == 1)", replay, f_ctl,
                      env=ienv, facts=ifacts)
            # round trip
            ctx.prove(lab + "round_trip/direct", [], conj([z(to_real(D2[i, j])) == Dm[i][j] for i in range(3) for j in range(3)]),
                      split=False, clause=f"{src}->{tgt}->{src} restores the direct matrix exactly (T_back . T == 1; an identity in the entries of direct, no hypotheses)", replay=replay, fn=f_ctl, **SMT)
            ctx.prove(lab + "round_trip/space_group", [], z3.BoolVal(s["sg2"].get("international_tables_number") == 148 and s["sg2"].get("choice") == src),
                      clause="round trip restores the space group setting", replay=replay, fn=f_ctl)
            certified(ctx, lab + "round_trip/cartesian_second_step", cart_cert(F2, D2, s["X2"], F1, D1), H, conj([cart(F2, D2, i, j) == cart(F1, D1, i, j) for i in range(2) for j in range(3)]),
                      "second switch: f'' . direct'' == f' . direct'", replay, f_ctl, env=ienv, facts=ifacts)
            # f'' == f: abstract f'' by fresh symbols g (sound generalisation): g . D == f . D and D . V == 1 |- g == f
            G2 = real_matrix("g", 2, 3)
            hy = INV + [sum(G2[i][k] * Dm[k][j] for k in range(3)) == cart0(i, j) for i in range(2) for j in range(3)]

            def cancel_cert():
                DV = [[pz(sum(Dm[m][k] * Vm[k][j] for k in range(3)) - EYE(m, j)) for j in range(3)] for m in range(3)]
                for i in range(2):
                    diff = [pz(sum(G2[i][m] * Dm[m][k] for m in range(3)) - cart0(i, k)) for k in range(3)]
                    for j in range(3):
                        g = pz(G2[i][j] - Fm[i][j])
                        acc = cert.Poly()
                        for k in range(3):
                            acc = acc + diff[k] * pz(Vm[k][j])
                        for m in range(3):
                            acc = acc - pz(G2[i][m] - Fm[i][m]) * DV[m][j]
                        if not (g - acc).is_zero():
                            return False
                return True
            certified(ctx, lab + "round_trip/coordinates", cancel_cert, hy, conj([G2[i][j] == Fm[i][j] for i in range(2) for j in range(3)]),
                      f"{src}->{tgt}->{src} restores the fractional coordinates: from round_trip/direct (direct'' == direct), cartesian_unchanged and cartesian_second_step, "
                      "f'' . direct == f . direct, and direct is invertible, hence f'' == f (g stands for f'')", replay, f_ctl)
            # side conditions of the two UnitCell(vectors) constructions (the run's safety list is in program order: first switch, then second)
            half = [it for it in r.safety]

            class _R:
                pass
            first, second = _R(), _R()
            cut = next((k for k, it in enumerate(half) if it[0] == "inv-nonsingular"), len(half) - 1) + 1
            first.safety, second.safety = half[:cut], half[cut:]
            set_vectors_safety(ctx, f"crystal.Crystal.choose_trigonal_lattice/{src}_to_{tgt}/first", first, D1, Dm, f_ctl, replay)
            set_vectors_safety(ctx, f"crystal.Crystal.choose_trigonal_lattice/{src}_to_{tgt}/back", second, D2, Dm, f_ctl, replay)
        ctx.attempt(lab + "cartesian_unchanged", ob, replay=replay, fn=f_ctl)

    # ---- guards -------------------------------------------------------------------------------------------------------
    def ob_guard():
        num = z3.Int("sgnum")

        def thunk(I2, a_, kw):
            cr = crystal(num, "H")
            return I2.call(I2.getattr(cr, "choose_trigonal_lattice"), ["R"])
        res = I.explore(thunk, pre=NONSING + INV + [num >= 1, num <= 230] + [num != g for g in R_GROUPS])
        ok = bool(res) and all(r.kind == "raise" and isinstance(r.value, PyRaise) and "ValueError" in str(r.value.args[0] if r.value.args else r.value) for r in res)
        ctx.prove("crystal.Crystal.choose_trigonal_lattice/ensures/guard/other_groups_raise", [], z3.BoolVal(ok),
                  clause="for every space group number outside {146,148,155,160,161,166,167} the call raises ValueError (nothing is modified)", replay=N.replay_guard, fn=f_ctl)

        def thunk2(I2, a_, kw):
            cr = crystal(num, "H")
            uc0, au0, sg0, pos0 = cr.fields["unit_cell"], cr.fields["asymmetric_unit"], cr.fields["space_group"], cr.fields["asymmetric_unit"].fields["positions"]
            ret = I2.call(I2.getattr(cr, "choose_trigonal_lattice"), ["H"])
            same = cr.fields["unit_cell"] is uc0 and cr.fields["asymmetric_unit"] is au0 and cr.fields["space_group"] is sg0 and au0.fields["positions"] is pos0
            return ret, same
        res2 = I.explore(thunk2, pre=NONSING + INV + [z3.Or(*[num == g for g in R_GROUPS])])
        ok2 = bool(res2) and all(r.kind == "return" and r.value[0] is None and r.value[1] for r in res2)
        ctx.prove("crystal.Crystal.choose_trigonal_lattice/ensures/guard/same_choice_noop", [], z3.BoolVal(ok2),
                  clause="asking for the setting the crystal already has returns without touching cell, asymmetric unit or space group", replay=N.replay_guard, fn=f_ctl)

        def thunk3(I2, a_, kw):
            cr = crystal(num, "H")
            return I2.call(I2.getattr(cr, "choose_trigonal_lattice"), ["R"])
        res3 = I.explore(thunk3, pre=NONSING + INV + [z3.Or(*[num == g for g in R_GROUPS])])
        ok3 = bool(res3) and all(r.kind == "return" for r in res3)
        ctx.prove("crystal.Crystal.choose_trigonal_lattice/ensures/guard/all_seven_accepted", [], z3.BoolVal(ok3),
                  clause="each of the seven R-lattice groups is accepted", replay=N.replay_trigonal("R"), fn=f_ctl)
    ctx.attempt("crystal.Crystal.choose_trigonal_lattice/ensures/guard", ob_guard, replay=N.replay_guard, fn=f_ctl)

    # ---- UnitCell.as_rhombohedral / as_hexagonal ---------------------------------------------------------------------------
    flags = {"is_hexagonal": z3.Bool("cell_is_hexagonal"), "is_rhombohedral": z3.Bool("cell_is_rhombohedral")}
    contracts = dict(env.contracts)
    for nm, b in flags.items():
        contracts[UCM + ".UnitCell." + nm] = Contract(result=lambda I2, self_, b=b: b)
    I_uc = ctx.interp(contracts=contracts)
    UC2 = I_uc.class_of(env.ucmod, "UnitCell")
    uc_T = {}
    for meth, flag, key in (("as_rhombohedral", "is_hexagonal", ("H", "R")), ("as_hexagonal", "is_rhombohedral", ("R", "H"))):
        f_m = ctx.fn(UCM, "UnitCell." + meth)

        def ob_uc(meth=meth, flag=flag, key=key, f_m=f_m):
            def thunk(I2, a_, kw):
                uc = Obj(UC2, {"direct": farr(Dm), "inverse": farr(Vm), "lengths": [z3.Real(f"len{i}") for i in range(3)], "angles": [z3.Real(n) for n in ("alpha", "beta", "gamma")]})
                return I2.call(I2.getattr(uc, meth), [])
            res = I_uc.explore(thunk, pre=NONSING + INV)
            lab = f"unit_cell.UnitCell.{meth}/ensures/"

            def replay(m):
                from chmpy.crystal import UnitCell
                uc = UnitCell.hexagonal(11.0, 7.0) if meth == "as_rhombohedral" else UnitCell.rhombohedral(8.0, 1.2)
                new = getattr(uc, meth)()
                Tn = new.direct @ np.linalg.inv(uc.direct)
                want = np.array([[float(x) for x in row] for row in extracted.get(key, [[0] * 3] * 3)])
                bad = not np.allclose(Tn, want, atol=1e-9)
                try:
                    getattr(UnitCell.cubic(5.0), meth)()
                    bad = True
                except ValueError:
                    pass
                return {"native_inputs": {"cell": "hexagonal(11, 7)" if meth == "as_rhombohedral" else "rhombohedral(8, 1.2 rad)"}, "reproduced": bool(bad), "observed": {"T": np.round(Tn, 6).tolist()}}
            rets = [r for r in res if r.kind == "return"]
            raises = [r for r in res if r.kind == "raise"]
            ok_paths = len(rets) == 1 and len(raises) == 1
            ctx.prove(lab + "guard", [], z3.BoolVal(ok_paths), clause=f"returns a cell when {flag}, raises ValueError otherwise", replay=replay, fn=f_m)
            if not ok_paths:
                return
            r = rets[0]
            flag_ok = any(h.eq(flags[flag]) for h in r.pc) and any(h.eq(z3.Not(flags[flag])) for h in raises[0].pc)
            ctx.prove(lab + "guard/condition", [], z3.BoolVal(flag_ok), clause=f"the returning path is the one with {flag} true", replay=replay, fn=f_m)
            Dn = r.value.fields["direct"].data
            T = extract_T(Dn)
            uc_T[key] = T
            goals = [z3.BoolVal(T is not None)]
            if T is not None:
                goals += [z(to_real(Dn[i, j])) == sum(z(to_real(T[i][k])) * Dm[k][j] for k in range(3)) for i in range(3) for j in range(3)]
            ctx.prove(lab + "basis_change", r.pc, conj(goals), clause="direct' == T . direct with a constant rational T", replay=replay, fn=f_m)
            have_both = T is not None and extracted.get(key) is not None
            same = have_both and T == extracted[key]

            def native_same(meth=meth, key=key):
                """Run-time: the matrix UnitCell.<meth>() applies equals the one Crystal.choose_trigonal_lattice applies to the cell, on a real trigonal crystal."""
                from chmpy.crystal import Crystal, UnitCell, SpaceGroup, AsymmetricUnit
                from chmpy import Element
                uc = UnitCell.hexagonal(11.0, 7.0) if key[0] == "H" else UnitCell.rhombohedral(8.0, 1.2)
                cr = Crystal(uc, SpaceGroup(146, choice=key[0]), AsymmetricUnit([Element["C"]], np.array([[0.1, 0.2, 0.3]])))
                d0 = np.array(cr.unit_cell.direct, copy=True)
                cr.choose_trigonal_lattice(key[1])
                t_crystal = cr.unit_cell.direct @ np.linalg.inv(d0)
                t_cell = getattr(uc, meth)().direct @ np.linalg.inv(uc.direct)
                if np.allclose(t_crystal, t_cell, atol=1e-9):
                    return None
                return {"input": {"cell": "hexagonal(11, 7)" if key[0] == "H" else "rhombohedral(8, 1.2 rad)", "space_group": 146}, "observed": {"UnitCell": np.round(t_cell, 6).tolist(), "Crystal": np.round(t_crystal, 6).tolist()}}
            if have_both:
                ctx.ground(lab + "same_matrix_as_choose_trigonal_lattice", bool(same), clause="the default T equals the matrix used by Crystal.choose_trigonal_lattice for the same direction",
                           detail={"unit_cell": [[str(x) for x in row] for row in T], "crystal": [[str(x) for x in row] for row in extracted[key]]}, witness={"method": meth}, fn=f_m)
            else:       # one of the two matrices could not be read off the symbolic run (not evidence of a difference): decided on the running code instead
                ctx.pattern(lab + "same_matrix_as_choose_trigonal_lattice", False, clause="the default T equals the matrix used by Crystal.choose_trigonal_lattice for the same direction",
                            fallback=native_same, fn=f_m)
            set_vectors_safety(ctx, f"unit_cell.UnitCell.{meth}", r, Dn, Dm, f_m, replay)
        ctx.attempt(f"unit_cell.UnitCell.{meth}/ensures/basis_change", ob_uc, fn=f_m)

    # ---- G: exact tables -----------------------------------------------------------------------------------------------
    T_HR, T_RH = extracted.get(("H", "R")), extracted.get(("R", "H"))
    wit = {"T_H_to_R": [[str(x) for x in row] for row in T_HR] if T_HR else None, "T_R_to_H": [[str(x) for x in row] for row in T_RH] if T_RH else None}
    if T_HR is None or T_RH is None:
        ctx.undecided("crystal.Crystal.choose_trigonal_lattice/tables/matrices", "basis-change matrices could not be read off the source")
        return
    prod = mat_mul(T_RH, T_HR)
    inv_HR, det_HR = mat_inv(T_HR)
    inv_RH, det_RH = mat_inv(T_RH)

    def replay_tables(m):
        return N.replay_trigonal("R")(m)
    ctx.ground("crystal.Crystal.choose_trigonal_lattice/tables/matrices_inverse", prod == [[Fraction(EYE(i, j)) for j in range(3)] for i in range(3)],
               clause="T_(R->H) . T_(H->R) == identity over the rationals", detail=wit, witness=wit, fn=f_ctl)
    ctx.ground("crystal.Crystal.choose_trigonal_lattice/tables/volume_ratio", abs(det_HR) == Fraction(1, 3) and abs(det_RH) == 3 and all(x.denominator == 1 for row in T_RH for x in row),
               clause="|det T_(H->R)| == 1/3 and T_(R->H) is an integer matrix of |det| 3: the hexagonal cell has three times the volume (and contents) of the rhombohedral cell, "
                      "so atom counts scale with the cell-volume ratio and the density is unchanged", detail={"det_H_to_R": str(det_HR), "det_R_to_H": str(det_RH)}, witness=wit, fn=f_ctl)
    for number in R_GROUPS:
        opsH, opsR = exact_ops(number, "H"), exact_ops(number, "R")
        exact = all(o[2] for o in opsH + opsR)
        detail = {"n_H": len(opsH), "n_R": len(opsR)}
        ok = exact and inv_HR is not None
        if ok:
            images = {}
            for (R, t, _) in opsH:
                key = conjugate((R, t), T_HR, inv_HR)
                images[key] = images.get(key, 0) + 1
            target = {(tuple(tuple(r) for r in R), tuple(x % 1 for x in t)) for (R, t, _) in opsR}
            ok = set(images) == target and all(v == 3 for v in images.values()) and len(opsH) == 3 * len(opsR) and len(target) == len(opsR)
            detail.update({"distinct_conjugates": len(images), "not_in_R_table": len(set(images) - target), "R_ops_not_reached": len(target - set(images)),
                           "multiplicities": sorted(set(images.values()))})
            # and back: conjugating the R table by T_(R->H) gives operations of the H table
            if ok and inv_RH is not None:
                tH = {(tuple(tuple(r) for r in R), tuple(x % 1 for x in t)) for (R, t, _) in opsH}
                back = {conjugate((R, t), T_RH, inv_RH) for (R, t, _) in opsR}
                ok = back <= tH and len(back) == len(opsR)
                detail["R_conjugates_missing_from_H_table"] = len(back - tH)
        ctx.ground(f"crystal.Crystal.choose_trigonal_lattice/tables/operations/{number}", bool(ok),
                   clause=f"group {number}: re-expressing the tabulated H-setting operations in the basis T_(H->R) . D gives exactly the tabulated R-setting operations modulo the lattice, each one three times "
                          "(the centring translations become lattice translations); the R operations re-expressed with T_(R->H) are operations of the H table",
                   detail=detail, witness={"group": number, **wit, **detail}, fn=f_ctl)
