"""C01 — unit-cell contents are exactly the symmetry orbit of the asymmetric unit (crystal.py, space_group.py)."""
import ast
import itertools
import time
from fractions import Fraction

import numpy as np
import z3

from pyvc.api import Contract, Interp, NDArr, Obj, conj, farr, iarr, real_matrix, reals, shell, source
from pyvc.symex import Frame, ModelFn as _MF
from pyvc.values import PyRaise, Unsupported, z, to_real

CR, SG, SO = "chmpy.crystal.crystal", "chmpy.crystal.space_group", "chmpy.crystal.symmetry_operation"


# ----------------------------------------------------------------------------------------------- exact orbit oracle
def decode_exact(code):
    r, t = code % 19683, code // 19683
    R = tuple(tuple((r // 3 ** (8 - 3 * i - j)) % 3 - 1 for j in range(3)) for i in range(3))
    T = tuple(Fraction((t // 12 ** (2 - i)) % 12, 12) for i in range(3))
    return R, T


def exact_orbit(codes, x):
    """dict image (tuple of Fractions in [0,1)) -> list of generating codes."""
    out = {}
    for c in codes:
        R, T = decode_exact(c)
        img = tuple((sum(R[i][j] * x[j] for j in range(3)) + T[i]) % 1 for i in range(3))
        out.setdefault(img, []).append(c)
    return out


def well_separated(imgs, tol=0.03):
    A = np.array([[float(v) for v in im] for im in imgs])
    if len(A) < 2:
        return True
    dd = np.abs(A[:, None, :] - A[None, :, :]) % 1
    m = np.minimum(dd, 1 - dd).max(axis=2)
    np.fill_diagonal(m, 1.0)
    return bool(m.min() > tol)


def torus_dist(a, b):
    return max(min(abs(float(p - q)) % 1, 1 - abs(float(p - q)) % 1) for p, q in zip(a, b))


SPECIAL_CANDIDATES = [(0, 0, 0), (Fraction(1, 2), 0, 0), (0, Fraction(1, 2), 0), (0, 0, Fraction(1, 2)), (Fraction(1, 2), Fraction(1, 2), Fraction(1, 2)),
                      (Fraction(1, 4), Fraction(1, 4), Fraction(1, 4)), (Fraction(1, 3), Fraction(2, 3), Fraction(3, 16)), (0, 0, Fraction(3, 16)),
                      (Fraction(3, 16), Fraction(3, 16), Fraction(3, 16)), (Fraction(3, 16), Fraction(-3, 16), 0), (Fraction(3, 16), Fraction(3, 8), Fraction(5, 32)),
                      (Fraction(1, 4), Fraction(3, 16), 0), (Fraction(3, 16), 0, Fraction(1, 4)), (0, Fraction(1, 4), Fraction(3, 16)),
                      (Fraction(1, 8), Fraction(1, 8), Fraction(1, 8)), (Fraction(3, 16), Fraction(3, 16), 0), (Fraction(3, 16), Fraction(1, 2), Fraction(5, 32))]


def check_setting(sgm, number, choice, rng, n_general=2, noise=False):
    """Run-time contract for one setting: unit_cell_atoms vs the exact rational orbit.  noise: the coordinates handed to the crystal carry
    rounding-level noise (a few 1e-16, as recomputed coordinates do), so images of a special-position site fall on both sides of a cell face."""
    from chmpy.crystal import Crystal, UnitCell, SpaceGroup, AsymmetricUnit
    from chmpy import Element
    sg = SpaceGroup(number, choice=choice)
    codes = [int(s.integer_code) for s in sg.symmetry_operations]
    sites = []
    for _ in range(n_general):
        for _try in range(50):
            x = tuple(Fraction(int(rng.integers(-160, 260)), 128) + Fraction(int(rng.integers(1, 7)), 1000) for _ in range(3))   # inside and outside the cell
            orb = exact_orbit(codes, x)
            imgs = list(orb)
            if len(orb) == len(codes) and well_separated(imgs) \
                    and all(0.02 < float(v) < 0.98 for im in imgs for v in im):
                sites.append((x, 1.0))
                break
    for cand in SPECIAL_CANDIDATES:
        orb = exact_orbit(codes, cand)
        imgs = list(orb)
        if len(orb) < len(codes) and well_separated(imgs):
            mult = len(codes) // len(orb)
            sites.append((cand, 1.0 / mult if rng.integers(0, 2) else 0.5 / mult))
            if len(sites) >= n_general + 2:
                break
    # sites must also be mutually separated
    keep, kept_imgs = [], []
    for s in sites:
        oi = [tuple(float(v) for v in im) for im in exact_orbit(codes, s[0])]
        A = np.array(oi)
        ok = True
        for B in kept_imgs:
            dd = np.abs(A[:, None, :] - B[None, :, :]) % 1
            if np.minimum(dd, 1 - dd).max(axis=2).min() <= 0.03:
                ok = False
                break
        if ok:
            keep.append(s)
            kept_imgs.append(A)
    sites = keep
    if not sites:
        return None, 0
    els = [Element[["C", "N", "O", "S", "Cl", "Fe"][i % 6]] for i in range(len(sites))]
    labels = [f"{els[i].symbol}{i + 1}" for i in range(len(sites))]
    pos = np.array([[float(v) for v in s[0]] for s in sites])
    if noise:
        pos = pos + rng.choice([-1.0, 1.0], size=pos.shape) * rng.uniform(5e-17, 4e-16, size=pos.shape)
    occ = np.array([s[1] for s in sites])
    cell = UnitCell.from_lengths_and_angles([7.1, 8.3, 9.7], [1.3, 1.45, 1.6])       # metric irrelevant: merging is in fractional space
    c = Crystal(cell, sg, AsymmetricUnit(els, pos, labels=labels, occupation=occ))
    uc = c.unit_cell_atoms()
    problems = []
    fp = uc["frac_pos"]
    if fp.size and (fp.min() < 0 or fp.max() >= 1):
        problems.append({"fractional_out_of_range": [float(fp.min()), float(fp.max())]})
    if not np.allclose(uc["cart_pos"], fp @ cell.direct, atol=1e-9):
        problems.append("cart_pos != frac_pos . direct")
    used = np.zeros(len(fp), dtype=bool)
    total = 0.0
    for k, (x, o) in enumerate(sites):
        orb = exact_orbit(codes, x)
        mult = len(codes) // len(orb)
        for img, gens in orb.items():
            target = np.array([float(v) for v in img])
            d = np.abs(fp - target)
            d = np.minimum(d, 1 - d).max(axis=1)
            hit = np.where((d < 1e-6) & (uc["asym_atom"] == k))[0]
            if len(hit) != 1:
                problems.append({"site": k, "image": [str(v) for v in img], "found_times": int(len(hit))})
                continue
            h = hit[0]
            used[h] = True
            if uc["element"][h] != els[k].atomic_number or uc["label"][h] != labels[k]:
                problems.append({"site": k, "wrong_element_or_label": [int(uc["element"][h]), str(uc["label"][h])]})
            if int(uc["symop"][h]) not in gens:
                problems.append({"site": k, "generator_not_mapping_to_image": int(uc["symop"][h])})
            if abs(uc["occupation"][h] - o * mult) > 1e-9:
                problems.append({"site": k, "occupancy": float(uc["occupation"][h]), "expected": o * mult})
        total += o * len(codes)
    if not used.all():
        problems.append({"extra_atoms": int((~used).sum())})
    if abs(float(uc["occupation"].sum()) - total) > 1e-8:
        problems.append({"total_occupancy": float(uc["occupation"].sum()), "expected": total})
    inp = {"setting": f"{number}:{choice}", "sites": [[str(v) for v in s[0]] for s in sites], "occupancies": [s[1] for s in sites]}
    return ({"input": inp, "observed": problems[:4], "clause": "unit_cell_atoms is the exact orbit: every distinct image once, in [0,1), right element/label/parent/generator, merged occupancy = sum",
             "key": "orbit"} if problems else None), len(sites)


def build(ctx):
    ctx.level = "other"
    ctx.explanation = ("P: apply_all_symops / ordered_symmetry_operations block layout on a symbolic instance (3 operations x 2 sites: block i is operation i applied to every "
                       "site, identity first, generator codes per block); the wrap statement of unit_cell_atoms maps every real coordinate into [0,1) by an integer shift; "
                       "unit_cell_atoms on a symbolic 2x2 instance with an exact model of the sparse distance matrix: all returned arrays are filtered by one mask, survivors are the "
                       "least index of each coincidence class, merged occupancy is the class sum, Cartesian = fractional . D. G: int32 range of all tabulated codes. "
                       "B: the real unit_cell_atoms against an exact rational orbit for general and special positions (40 seeded settings quick, all 530 thorough). "
                       "'Every distinct image exactly once' for all settings rests on C02 (group) + the merge instance + B, hence level 'other'.")
    ctx.assumptions += ["scipy sparse_distance_matrix returns exactly the pairs within the tolerance and dok.items() enumerates them in row-major order (monitored by the bounded runs)",
                        "floats are reals in the symbolic part; the statement's separation hypothesis (coincidence within tolerance is an equivalence relation)",
                        "np.fmod has the sign of the dividend (C fmod)"]
    sgmod, crmod, somod = source.load_module(SG), source.load_module(CR), source.load_module(SO)
    f_apply = ctx.fn(SG, "SpaceGroup.apply_all_symops")
    f_ord = ctx.fn(SG, "SpaceGroup.ordered_symmetry_operations")
    f_uca = ctx.fn(CR, "Crystal.unit_cell_atoms")
    ctx.fn(SO, "SymmetryOperation.apply")
    I = ctx.interp()
    SGcls, SOcls = I.class_of(sgmod, "SpaceGroup"), I.class_of(somod, "SymmetryOperation")

    # symbolic operations: op1 is the identity (tabulated position not first), op0/op2 arbitrary
    def mk_ops():
        ops = []
        for k, code in enumerate((1234567, 16484, 7654321)):
            if code == 16484:
                R = [[1, 0, 0], [0, 1, 0], [0, 0, 1]]
                t = [0, 0, 0]
            else:
                R = real_matrix(f"R{k}_", 3, 3)
                t = reals(f"t{k}_", 3)
            ops.append(Obj(SOcls, {"rotation": farr(R), "translation": farr(t), "_integer_code": code}))
        return ops
    X = real_matrix("x", 2, 3)

    def layout_replay(m):
        from chmpy.crystal import SpaceGroup
        sg = SpaceGroup(14)
        pts = np.array([[0.11, 0.23, 0.37], [0.6, 0.05, 0.9]])
        gen, tr = sg.apply_all_symops(pts)
        oo = sg.ordered_symmetry_operations()
        bad = None
        if not oo[0].is_identity():
            bad = "identity is not first"
        for i, s in enumerate(oo):
            if not np.allclose(tr[2 * i: 2 * i + 2], s.apply(pts)) or list(gen[2 * i: 2 * i + 2]) != [s.integer_code] * 2:
                bad = {"block": i}
        return {"native_inputs": {"space_group": 14, "points": pts.tolist()}, "reproduced": bad is not None, "observed": bad}

    def ob_layout():
        def thunk(I2, a, kw):
            sg = Obj(SGcls, {"symmetry_operations": mk_ops()})
            gen, tr = I2.call(I2.getattr(sg, "apply_all_symops"), [farr(X)])
            oo = I2.call(I2.getattr(sg, "ordered_symmetry_operations"), [])
            return gen, tr, oo, sg
        res = I.explore(thunk)
        assert len(res) == 1 and res[0].kind == "return", [(r.kind, r.value) for r in res]
        gen, tr, oo, sg = res[0].value
        ops = sg.fields["symmetry_operations"]
        order = [ops[1], ops[0], ops[2]]           # identity first, the others in tabulated order
        goals = [z3.BoolVal(tr.shape == (6, 3) and gen.shape == (6,))]
        goals.append(z3.BoolVal([o.fields["_integer_code"] for o in oo] == [16484, 1234567, 7654321]))
        if tr.shape == (6, 3):
            for b, op in enumerate(order):
                R, t = op.fields["rotation"].data, op.fields["translation"].data
                for s_ in range(2):
                    row = b * 2 + s_
                    goals.append(z3.BoolVal(int(gen.data[row]) == op.fields["_integer_code"]))
                    for i in range(3):
                        goals.append(z(tr.data[row, i]) == z(sum(to_real(R[i, j]) * X[s_][j] for j in range(3)) + to_real(t[i])))
        ctx.prove("space_group.SpaceGroup.apply_all_symops/ensures/block_layout", res[0].pc, conj(goals),
                  clause="3 operations x 2 sites: block 0 is the identity, block i is operation i (identity moved first, others in order) applied to every site; generator code of every row is its block's operation",
                  replay=layout_replay, fn=f_apply)
        ctx.safety("space_group.SpaceGroup.apply_all_symops", res, fn=f_apply)
    ctx.attempt("space_group.SpaceGroup.apply_all_symops/ensures/block_layout", ob_layout, replay=layout_replay, fn=f_apply)

    # engine guard: the symbolic executor on concrete groups and points agrees with CPython
    def engine_guard():
        from pyvc.crosscheck import crosscheck
        from chmpy.crystal import SpaceGroup as NSG

        def eng_sg(sg):
            return Obj(SGcls, {"symmetry_operations": [Obj(SOcls, {"rotation": farr(np.asarray(o.rotation, float).tolist()), "translation": farr(np.asarray(o.translation, float).tolist()),
                                                                   "_integer_code": int(o.integer_code)}) for o in sg.symmetry_operations]})
        pts = [[0.11, 0.23, 0.37], [0.6, -0.05, 1.9]]
        for number, choice in ((14, ""), (2, ""), (19, ""), (146, "H")):
            nsg = NSG(number, choice=choice) if choice else NSG(number)
            sg_e = eng_sg(nsg)
            fv = I.getattr(sg_e, "apply_all_symops")
            crosscheck(ctx, I, fv, lambda p_, nsg=nsg: tuple(nsg.apply_all_symops(np.array(p_))), [(pts,), (pts[:1],)], to_engine=lambda a: (farr(a[0]),),
                       label=f"SpaceGroup({number}{choice}).apply_all_symops")
    ctx.attempt("space_group.SpaceGroup.apply_all_symops/engine_guard", engine_guard)

    # G: int32 store of generator codes
    import chmpy.crystal.space_group as sgm
    mx = max(max(row.symops) for rows in sgm.SG_FROM_NUMBER.values() for row in rows)
    ctx.ground("space_group.SpaceGroup.apply_all_symops/int32_range", mx < 2 ** 31 and 34012224 < 2 ** 31, clause="every packed code (< 3^9*12^3 = 34012224) fits the int32 generator array",
               detail={"max_tabulated_code": mx})

    # ------------------------------------------------------------------ P: the wrap statement
    def wrap_replay(m):
        from chmpy.crystal import Crystal, UnitCell, SpaceGroup, AsymmetricUnit
        from chmpy import Element
        m = m or {}
        site = [float(Fraction(str(m.get(f"w{i}", d_)))) for i, d_ in enumerate(("-83/10", "1/5", "1/10"))]
        xv = site[0]
        c = Crystal(UnitCell.from_lengths_and_angles([5, 6, 7], [1.4, 1.5, 1.6]), SpaceGroup(1), AsymmetricUnit([Element["C"]], np.array([site])))
        fp = c.unit_cell_atoms()["frac_pos"]
        bad = bool(fp.min() < 0 or fp.max() >= 1)
        return {"native_inputs": {"space_group": 1, "site": site}, "reproduced": bad, "observed": {"frac_pos": fp.tolist()}}

    wrap_instance(ctx, crmod, wrap_replay)

    merge_instance(ctx, crmod)

    # F: coincidence of images is decided modulo the lattice (a periodic neighbour search over the wrapped fractional coordinates)
    import chmpy.crystal.space_group as sgm_

    def periodic_fb():
        rng_ = np.random.default_rng(77)
        for number, choice in ((2, ""), (12, "b1"), (148, "H"), (148, "R"), (166, "H"), (194, ""), (225, "")):
            for _ in range(3):
                f, n = check_setting(sgm_, number, choice, rng_, noise=True)
                if f:
                    return f
        return None
    kd_calls = [n for n in ast.walk(f_uca.node) if isinstance(n, ast.Call) and ast.unparse(n.func).split(".")[-1] in ("KDTree", "cKDTree")]
    ctx.pattern("crystal.Crystal.unit_cell_atoms/merge/periodic_neighbour_search", bool(kd_calls) and all(any(k.arg == "boxsize" for k in c_.keywords) for c_ in kd_calls),
                clause="the neighbour search that finds coincident images is periodic (boxsize over coordinates wrapped into [0,1)): images on either side of a cell face are one site",
                fallback=periodic_fb, fn=f_uca)
    bounded(ctx)


def wrap_instance(ctx, crmod, wrap_replay):
    """unit_cell_atoms on a symbolic instance with ONE site and ONE operation whose image is an arbitrary real point (no hypothesis on its range):
    the returned fractional position lies in [0, 1) and differs from the image by a lattice vector.  The whole function body is executed, so the
    obligation does not depend on how the wrap is spelled or what its locals are called."""
    f_uca = ctx.fn(CR, "Crystal.unit_cell_atoms")
    W = reals("w", 3)
    tol = z3.Real("tol")

    class _Tree:
        pass

    class _Dok:
        pass

    def kdtree_model(I2, pts, *a, **k):
        t = _Tree()
        t.pts = pts
        return t

    def sdm(I2, tree, other, max_distance=None, **k):
        dk = _Dok()
        dk.pairs = []                      # a single point: no off-diagonal pair
        return dk
    models = {"scipy.spatial.cKDTree": _MF("scipy.cKDTree", kdtree_model), "_Tree.sparse_distance_matrix": _MF("scipy.cKDTree.sparse_distance_matrix(single point)", sdm),
              "_Dok.items": _MF("dok.items row-major", lambda I2, d: list(d.pairs)),
              "_Dok.keys": _MF("dok.keys row-major", lambda I2, d: [k_ for k_, _v in d.pairs]),
              "_Dok.values": _MF("dok.values row-major", lambda I2, d: [v_ for _k, v_ in d.pairs])}
    contracts = {SG + ".SpaceGroup.apply_all_symops": Contract(result=lambda I2, self_, coords: (iarr([16484]), farr([W])))}
    I = ctx.interp(contracts=contracts, models=models)
    for k_, v_ in models.items():
        I.models[k_] = v_
    CRcls = I.class_of(crmod, "Crystal")

    def thunk(I2, a, kw):
        asym = shell(I2, "chmpy.crystal.asymmetric_unit", "AsymmetricUnit", positions=farr(real_matrix("s", 1, 3)), atomic_numbers=iarr([z3.Int("z0")]),
                     labels=NDArr(np.array(["A1"], dtype=object), "o"), properties={"occupation": farr([z3.Real("occ0")])}, elements=[None])
        sg = shell(I2, SG, "SpaceGroup", symmetry_operations=[1])
        uc = shell(I2, "chmpy.crystal.unit_cell", "UnitCell", direct=farr(real_matrix("D", 3, 3)), inverse=farr(real_matrix("V", 3, 3)))
        cr = Obj(CRcls, {"asymmetric_unit": asym, "space_group": sg, "unit_cell": uc, "properties": {}})
        return I2.call(I2.getattr(cr, "unit_cell_atoms"), [], {"tolerance": tol})

    def ob():
        res = I.explore(thunk, pre=[tol > 0])
        rets = [r for r in res if r.kind == "return"]
        if not rets:
            return ctx.undecided("crystal.Crystal.unit_cell_atoms/ensures/wrap.range", "no returning path on the one-site instance")
        for k, r in enumerate(res):
            sfx = "" if len(res) == 1 else f"/path{k}"
            if r.kind != "return":
                ctx.prove(f"crystal.Crystal.unit_cell_atoms/ensures/wrap.range{sfx}", r.pc, z3.BoolVal(False), clause="returns normally", fn=f_uca, replay=wrap_replay)
                continue
            fp = r.value["frac_pos"]
            if tuple(fp.shape) != (1, 3):
                ctx.prove(f"crystal.Crystal.unit_cell_atoms/ensures/wrap.range{sfx}", r.pc, z3.BoolVal(False), clause="one site, one operation: one returned row", fn=f_uca, replay=wrap_replay)
                continue
            out = [z(fp.data[0, c]) for c in range(3)]
            ctx.prove(f"crystal.Crystal.unit_cell_atoms/ensures/wrap.range{sfx}", r.pc, conj([z3.And(o >= 0, o < 1) for o in out]),
                      clause="for every real fractional coordinate the returned value lies in [0, 1)", replay=wrap_replay, fn=f_uca)
            ctx.prove(f"crystal.Crystal.unit_cell_atoms/ensures/wrap.lattice_shift{sfx}", r.pc, conj([o - w_ == z3.ToReal(z3.ToInt(o - w_)) for o, w_ in zip(out, W)]),
                      clause="the returned value differs from the image coordinate by an integer (same point modulo the lattice)", replay=wrap_replay, fn=f_uca)
    ctx.attempt("crystal.Crystal.unit_cell_atoms/ensures/wrap.range", ob, replay=wrap_replay, fn=f_uca)


def merge_instance(ctx, crmod):
    """unit_cell_atoms on a symbolic instance: 2 sites x 2 operations, exact sparse-distance model with row-major items()."""
    f_uca = ctx.fn(CR, "Crystal.unit_cell_atoms")
    UP = real_matrix("u", 4, 3)          # positions after apply_all_symops (already in [0,1): hypothesis)
    occ = reals("occ", 2)
    D = real_matrix("D", 3, 3)
    tol = z3.Real("tol")

    class _Tree:
        pass

    class _Dok:
        pass

    def kdtree_model(I2, pts, *a, **k):
        t = _Tree()
        t.pts = pts
        return t

    COIN = {(i, j): z3.Bool(f"coincide_{i}{j}") for i in range(4) for j in range(i + 1, 4)}

    def sdm(I2, tree, other, max_distance=None, **k):
        """Exact-model of sparse_distance_matrix: which pairs are within the tolerance is an arbitrary symmetric relation
        (one Boolean per unordered pair); items() enumerates the stored pairs in row-major order."""
        n = tree.pts.shape[0]
        items = []
        dec = {}
        for i in range(n):
            for j in range(n):
                if i == j:
                    continue
                key = (min(i, j), max(i, j))
                if key not in dec:
                    dec[key] = I2.decide(COIN[key])
                if dec[key]:
                    items.append(((i, j), z3.Real(f"dist{i}{j}")))
        dk = _Dok()
        dk.pairs = items
        I2.sdm_decisions = dict(dec)
        return dk
    models = {"scipy.spatial.cKDTree": _MF("scipy.cKDTree", kdtree_model), "_Tree.sparse_distance_matrix": _MF("scipy.cKDTree.sparse_distance_matrix(exact, row-major items)", sdm),
              "_Dok.items": _MF("dok.items row-major", lambda I2, d: list(d.pairs)),
              "_Dok.keys": _MF("dok.keys row-major", lambda I2, d: [k_ for k_, _v in d.pairs]),
              "_Dok.values": _MF("dok.values row-major", lambda I2, d: [v_ for _k, v_ in d.pairs])}

    def apply_all(I2, self_, coords):
        return (iarr([16484, 16484, 4242, 4242]), farr(UP))
    contracts = {SG + ".SpaceGroup.apply_all_symops": Contract(result=apply_all)}
    I = ctx.interp(contracts=contracts, models=models)
    for k_, v_ in models.items():
        I.models[k_] = v_
    CRcls = I.class_of(crmod, "Crystal")
    sgmod = source.load_module(SG)

    def thunk(I2, a, kw):
        asym = shell(I2, "chmpy.crystal.asymmetric_unit", "AsymmetricUnit", positions=farr(real_matrix("s", 2, 3)), atomic_numbers=iarr([z3.Int("z0"), z3.Int("z1")]),
                     labels=NDArr(np.array(["A1", "B1"], dtype=object), "o"), properties={"occupation": farr(occ)}, elements=[None, None])
        sg = shell(I2, SG, "SpaceGroup", symmetry_operations=[1, 2])
        uc = shell(I2, "chmpy.crystal.unit_cell", "UnitCell", direct=farr(D), inverse=farr(real_matrix("V", 3, 3)))
        cr = Obj(CRcls, {"asymmetric_unit": asym, "space_group": sg, "unit_cell": uc, "properties": {}})
        out = I2.call(I2.getattr(cr, "unit_cell_atoms"), [], {"tolerance": tol})
        return out, dict(I2.sdm_decisions)
    in_cell = [z3.And(UP[i][c] >= 0, UP[i][c] < 1) for i in range(4) for c in range(3)]

    def special_replay(m=None):
        import chmpy.crystal.space_group as sgm
        rng = np.random.default_rng(21)
        for number, choice in ((2, ""), (12, "b1"), (136, ""), (221, ""), (225, ""), (194, "")):
            try:
                f, n = check_setting(sgm, number, choice, rng)
            except Exception as e:  # noqa
                f = {"input": {"setting": f"{number}:{choice}"}, "observed": repr(e)[:200]}
            if f:
                return {"native_inputs": f["input"], "reproduced": True, "observed": f["observed"]}
        return {"native_inputs": "special and general positions in settings 2, 12, 136, 221, 225, 194", "reproduced": False, "observed": "exact orbit reproduced"}

    def ob():
        co = lambda a_, b_: COIN[(min(a_, b_), max(a_, b_))]
        transitive = [z3.Implies(z3.And(co(a_, b_), co(b_, c_)), co(a_, c_)) for a_ in range(4) for b_ in range(4) for c_ in range(4) if len({a_, b_, c_}) == 3]
        res = I.explore(thunk, pre=[tol > 0] + in_cell + transitive)
        n_ok = 0
        for k, r in enumerate(res):
            if r.kind != "return":
                ctx.prove(f"crystal.Crystal.unit_cell_atoms/ensures/merge_instance/path{k}", r.pc, z3.BoolVal(False), clause="returns normally", fn=f_uca)
                continue
            out, within = r.value                  # within[(i, j)]: the coincidence relation decided on this path (i < j)
            fp = out["frac_pos"].data
            # survivors are identified by their (parent site, generator) pair, which is distinct for the four rows of this instance
            pairs = list(zip([int(v) for v in out["asym_atom"].flat()], [int(v) for v in out["symop"].flat()]))
            allrows = [(0, 16484), (1, 16484), (0, 4242), (1, 4242)]
            if any(p_ not in allrows for p_ in pairs):
                ctx.prove(f"crystal.Crystal.unit_cell_atoms/ensures/merge_instance/path{k}", r.pc, z3.BoolVal(False),
                          clause="every returned row carries the parent index and generator of one of the four images", fn=f_uca)
                continue
            surv = [allrows.index(p_) for p_ in pairs]
            # the statement's hypothesis: coincidence is an equivalence relation (transitive) — skip paths where it is not
            trans = all(not (within.get((min(a_, b_), max(a_, b_))) and within.get((min(b_, c_), max(b_, c_)))) or within.get((min(a_, c_), max(a_, c_)))
                        for a_ in range(4) for b_ in range(4) for c_ in range(4) if len({a_, b_, c_}) == 3)
            if not trans:
                continue
            classes = []
            for i in range(4):
                for cl in classes:
                    if within.get((min(cl[0], i), max(cl[0], i))):
                        cl.append(i)
                        break
                else:
                    classes.append([i])
            want = [cl[0] for cl in classes]
            if __import__("os").environ.get("C01_DEBUG"):
                print("path", k, "within", within, "surv", surv, "want", want, "classes", classes)
            goals = [z3.BoolVal(surv == want)]
            n_arr = len(want)
            goals.append(z3.BoolVal(all(np.asarray(out[kk].data).shape[0] == n_arr for kk in ("asym_atom", "frac_pos", "element", "symop", "label", "occupation", "cart_pos"))))
            if surv == want:
                for pos_, cl in enumerate(classes):
                    row = cl[0]
                    goals.append(z(out["occupation"].data[pos_]) == sum(occ[i % 2] for i in cl))
                    goals += [z(fp[pos_, c]) == UP[row][c] for c in range(3)]
                    goals.append(z(out["element"].data[pos_]) == z3.Int(f"z{row % 2}"))
                    goals.append(z3.BoolVal(str(out["label"].data[pos_]) == ["A1", "B1"][row % 2]))
                    goals += [z(out["cart_pos"].data[pos_, c]) == sum(UP[row][kk] * D[kk][c] for kk in range(3)) for c in range(3)]
            n_ok += 1
            ctx.prove(f"crystal.Crystal.unit_cell_atoms/ensures/merge_instance/path{k}", r.pc, conj(goals),
                      clause="2 sites x 2 operations, any coincidence pattern that is an equivalence relation: survivors are the least row of each class, every returned array is "
                             "filtered by the same rows, merged occupancy is the class sum, element/label/parent/generator are the survivor's, Cartesian = fractional . D",
                      fn=f_uca, replay=special_replay)
        if n_ok == 0:
            ctx.undecided("crystal.Crystal.unit_cell_atoms/ensures/merge_instance", "no path with an equivalence coincidence relation")
    ctx.attempt("crystal.Crystal.unit_cell_atoms/ensures/merge_instance", ob)


def bounded(ctx):
    import chmpy.crystal.space_group as sgm
    rng = np.random.default_rng(ctx.seed + 1)
    settings = sorted((int(k), row.choice) for k, rows in sgm.SG_FROM_NUMBER.items() for row in rows)
    if ctx.tier == "quick":
        must = [(1, ""), (2, ""), (14, "b1"), (62, ""), (143, ""), (148, "H"), (148, "R"), (167, "H"), (194, ""), (221, ""), (225, ""), (227, "1"), (227, "2"), (230, "")]
        must = [s for s in must if s in settings]
        pick = [settings[int(i)] for i in rng.choice(len(settings), size=40 - len(must), replace=False)]
        todo = must + pick
    else:
        todo = settings
    fails, evals, nsites = [], 0, 0
    for number, choice in todo:
        for noise in (False, True):
            try:
                f, n = check_setting(sgm, number, choice, rng, noise=noise)
            except Exception as e:  # noqa
                f, n = {"input": {"setting": f"{number}:{choice}"}, "observed": {"exception": repr(e)[:300]}, "clause": "unit_cell_atoms runs", "key": "exception"}, 1
            evals += 1
            nsites += n
            if f and noise:
                f = dict(f, input=dict(f.get("input", {}), coordinates="given with rounding-level noise (a few 1e-16)"))
            if f and len(fails) < 3:
                fails.append(f)
    ctx.add_bounded("crystal.Crystal.unit_cell_atoms/bounded/exact_orbit", f"{len(todo)} settings ({'seeded sample incl. trigonal/hexagonal/cubic' if ctx.tier == 'quick' else 'all 530'}) x general positions "
                    "(inside and outside the cell) + exact special positions with fractional occupancies, each also with rounding-level noise (a few 1e-16) on the given coordinates, compared with an exact rational orbit", evals, nsites, fails,
                    rule="sites checked (distinct orbits)")

    # coordinates handed over as Python ints / an integer array (e.g. a site at the origin written [[0, 0, 0]]): the images must not be truncated
    from chmpy.crystal import Crystal, UnitCell, SpaceGroup, AsymmetricUnit
    from chmpy import Element
    fails2, ev2 = [], 0
    cell = UnitCell.from_lengths_and_angles([7.1, 8.3, 9.7], [1.3, 1.45, 1.6])
    for number, choice in [s_ for s_ in todo if s_[0] in (2, 5, 14, 62, 146, 148, 167, 194, 221, 225, 227, 229, 230)] + [(225, ""), (229, ""), (62, ""), (148, "H")]:
        sg = SpaceGroup(number, choice=choice)
        codes = [int(s_.integer_code) for s_ in sg.symmetry_operations]
        for site in ([0, 0, 0], [1, 0, 0], [0, 1, -1]):
            want = len(exact_orbit(codes, tuple(Fraction(v) for v in site)))
            for arr in (np.array([site]), np.array([site], dtype=np.int32)):
                ev2 += 1
                try:
                    got = len(Crystal(cell, sg, AsymmetricUnit([Element["Cu"]], arr)).unit_cell_atoms()["element"])
                    ref = len(Crystal(cell, sg, AsymmetricUnit([Element["Cu"]], arr.astype(float))).unit_cell_atoms()["element"])
                except Exception as e:  # noqa
                    got, ref = repr(e)[:120], None
                if (got != want or ref != want) and len(fails2) < 2:
                    fails2.append({"input": {"setting": f"{number}:{choice}", "site": site, "dtype": str(arr.dtype)}, "observed": {"atoms": got, "with_float_coordinates": ref, "distinct_images": want},
                                   "clause": "a site given with integer-typed coordinates has the same images as with float coordinates", "key": "integer_coordinates"})
    ctx.add_bounded("crystal.Crystal.unit_cell_atoms/bounded/integer_typed_coordinates", "sites (0,0,0), (1,0,0), (0,1,-1) given as int64 / int32 arrays in centred and primitive settings: atom count equals the "
                    "number of distinct images", ev2, ev2, fails2, rule="(setting, site, dtype)")

    # an asymmetric unit with several hundred sites (index arrays must not be narrower than the site count): every returned atom is the image of the site it names under
    # the operation it names, and every (site, operation) pair occurs once
    from chmpy.crystal.symmetry_operation import SymmetryOperation as _SO
    fails3, ev3 = [], 0
    rng3 = np.random.default_rng(ctx.seed + 303)
    for number, nsite in ((2, 300), (14, 270)):
        sg = SpaceGroup(number)
        big = UnitCell.from_lengths_and_angles([41.0, 43.0, 47.0], [1.45, 1.6, 1.5])
        pos = rng3.uniform(0.01, 0.99, (nsite + 500, 3))
        # keep only sites all of whose images are well separated (0.03 in every fractional coordinate, periodic) from every other image: nothing is to be merged
        from scipy.spatial import cKDTree as _KD
        imgs = np.vstack([s_.apply(pos) % 1.0 for s_ in sg.symmetry_operations])
        owner = np.tile(np.arange(len(pos)), len(sg.symmetry_operations))
        close_pairs = _KD(imgs, boxsize=1.0).query_pairs(0.06)
        drop = {int(max(owner[a_], owner[b_])) for a_, b_ in close_pairs} | {int(owner[a_]) for a_, b_ in close_pairs if owner[a_] == owner[b_]}
        pos = pos[[k for k in range(len(pos)) if k not in drop]][:nsite]
        nsite = len(pos)
        els = [Element[["C", "N", "O", "S", "Cl", "Fe", "H"][i % 7]] for i in range(nsite)]
        try:
            uc = Crystal(big, sg, AsymmetricUnit(els, pos, labels=[f"{e.symbol}{i}" for i, e in enumerate(els)])).unit_cell_atoms()
            par, ops, fp = np.asarray(uc["asym_atom"]).astype(int), np.asarray(uc["symop"]).astype(int), np.asarray(uc["frac_pos"], dtype=float)
            prob = None
            if len(par) != nsite * len(sg.symmetry_operations) or len(set(zip(par.tolist(), ops.tolist()))) != len(par):
                prob = {"atoms": int(len(par)), "distinct (site, operation) pairs": len(set(zip(par.tolist(), ops.tolist()))), "expected": nsite * len(sg.symmetry_operations)}
            else:
                for code in sorted(set(ops.tolist())):
                    sel = ops == code
                    if par[sel].max() >= nsite or par[sel].min() < 0:
                        prob = {"parent_index_out_of_range": int(par[sel].max())}
                        break
                    img = _SO.from_integer_code(code).apply(pos[par[sel]])
                    d = np.abs(fp[sel] - img % 1.0)
                    d = np.minimum(d, 1 - d).max()
                    wrong_el = np.asarray(uc["element"])[sel] != np.array([els[k].atomic_number for k in par[sel]])
                    if d > 1e-9 or wrong_el.any():
                        prob = {"operation": code, "max |frac_pos - op(site[asym_atom])| (mod 1)": float(d), "atoms_with_the_wrong_element_for_their_parent": int(wrong_el.sum())}
                        break
        except Exception as e:  # noqa
            prob = {"exception": repr(e)[:200]}
        ev3 += nsite
        if prob:
            fails3.append({"input": {"setting": str(number), "sites": nsite, "positions": f"default_rng({ctx.seed + 303}).uniform(0.01, 0.99), sites with images closer than 0.06 dropped"}, "observed": prob,
                           "clause": "every unit-cell atom is the image of asymmetric-unit site asym_atom under operation symop, with that site's element", "key": "large_asymmetric_unit"})
    ctx.add_bounded("crystal.Crystal.unit_cell_atoms/bounded/large_asymmetric_unit", "300 sites in P-1 and 270 sites in P2_1/c on general positions: parent index, generator and element of every returned atom", ev3, ev3, fails3, rule="sites")

