"""Native side of the C09 check: tracer of the real descriptor pipeline (run-time contract on the internal dataflow, also used to
replay refuted P obligations), generators of small molecules / interior-exterior partitions / rigid motions, and the bounded
metamorphic stand-ins (pose and permutation invariance, root-finder conformance, entry points).

Everything here imports and runs the REAL chmpy code; nothing in this file is counted as proved."""
import contextlib
import warnings

import numpy as np

warnings.filterwarnings("ignore", category=SyntaxWarning)

# tolerances -------------------------------------------------------------------------------------------------------------------
# exact symmetries of the pipeline (translation, atom order): the only differences allowed are float32 rounding of the coordinates
# handed to the kernel (|x| <= ~20 A -> 2.4e-6 A) and the root finder's absolute x-tolerance (xtol = 1e-5 A in _density.pyx);
# a radius error of 1e-5 A on radii of 1..8 A changes N_0 = sqrt(4 pi) <r> by <= ~5e-6 relative.  1e-4 leaves a factor 20.
TOL_PERM = 5e-6       # re-ordering the atoms changes only the order of float32 / float64 sums: measured <= 3e-8 (isolated) and a few 1e-7 (30-atom shells)
TOL_EXACT = 1e-4
# rotation: the statement allows "a discretisation error that shrinks as the maximum degree grows" but gives no number.  The caps
# below are engineering thresholds (NOT derived from the statement): ~3-4x the largest normalised error (desc_err) seen on the
# unchanged tree over the thorough domain (promolecule surfaces: 6.9e-3 / 1.1e-3 / 2.2e-4, Hirshfeld surfaces, which have creases:
# 5.1e-2 / 7.2e-3 / 3.2e-3 for l_max 4 / 8 / 12); a broken pipeline (wrong origin, wrong grid layout, unexpanded coefficients)
# moves the vector by 0.1 .. 3 in the same measure.
ROT_CAP = {4: 0.15, 8: 0.025, 12: 0.012}


def rotation_matrix(rng):
    q = rng.normal(size=4)
    q /= np.linalg.norm(q)
    a, b, c, d = q
    return np.array([[a * a + b * b - c * c - d * d, 2 * (b * c - a * d), 2 * (b * d + a * c)],
                     [2 * (b * c + a * d), a * a - b * b + c * c - d * d, 2 * (c * d - a * b)],
                     [2 * (b * d - a * c), 2 * (c * d + a * b), a * a - b * b - c * c + d * d]])


# ---------------------------------------------------------------------------------------------------------------------------------
# systems
# ---------------------------------------------------------------------------------------------------------------------------------
TEMPLATES = {
    "water": ([8, 1, 1], [[0.0, 0.0, 0.117], [0.0, 0.757, -0.469], [0.0, -0.757, -0.469]]),
    "acetic_acid": ([6, 6, 8, 8, 1, 1, 1, 1], [[0.0, 0.0, 0.0], [1.50, 0.0, 0.0], [2.15, 1.05, 0.0], [2.10, -1.15, 0.1], [-0.4, 1.0, 0.2],
                                               [-0.4, -0.5, 0.9], [-0.4, -0.5, -0.9], [3.05, -1.0, 0.1]]),
    "methanol": ([6, 8, 1, 1, 1, 1], [[0.0, 0.0, 0.0], [1.42, 0.0, 0.0], [-0.36, 1.03, 0.0], [-0.36, -0.51, 0.89], [-0.36, -0.51, -0.89], [1.75, 0.9, 0.0]]),
    "formamide": ([6, 8, 7, 1, 1, 1], [[0.0, 0.0, 0.0], [1.22, 0.0, 0.0], [-0.72, 1.15, 0.0], [-0.55, -0.95, 0.0], [-1.73, 1.12, 0.0], [-0.25, 2.04, 0.0]]),
    "hcl_pair": ([17, 1, 9, 1], [[0.0, 0.0, 0.0], [1.28, 0.0, 0.0], [3.1, 0.3, 0.2], [3.9, 0.6, 0.1]]),
    # an element without electronegativity-equalisation parameters of its own (the charge model falls back to generic ones): the esp channel must still not depend on atom order
    "methaneselenol": ([6, 34, 1, 1, 1, 1], [[0.0, 0.0, 0.0], [1.95, 0.0, 0.0], [-0.36, 1.03, 0.0], [-0.36, -0.51, 0.89], [-0.36, -0.51, -0.89], [2.35, 1.40, 0.1]]),
    "h2s": ([16, 1, 1], [[0.0, 0.0, 0.1], [0.0, 0.97, -0.82], [0.0, -0.97, -0.82]]),
}


def random_cluster(rng, n, elements=(1, 1, 1, 6, 6, 7, 8, 8, 9, 16, 17)):
    """Compact connected cluster: each new atom 1.0-1.6 A from an existing one and >= 0.9 A from all."""
    pos = [np.zeros(3)]
    while len(pos) < n:
        base = pos[rng.integers(len(pos))]
        v = rng.normal(size=3)
        cand = base + v / np.linalg.norm(v) * rng.uniform(1.0, 1.6)
        if min(np.linalg.norm(cand - p) for p in pos) >= 0.9:
            pos.append(cand)
    Z = rng.choice(elements, size=n)
    return np.array(Z, dtype=int), np.array(pos)


def random_shell(rng, centre_pos, n, rmin=2.6, rmax=5.5, elements=(1, 1, 6, 7, 8, 8)):
    """Exterior atoms surrounding the interior in every direction (>= rmin from every interior atom, >= 1.0 A apart)."""
    c = centre_pos.mean(axis=0)
    out = []
    dirs = rng.normal(size=(n * 6, 3))
    dirs /= np.linalg.norm(dirs, axis=1)[:, None]
    # stratify: first the 14 cube directions so that no octant is empty, then random ones
    base = [np.array(v, dtype=float) for v in [(1, 0, 0), (-1, 0, 0), (0, 1, 0), (0, -1, 0), (0, 0, 1), (0, 0, -1)] +
            [(sx, sy, sz) for sx in (1, -1) for sy in (1, -1) for sz in (1, -1)]]
    base = [b / np.linalg.norm(b) for b in base]
    for d in base + list(dirs):
        if len(out) >= n:
            break
        ext = np.linalg.norm(centre_pos - c, axis=1).max()
        cand = c + d * (ext + rng.uniform(rmin, rmax))
        if np.linalg.norm(centre_pos - cand, axis=1).min() < rmin:
            continue
        if out and min(np.linalg.norm(cand - p) for p in out) < 1.0:
            continue
        out.append(cand)
    return np.array(rng.choice(elements, size=len(out)), dtype=int), np.array(out)


_CRYSTALS = {}


def crystal(name):
    if name not in _CRYSTALS:
        import io
        import logging
        from contextlib import redirect_stdout
        with redirect_stdout(io.StringIO()):
            from chmpy.tests import TEST_FILES
        from chmpy.crystal import Crystal
        logging.getLogger("chmpy").setLevel(logging.ERROR)
        _CRYSTALS[name] = Crystal.load(TEST_FILES[name])
    return _CRYSTALS[name]


def systems(seed, tier):
    """-> (isolated, partitioned): lists of dict(name, Zi, Pi[, Ze, Pe])."""
    rng = np.random.default_rng(seed + 901)
    iso, part = [], []
    names = list(TEMPLATES) if tier != "quick" else ["water", "acetic_acid", "formamide", "hcl_pair", "methaneselenol"]
    for nm in names:
        Z, P = TEMPLATES[nm]
        iso.append({"name": nm, "Zi": np.array(Z), "Pi": np.array(P, dtype=float)})
    for k in range(4 if tier == "quick" else 14):
        Z, P = random_cluster(rng, int(rng.integers(2, 9)))
        iso.append({"name": f"cluster{k}", "Zi": Z, "Pi": P})
    # interior / exterior partitions: generated shells ...
    for k in range(3 if tier == "quick" else 10):
        Z, P = random_cluster(rng, int(rng.integers(1, 7)))
        Ze, Pe = random_shell(rng, P, int(rng.integers(18, 30)))
        part.append({"name": f"shell{k}", "Zi": Z, "Pi": P, "Ze": Ze, "Pe": Pe})
    # ... and real crystal environments (molecule in crystal, atom in crystal)
    for cname in (("acetic_acid.cif",) if tier == "quick" else ("acetic_acid.cif", "iceII.cif")):
        c = crystal(cname)
        envs = c.molecule_environments(radius=6.0)
        for j, (mol, ne, npos) in enumerate(envs[: 1 if tier == "quick" else 3]):
            part.append({"name": f"{cname}:mol{j}", "Zi": np.array(mol.atomic_numbers), "Pi": np.array(mol.positions), "Ze": np.array(ne), "Pe": np.array(npos)})
        sur = c.atomic_surroundings(radius=6.0)
        for j in ((0, 2) if tier == "quick" else range(min(6, len(sur)))):
            s = sur[j]
            part.append({"name": f"{cname}:atom{j}", "Zi": np.array([s["centre"]["element"]]), "Pi": np.array([s["centre"]["cart_pos"]]),
                         "Ze": np.array(s["neighbours"]["element"]), "Pe": np.array(s["neighbours"]["cart_pos"]), "atomic": True})
    return iso, part


# ---------------------------------------------------------------------------------------------------------------------------------
# tracer: run the real descriptor with recorders around its internal calls
# ---------------------------------------------------------------------------------------------------------------------------------
class Trace:
    def __init__(self):
        self.radii = None          # dict(origin, grid, l, u, tol, max_iter, isovalue, result, handle)
        self.analysis_in = None
        self.analysis_out = None
        self.expand = None         # (l_max, coeffs_in, out)
        self.mkinv = None          # (l_max, coeffs, kinds, out)
        self.sample_points = []    # arrays handed to the property function
        self.prop_owner = None     # object whose d_norm / electrostatic_potential was evaluated
        self.prop_values = []
        self.ctor = None           # arguments of the density constructor
        self.error = None
        self.result = None


@contextlib.contextmanager
def patched(obj, name, new):
    old = getattr(obj, name)
    setattr(obj, name, new)
    try:
        yield
    finally:
        setattr(obj, name, old)


def trace_descriptor(kind, sht, Zi, Pi, Ze=None, Pe=None, **kwargs):
    """Run promolecule_density_descriptor / stockholder_weight_descriptor natively with recorders on every internal hand-over."""
    import chmpy.shape.shape_descriptors as sd
    import chmpy.interpolate.density as dens
    from chmpy import Molecule
    tr = Trace()
    kname = "sphere_promolecule_radii" if kind == "promolecule" else "sphere_stockholder_radii"
    real_radii = getattr(sd, kname)

    def rec_radii(handle, o, g, l, u, tol, it, iso):
        out = real_radii(handle, o, g, l, u, tol, it, iso)
        tr.radii = dict(handle=handle, origin=np.array(o), grid=np.array(g), l=l, u=u, tol=tol, max_iter=it, isovalue=iso, result=np.array(out))
        return out
    real_expand, real_mkinv, real_analysis = sd.expand_coeffs_to_full, sd.make_invariants, sht.analysis

    def rec_expand(l_max, c):
        out = real_expand(l_max, c)
        tr.expand = (l_max, np.array(c), np.array(out))
        return out

    def rec_mkinv(l_max, c, kinds="NP"):
        out = real_mkinv(l_max, c, kinds=kinds)
        tr.mkinv = (l_max, np.array(c), kinds, np.array(out))
        return out

    def rec_analysis(values):
        out = real_analysis(values)
        tr.analysis_in, tr.analysis_out = np.array(values), np.array(out)
        return out
    real_dnorm_p, real_dnorm_s, real_esp = dens.PromoleculeDensity.d_norm, dens.StockholderWeight.d_norm, Molecule.electrostatic_potential
    depth = {"n": 0}

    def rec_pts(real, top_only=False):
        def f(self, pts):
            if not (top_only and depth["n"]):
                tr.sample_points.append(np.array(pts))
                if tr.prop_owner is None:
                    tr.prop_owner = self
            depth["n"] += 1
            try:
                out = real(self, pts)
            finally:
                depth["n"] -= 1
            return out
        return f
    prop = kwargs.get("with_property")
    if callable(prop):
        user = prop

        def rec_prop(pts):
            tr.sample_points.append(np.array(pts))
            return user(pts)
        kwargs = dict(kwargs, with_property=rec_prop)
    with contextlib.ExitStack() as st:
        st.enter_context(patched(sd, kname, rec_radii))
        st.enter_context(patched(sd, "expand_coeffs_to_full", rec_expand))
        st.enter_context(patched(sd, "make_invariants", rec_mkinv))
        sht.analysis = rec_analysis
        if prop == "d_norm":
            if kind == "promolecule":
                st.enter_context(patched(dens.PromoleculeDensity, "d_norm", rec_pts(real_dnorm_p)))
            else:
                st.enter_context(patched(dens.StockholderWeight, "d_norm", rec_pts(real_dnorm_s)))
        if prop == "esp":
            st.enter_context(patched(Molecule, "electrostatic_potential", rec_pts(real_esp)))
        try:
            if kind == "promolecule":
                tr.result = sd.promolecule_density_descriptor(sht, Zi, Pi, **kwargs)
            else:
                tr.result = sd.stockholder_weight_descriptor(sht, Zi, Pi, Ze, Pe, **kwargs)
        except ValueError as e:
            tr.error = e
        finally:
            del sht.analysis
    return tr


def grid_directions(sht):
    th, ph = sht.grid
    return np.stack([np.sin(th) * np.cos(ph), np.sin(th) * np.sin(ph), np.cos(th)], axis=-1).reshape(-1, 3)


def dataflow_clauses(kind, sht, tr, Zi, Pi, Ze=None, Pe=None, **kwargs):
    """The clauses of the dataflow contract evaluated on one native trace -> {clause: (ok, observed)}."""
    out = {}
    L = sht.lmax
    if tr.radii is None:
        return {"kernel_called": (False, f"root finder not called; error={tr.error!r}")}
    o = tr.radii["origin"].astype(float)
    Pi = np.asarray(Pi, dtype=float)
    if "origin" in kwargs:
        out["origin"] = (bool(np.allclose(o, np.asarray(kwargs["origin"], dtype=float), atol=1e-6)), {"origin_used": o.tolist()})
    else:
        c = Pi.mean(axis=0)
        out["origin"] = (bool(np.allclose(o, c, atol=1e-5 * max(1.0, np.abs(c).max()))), {"origin_used": o.tolist(), "centroid_of_interior": c.tolist()})
    h = tr.radii["handle"]
    try:
        if kind == "promolecule":
            ok = bool(np.allclose(np.asarray(h.positions), Pi, atol=1e-5 * max(1.0, np.abs(Pi).max())))
        else:
            Pe_ = np.asarray(Pe, dtype=float)
            ok = bool(np.asarray(h.dens_a.positions).shape == Pi.shape and np.allclose(np.asarray(h.dens_a.positions), Pi, atol=1e-5 * max(1.0, np.abs(Pi).max())) and
                      np.asarray(h.dens_b.positions).shape == Pe_.shape and np.allclose(np.asarray(h.dens_b.positions), Pe_, atol=1e-5 * max(1.0, np.abs(Pe_).max())))
        out["density_atoms"] = (ok, {})
    except Exception as e:  # noqa
        out["density_atoms"] = (False, repr(e))
    g = tr.radii["grid"].astype(float)
    gd = grid_directions(sht)
    out["grid_directions"] = (g.shape == gd.shape and bool(np.allclose(g, gd, atol=1e-6)), {"max_dev": float(np.abs(g - gd).max()) if g.shape == gd.shape else str(g.shape)})
    if "bounds" in kwargs:
        lo, hi = kwargs["bounds"]
        out["bounds"] = (bool(np.isclose(tr.radii["l"], lo, rtol=1e-6) and np.isclose(tr.radii["u"], hi, rtol=1e-6)), {"l": float(tr.radii["l"]), "u": float(tr.radii["u"])})
    else:
        out["bounds"] = (bool(0 < tr.radii["l"] < tr.radii["u"]), {"l": float(tr.radii["l"]), "u": float(tr.radii["u"])})
    if "isovalue" in kwargs:
        out["isovalue"] = (bool(np.isclose(tr.radii["isovalue"], kwargs["isovalue"], rtol=1e-6)), {"isovalue": float(tr.radii["isovalue"])})
    r = tr.radii["result"]
    neg = bool(np.any(r < 0))
    out["error_iff_negative_radius"] = (neg == (tr.error is not None), {"any_negative_radius": neg, "raised": repr(tr.error)})
    if tr.error is not None:
        return out
    shape = sht.grid[0].shape
    vin = tr.analysis_in
    out["radial_function_layout"] = (vin is not None and vin.shape == shape and bool(np.allclose(np.real(vin), r.reshape(shape))), {"analysis_input_shape": None if vin is None else list(vin.shape)})
    prop = kwargs.get("with_property")
    if prop is not None:
        expected = o[None, :] + r[:, None] * g
        if not tr.sample_points:
            out["property_sampled_on_surface"] = (False, "property function never called")
        else:
            pts = tr.sample_points[0].astype(float)
            ok = pts.shape == expected.shape and bool(np.allclose(pts, expected, atol=1e-4))
            out["property_sampled_on_surface"] = (ok, {"max_distance_from_surface_point": float(np.linalg.norm(pts - expected, axis=1).max()) if pts.shape == expected.shape else str(pts.shape),
                                                       "origin_used_for_radii": o.tolist()})
        ow = tr.prop_owner
        if prop in ("d_norm", "esp"):
            try:
                pos = np.asarray(ow.positions if (prop == "esp" or kind == "promolecule") else ow.dens_a.positions, dtype=float)
                okp = pos.shape == Pi.shape and bool(np.allclose(pos, Pi, atol=1e-5 * max(1.0, np.abs(Pi).max())))
                out["property_of_interior"] = (okp, {"atoms_of_property_object": int(pos.shape[0]), "interior_atoms": int(Pi.shape[0])})
            except Exception as e:  # noqa
                out["property_of_interior"] = (False, repr(e))
        out["property_in_imaginary_channel"] = (vin is not None and np.iscomplexobj(vin), {"complex_input": bool(vin is not None and np.iscomplexobj(vin))})
    # coefficients handed to the invariants: the full (L+1)^2 layout of the analysed function
    from chmpy.shape._sht import expand_coeffs_to_full
    c_in = tr.mkinv[1] if tr.mkinv else None
    if c_in is None:
        out["coefficients_full_layout"] = (False, "make_invariants not called")
    else:
        want = tr.analysis_out if np.iscomplexobj(vin) else expand_coeffs_to_full(L, tr.analysis_out)
        ok = c_in.shape == ((L + 1) ** 2,) and want.shape == c_in.shape and bool(np.allclose(c_in, want))
        out["coefficients_full_layout"] = (ok, {"len_passed": int(c_in.shape[0]), "expected_len": (L + 1) ** 2, "analysis_kind": "complex" if np.iscomplexobj(vin) else "real",
                                                "expanded": tr.expand is not None})
        out["l_max_forwarded"] = (tr.mkinv[0] == L, {"l_max": tr.mkinv[0]})
        res = tr.result
        inv = res[1] if kwargs.get("coefficients") else res
        ok = bool(np.allclose(inv, tr.mkinv[3], equal_nan=True))
        if kwargs.get("coefficients"):
            ok = ok and bool(np.allclose(res[0], tr.analysis_out))
        out["result_is_invariants"] = (ok, {})
    return out


# ---------------------------------------------------------------------------------------------------------------------------------
# bounded stand-ins
# ---------------------------------------------------------------------------------------------------------------------------------
def _descr(kind, sht, s, prop=None, R=None, t=None, perm_i=None, perm_e=None):
    from chmpy.shape import promolecule_density_descriptor, stockholder_weight_descriptor
    Zi, Pi = s["Zi"], s["Pi"]
    Ze, Pe = s.get("Ze"), s.get("Pe")
    if R is not None:
        Pi = Pi @ R.T + t
        Pe = None if Pe is None else Pe @ R.T + t
    probe = Pi[0].copy()              # the atom that is first in the ORIGINAL order, in the moved frame
    if perm_i is not None:
        Zi, Pi = Zi[perm_i], Pi[perm_i]
    if perm_e is not None and Pe is not None:
        Ze, Pe = Ze[perm_e], Pe[perm_e]
    kw = {}
    if prop == "callable":
        kw["with_property"] = lambda pts: np.linalg.norm(pts - probe, axis=1)     # a property that moves with the molecule, O(1) A in size
    elif prop is not None:
        kw["with_property"] = prop
    if kind == "promolecule":
        return promolecule_density_descriptor(sht, Zi, Pi, **kw)
    if s.get("atomic"):
        from chmpy.core.element import Element
        kw["bounds"] = (0.15, Element.from_atomic_number(int(Zi[0])).vdw_radius * 3 + 2.0)
    else:
        c = np.mean(Pi, axis=0).astype(np.float32)
        d = np.linalg.norm(Pi - c, axis=1)
        kw["origin"] = c
        kw["bounds"] = (np.min(d) / 2, np.max(d) + 10.0)
    return stockholder_weight_descriptor(sht, Zi, Pi, Ze, Pe, **kw)


def relerr(a, b):
    a, b = np.asarray(a, dtype=float), np.asarray(b, dtype=float)
    if a.shape != b.shape or not (np.all(np.isfinite(a)) and np.all(np.isfinite(b))):
        return float("inf")
    return float(np.abs(a - b).max() / max(1e-12, np.abs(a).max()))


def desc_err(a, b, L):
    """Distance between two 'NP' descriptor vectors of degree L, normalised so that a relative perturbation tau of the harmonic
    coefficients gives a value of about tau in EVERY entry:
      N entries (the first L+1, linear in the coefficients):   |dN| / S,            S   = max N
      P entries (cube roots of cubic forms in the coefficients of degree >= 1; the kernel returns cbrt|P_raw|, which is not Lipschitz
      at 0, so entries that vanish by symmetry turn rounding noise 1e-8 into 2e-3): compared BEFORE the cube root,
                                                              |d(P^3)| / (3 S_P^2 S),  S_P = max(N_1.., 1e-3 S)
    (first-order propagation: d(P_raw) <= 3 |c|^2 dc with |c| <= S_P, dc <= tau S)."""
    a, b = np.asarray(a, dtype=float), np.asarray(b, dtype=float)
    if a.shape != b.shape or a.ndim != 1 or len(a) < L + 1 or not (np.all(np.isfinite(a)) and np.all(np.isfinite(b))):
        return float("inf")
    S = max(1e-12, float(np.abs(a[: L + 1]).max()))
    e = float(np.abs(a[: L + 1] - b[: L + 1]).max()) / S
    if len(a) > L + 1:
        SP = max(float(np.abs(a[1: L + 1]).max()) if L >= 1 else 0.0, 1e-3 * S)
        e = max(e, float(np.abs(a[L + 1:] ** 3 - b[L + 1:] ** 3).max()) / (3 * SP * SP * S))
    return e


@contextlib.contextmanager
def quiet_stderr():
    """The compiled kernel prints 'ZeroDivisionError ... ignored' (0/0 weight far from every atom, see C05) straight to fd 2."""
    import os
    import sys
    sys.stderr.flush()
    saved = os.dup(2)
    null = os.open(os.devnull, os.O_WRONLY)
    os.dup2(null, 2)
    try:
        yield
    finally:
        sys.stderr.flush()
        os.dup2(saved, 2)
        os.close(null)
        os.close(saved)


def _add_fail(fails, f, cap=4):
    if len(fails) < cap and not any(x["key"] == f["key"] for x in fails):
        fails.append(f)


def bounded_pose(kind, seed, tier):
    """Metamorphic run-time contract: descriptor(system) == descriptor(moved / reordered system).

    Failure keys: '<kind>:shape' (no property channel), '<kind>:property_channel' (d_norm / esp / callable), '<kind>:monotone:<channel>'."""
    from chmpy.shape import SHT
    rng = np.random.default_rng(seed + (17 if kind == "promolecule" else 29))
    iso, part = systems(seed, tier)
    syss = iso if kind == "promolecule" else part
    nrot = 3 if tier == "quick" else 10
    nperm = 2 if tier == "quick" else 3
    channels = [None, "d_norm", "esp", "callable"]
    fails, evals, distinct = [], 0, set()
    mean_rot = {}
    worst_rot = {}
    d8 = SHT(8)
    grids = [(4, SHT(4), False), (8, d8, False), (12, SHT(12), False),
             (8, SHT(8, nphi=2 * int(d8.nphi) + 2, ntheta=int(d8.ntheta) + 6), True)]       # last: a finer grid chosen by the caller (shape channel, first two systems)
    for L, sht, explicit in grids:
        for si, s in enumerate(syss):
            for prop in channels:
                if explicit and (prop is not None or si >= 2):
                    continue
                if prop == "esp" and (len(s["Zi"]) < 2 or (tier == "quick" and si % 2)):
                    continue          # EEM charges of a single atom are zero: no channel
                if prop == "callable" and tier == "quick" and si % 2 == 0:
                    continue
                key = f"{kind}:{'shape' if prop is None else 'property_channel'}"
                base_in = {"system": s["name"], "Zi": s["Zi"].tolist(), "Pi": s["Pi"].tolist(), "Ze": None if s.get("Ze") is None else s["Ze"].tolist(),
                           "Pe": None if s.get("Pe") is None else s["Pe"].tolist(), "l_max": L, "with_property": prop, "seed": seed}
                if explicit:
                    base_in["grid"] = {"nphi": int(sht.nphi), "ntheta": int(sht.ntheta), "passed": "explicitly to SHT(l_max, nphi=, ntheta=)"}
                try:
                    d0 = _descr(kind, sht, s, prop)
                except ValueError as e:
                    evals += 1
                    _add_fail(fails, {"input": base_in, "observed": f"reference pose raised {e!r}", "clause": "the surface of a small compact system is found inside the search bounds", "key": key})
                    continue
                motions = []
                for _ in range(nrot):
                    motions.append(("rigid", rotation_matrix(rng), rng.uniform(-6, 6, size=3), None, None))
                motions.append(("translation", np.eye(3), rng.uniform(-8, 8, size=3), None, None))
                for _ in range(nperm):
                    motions.append(("permutation", None, None, rng.permutation(len(s["Zi"])), None if s.get("Ze") is None else rng.permutation(len(s["Ze"]))))
                for (mk, R, t, p_i, p_e) in motions:
                    evals += 1
                    distinct.add((L, explicit, s["name"], prop, mk, None if R is None else round(float(R[0, 0]), 9), None if t is None else round(float(t[0]), 9), None if p_i is None else tuple(p_i)))
                    try:
                        d1 = _descr(kind, sht, s, prop, R, t, p_i, p_e)
                        e = desc_err(d0, d1, L)
                        obs = {"normalised_change": e, "n_invariants": int(len(d0))}
                    except ValueError as ex:
                        e, obs = float("inf"), {"raised_in_moved_pose": repr(ex)}
                    cap = ROT_CAP[L] if mk == "rigid" else (TOL_PERM if mk == "permutation" else TOL_EXACT)
                    if mk == "rigid" and np.isfinite(e) and not explicit:
                        mean_rot.setdefault((L, prop), []).append(e)
                        worst_rot[(L, prop)] = max(worst_rot.get((L, prop), 0.0), e)
                    if not e <= cap:
                        _add_fail(fails, {"input": dict(base_in, motion=mk, rotation=None if R is None else R.tolist(), translation=None if t is None else t.tolist(),
                                                        permutation=None if p_i is None else p_i.tolist()),
                                          "observed": dict(obs, allowed=cap),
                                          "clause": f"descriptor unchanged under {mk} of the whole system ({'exact up to float32/xtol noise' if mk != 'rigid' else 'up to the discretisation error cap'})",
                                          "key": key})
    # the discretisation error shrinks as the maximum degree grows (aggregate over the domain, per channel)
    summary = {}
    for prop in channels:
        a, b = mean_rot.get((4, prop)), mean_rot.get((12, prop))
        if not a or not b:
            continue
        ma, mb = float(np.mean(a)), float(np.mean(b))
        summary[str(prop)] = {"mean_err_l4": ma, "mean_err_l8": float(np.mean(mean_rot[(8, prop)])), "mean_err_l12": mb,
                              "worst": {str(L): worst_rot.get((L, prop)) for L in (4, 8, 12)}}
        evals += 1
        if not mb <= ma:
            _add_fail(fails, {"input": {"channel": prop, "systems": [s["name"] for s in syss], "seed": seed}, "observed": summary[str(prop)],
                              "clause": "mean rotation error at l_max = 12 does not exceed the mean error at l_max = 4 (discretisation error shrinks as the degree grows)",
                              "key": f"{kind}:{'shape' if prop is None else 'property_channel'}"})
    return {"evaluations": evals, "distinct": len(distinct), "failures": fails, "summary": summary, "systems": [s["name"] for s in syss], "nrot": nrot, "nperm": nperm}


def bounded_entry_points(seed, tier):
    """Molecule / Crystal entry points: agreement with the function-level descriptor on the spec'd arguments (origin = centroid of the
    interior, bounds from pose-independent quantities, the ATOM'S element), invariance under rigid motion and atom order."""
    from chmpy import Molecule
    from chmpy.core.element import Element
    from chmpy.shape import SHT, promolecule_density_descriptor, stockholder_weight_descriptor
    rng = np.random.default_rng(seed + 333)
    iso, _ = systems(seed, "quick")
    fails, evals, distinct = [], 0, set()
    L = 4

    def mol_of(Z, P):
        return Molecule.from_arrays(Z, P)
    for s in iso[: 4 if tier == "quick" else 8]:
        Z, P = s["Zi"], s["Pi"]
        # --- Molecule.shape_descriptors: same as the function on (atomic numbers, positions); pose independent
        for kw in ({}, {"with_property": "d_norm"}):
            evals += 1
            distinct.add((s["name"], "mol.shape", str(kw)))
            key = "Molecule.shape_descriptors" + (":property_channel" if kw else "")
            a = mol_of(Z, P).shape_descriptors(l_max=L, **kw)
            b = promolecule_density_descriptor(SHT(L), Z, P, **kw)
            if relerr(a, b) > 1e-9:
                _add_fail(fails, {"input": {"system": s["name"], "Zi": Z.tolist(), "Pi": P.tolist(), "kwargs": kw}, "observed": {"relerr": relerr(a, b)},
                                  "clause": "Molecule.shape_descriptors == promolecule_density_descriptor(SHT(l_max), atomic numbers, positions, **kwargs)", "key": key})
            R, t = rotation_matrix(rng), rng.uniform(-5, 5, size=3)
            perm = rng.permutation(len(Z))
            c = mol_of(Z[perm], (P @ R.T + t)[perm]).shape_descriptors(l_max=L, **kw)
            # the SAME object moved in place after it has been described (and its centroid / centre of mass read)
            m_same = mol_of(Z, P)
            _ = (m_same.shape_descriptors(l_max=L, **kw), m_same.centroid, m_same.center_of_mass)
            m_same.rotate(R, origin=(0, 0, 0))
            m_same.translate(t)
            c_same = m_same.shape_descriptors(l_max=L, **kw)
            evals += 1
            if not desc_err(a, c_same, L) <= ROT_CAP[L]:
                _add_fail(fails, {"input": {"system": s["name"], "Zi": Z.tolist(), "Pi": P.tolist(), "kwargs": kw, "history": "describe; rotate and translate the same Molecule in place; describe"},
                                  "observed": {"normalised_change": desc_err(a, c_same, L), "allowed": ROT_CAP[L]}, "clause": "a Molecule moved in place after it was described has the same descriptor", "key": key})
            evals += 1
            if not desc_err(a, c, L) <= ROT_CAP[L]:
                _add_fail(fails, {"input": {"system": s["name"], "Zi": Z.tolist(), "Pi": P.tolist(), "kwargs": kw, "rotation": R.tolist(), "translation": t.tolist(), "permutation": perm.tolist()},
                                  "observed": {"normalised_change": desc_err(a, c, L), "allowed": ROT_CAP[L]}, "clause": "Molecule.shape_descriptors unchanged when the molecule is moved and its atoms reordered", "key": key})
        # --- Molecule.atomic_shape_descriptors: row n describes atom n with the search bound of ITS element; rows follow the atom order
        if len(Z) < 2:
            continue
        evals += 1
        distinct.add((s["name"], "mol.atomic"))
        key = "Molecule.atomic_shape_descriptors"
        inp = {"system": s["name"], "Zi": Z.tolist(), "Pi": P.tolist(), "l_max": L}

        def spec_rows(Z, P):
            rows = []
            D = np.linalg.norm(P[:, None, :] - P[None, :, :], axis=2)
            for n in range(len(Z)):
                idx = np.where((D[n] < 6.0) & (D[n] > 1e-3))[0]
                rows.append(stockholder_weight_descriptor(SHT(L), Z[n:n + 1], P[n:n + 1], Z[idx], P[idx], bounds=(0.2, Element.from_atomic_number(int(Z[n])).vdw_radius * 3), background=1e-5))
            return np.asarray(rows)
        try:
            want = spec_rows(Z, P)
        except ValueError:
            continue           # the spec'd bound itself does not bracket the surface for this system: outside the domain
        try:
            got = mol_of(Z, P).atomic_shape_descriptors(l_max=L)
        except Exception as e:  # noqa
            _add_fail(fails, {"input": inp, "observed": {"raised": repr(e)}, "clause": "Molecule.atomic_shape_descriptors describes every atom of a small molecule (bounds (0.2, 3 x vdW radius of the atom's element))",
                              "key": key})
            continue
        if not relerr(want, got) <= 1e-9:
            _add_fail(fails, {"input": inp, "observed": {"relerr_vs_spec": relerr(want, got), "rows_differing": [int(n) for n in range(len(Z)) if relerr(want[n], got[n]) > 1e-9]},
                              "clause": "row n of Molecule.atomic_shape_descriptors is the descriptor of atom n searched up to 3 x the vdW radius of atom n's element", "key": key})
        perm = rng.permutation(len(Z))
        evals += 1
        try:
            gp = mol_of(Z[perm], P[perm]).atomic_shape_descriptors(l_max=L)
            e = max(desc_err(x, y, L) for x, y in zip(got[perm], gp)) if got.shape == gp.shape else float("inf")
            obs = {"normalised_change_rows_after_reordering": e}
        except Exception as ex:  # noqa
            e, obs = float("inf"), {"raised": repr(ex)}
        if not e <= TOL_EXACT:
            _add_fail(fails, {"input": dict(inp, permutation=perm.tolist()), "observed": obs, "clause": "reordering the atoms only reorders the rows of Molecule.atomic_shape_descriptors", "key": key})
    # --- crystals
    for cname in (("acetic_acid.cif",) if tier == "quick" else ("acetic_acid.cif", "iceII.cif")):
        c = crystal(cname)
        for prop in (None, "d_norm"):
            evals += 1
            distinct.add((cname, "molecular", prop))
            got = c.molecular_shape_descriptors(l_max=L, radius=3.8, with_property=prop)
            want = []
            for mol, ne, npos in c.molecule_environments(radius=3.8):
                cen = np.mean(mol.positions, axis=0)
                d = np.linalg.norm(mol.positions - cen, axis=1)
                tr = trace_descriptor("stockholder", SHT(L), mol.atomic_numbers, mol.positions, ne, npos, origin=cen.astype(np.float32), bounds=(d.min() / 2, d.max() + 10.0), with_property=prop)
                want.append(tr.result)
                one = c.molecule_shape_descriptors(mol, l_max=L, radius=3.8, with_property=prop)
                # the same molecule object described again after it was moved by a lattice vector (a copy and in place): a symmetry-equivalent pose in the crystal
                lat = np.asarray(c.unit_cell.direct)[int(rng.integers(0, 3))]
                try:
                    moved = mol.translated(lat)
                    again = c.molecule_shape_descriptors(moved, l_max=L, radius=3.8, with_property=prop)
                    moved.translate(-2 * lat)
                    again2 = c.molecule_shape_descriptors(moved, l_max=L, radius=3.8, with_property=prop)
                    e_mv = max(desc_err(np.asarray(one), np.asarray(again), L), desc_err(np.asarray(one), np.asarray(again2), L))
                    obs_mv = {"normalised_change": e_mv, "allowed": ROT_CAP[L]}
                except Exception as ex:  # noqa
                    e_mv, obs_mv = float("inf"), {"raised": repr(ex)[:200]}
                evals += 1
                if not e_mv <= ROT_CAP[L]:
                    _add_fail(fails, {"input": {"crystal": cname, "with_property": prop, "history": "describe mol; mol.translated(lattice vector); describe; translate(-2 lattice vectors) in place; describe"},
                                      "observed": obs_mv, "clause": "a molecule moved by a lattice vector (after it was already described once) has the same descriptor in the crystal",
                                      "key": "Crystal.molecule_shape_descriptors"})
                evals += 1
                if not relerr(np.asarray(tr.result), np.asarray(one)) <= 1e-6:
                    _add_fail(fails, {"input": {"crystal": cname, "with_property": prop}, "observed": {"relerr": relerr(np.asarray(tr.result), np.asarray(one))},
                                      "clause": "Crystal.molecule_shape_descriptors(mol) == stockholder descriptor of mol in its environment about its centroid", "key": "Crystal.molecule_shape_descriptors"})
            if not relerr(np.asarray(want), got) <= 1e-6:
                _add_fail(fails, {"input": {"crystal": cname, "with_property": prop}, "observed": {"relerr": relerr(np.asarray(want), got)},
                                  "clause": "Crystal.molecular_shape_descriptors rows == stockholder descriptor of each unique molecule in its environment about its centroid", "key": "Crystal.molecular_shape_descriptors"})
        # atoms: bound from the atom's element, rows follow the asymmetric unit; reordering the asymmetric unit reorders the rows
        evals += 1
        distinct.add((cname, "atomic"))
        got = c.atomic_shape_descriptors(l_max=L, radius=3.8)
        want = []
        for sr in c.atomic_surroundings(radius=3.8):
            zc = int(sr["centre"]["element"])
            want.append(stockholder_weight_descriptor(SHT(L), [zc], [sr["centre"]["cart_pos"]], sr["neighbours"]["element"], sr["neighbours"]["cart_pos"],
                                                      bounds=(0.15, Element.from_atomic_number(zc).vdw_radius * 3 + 2.0)))
        if not relerr(np.asarray(want), got) <= 1e-9:
            _add_fail(fails, {"input": {"crystal": cname}, "observed": {"relerr": relerr(np.asarray(want), got)},
                              "clause": "Crystal.atomic_shape_descriptors row k describes asymmetric-unit atom k searched up to 3 x vdW(its element) + 2", "key": "Crystal.atomic_shape_descriptors"})
        evals += 1
        cf, dd = c.atomic_shape_descriptors(l_max=L, radius=3.8, return_coefficients=True)
        if not (relerr(got, dd) <= 1e-9 and np.iscomplexobj(cf) and cf.shape[0] == got.shape[0] and cf.shape[1] == (L + 1) * (L + 2) // 2):
            _add_fail(fails, {"input": {"crystal": cname, "return_coefficients": True}, "observed": {"coefficient_array": [str(cf.dtype), list(cf.shape)], "descriptor_array": [str(dd.dtype), list(dd.shape)]},
                              "clause": "with return_coefficients=True Crystal.atomic_shape_descriptors returns (transform coefficients, the same invariants)", "key": "Crystal.atomic_shape_descriptors"})
        evals += 1
        cf, dd = c.molecular_shape_descriptors(l_max=L, radius=3.8, return_coefficients=True)
        if not (relerr(c.molecular_shape_descriptors(l_max=L, radius=3.8), dd) <= 1e-9 and np.iscomplexobj(cf) and cf.shape[1] == (L + 1) * (L + 2) // 2):
            _add_fail(fails, {"input": {"crystal": cname, "return_coefficients": True}, "observed": {"coefficient_array": [str(cf.dtype), list(cf.shape)], "descriptor_array": [str(dd.dtype), list(dd.shape)]},
                              "clause": "with return_coefficients=True Crystal.molecular_shape_descriptors returns (transform coefficients, the same invariants)", "key": "Crystal.molecular_shape_descriptors"})
        from chmpy.crystal import Crystal, AsymmetricUnit
        asym = c.asymmetric_unit
        perm = rng.permutation(len(asym.elements))
        c2 = Crystal(c.unit_cell, c.space_group, AsymmetricUnit([asym.elements[k] for k in perm], asym.positions[perm], labels=np.asarray(asym.labels)[perm]))
        evals += 1
        gp = c2.atomic_shape_descriptors(l_max=L, radius=3.8)
        if not (got.shape == gp.shape and max(desc_err(x, y, L) for x, y in zip(got[perm], gp)) <= TOL_EXACT):
            _add_fail(fails, {"input": {"crystal": cname, "asymmetric_unit_permutation": perm.tolist()}, "observed": {"relerr": relerr(got[perm], gp)},
                              "clause": "listing the asymmetric unit in a different order only reorders the rows of Crystal.atomic_shape_descriptors", "key": "Crystal.atomic_shape_descriptors"})
        evals += 1
        m1, m2 = c.molecular_shape_descriptors(l_max=L, radius=3.8), c2.molecular_shape_descriptors(l_max=L, radius=3.8)
        ok = m1.shape == m2.shape and all(min(desc_err(r1, r2, L) for r2 in m2) <= ROT_CAP[L] for r1 in m1)
        if not ok:
            _add_fail(fails, {"input": {"crystal": cname, "asymmetric_unit_permutation": perm.tolist()}, "observed": {"shapes": [list(m1.shape), list(m2.shape)]},
                              "clause": "listing the asymmetric unit in a different order leaves the set of molecular descriptors unchanged (a different symmetry image may be described: discretisation cap)",
                              "key": "Crystal.molecular_shape_descriptors"})
        # atom group
        evals += 1
        ag = c.atom_group_shape_descriptors([0, 1, 2], l_max=L, radius=3.8)
        inside, outside = c.atom_group_surroundings([0, 1, 2], radius=3.8)
        cen = np.mean(inside[1], axis=0)
        d = np.linalg.norm(inside[1] - cen, axis=1)
        wg = stockholder_weight_descriptor(SHT(L), *inside, *outside, origin=cen.astype(np.float32), bounds=(d.min() / 2, d.max() + 10.0))
        if not relerr(np.asarray(wg), ag) <= 1e-6:
            _add_fail(fails, {"input": {"crystal": cname, "atoms": [0, 1, 2]}, "observed": {"relerr": relerr(np.asarray(wg), ag)},
                              "clause": "Crystal.atom_group_shape_descriptors == stockholder descriptor of the group in its environment about the group's centroid", "key": "Crystal.atom_group_shape_descriptors"})
    return {"evaluations": evals, "distinct": len(distinct), "failures": fails}


def partial_bounds(kind, sht, s):
    """A search interval that brackets the surface along SOME grid directions only (None for a perfectly round surface)."""
    tr = trace_descriptor(kind, sht, s["Zi"], s["Pi"], s.get("Ze"), s.get("Pe"), bounds=(0.05, 25.0))
    if tr.radii is None:
        return None
    r = tr.radii["result"]
    r = r[r > 0]
    if len(r) < 2 or r.max() - r.min() < 1e-2:
        return None
    return (0.05, float(0.5 * (r.min() + r.max())))


def bounded_dataflow(seed, tier):
    """Run-time version of the dataflow contract (same clauses as the P obligations) on the REAL call chain with real SHT objects."""
    from chmpy.shape import SHT
    rng = np.random.default_rng(seed + 5)
    iso, part = systems(seed, "quick")
    fails, evals, distinct = [], 0, set()
    cases = []
    for L in ((3, 6) if tier == "quick" else (2, 3, 5, 8)):
        sht = SHT(L)
        for s in iso[:4] + part[:3]:
            kinds = ["promolecule"] if "Ze" not in s else ["stockholder"]
            for kind in kinds:
                user = lambda pts: np.linalg.norm(pts - 0.3, axis=1)
                for kw in ({}, {"with_property": "d_norm"}, {"with_property": "esp"}, {"with_property": user, "coefficients": True},
                           {"origin": (np.mean(s["Pi"], axis=0) + rng.normal(scale=0.05, size=3)).astype(np.float32), "bounds": (0.3, 15.0), "with_property": "d_norm"},
                           {"bounds": (0.05, 0.5)}, {"bounds": (9.0, 15.0)}, {"bounds": "partial"}):
                    if kw.get("with_property") == "esp" and len(s["Zi"]) < 2:
                        continue
                    if kw.get("bounds") == "partial":
                        kw = dict(kw, bounds=partial_bounds(kind, sht, s))
                        if kw["bounds"] is None:
                            continue
                    tr = trace_descriptor(kind, sht, s["Zi"], s["Pi"], s.get("Ze"), s.get("Pe"), **kw)
                    cl = dataflow_clauses(kind, sht, tr, s["Zi"], s["Pi"], s.get("Ze"), s.get("Pe"), **kw)
                    for name, (ok, obs) in cl.items():
                        evals += 1
                        distinct.add((L, s["name"], kind, name, str(sorted(k for k in kw))))
                        if not ok:
                            _add_fail(fails, {"input": {"function": kind, "system": s["name"], "Zi": s["Zi"].tolist(), "Pi": s["Pi"].tolist(), "l_max": L,
                                                    "kwargs": {k: (v if isinstance(v, str) else (np.asarray(v).tolist() if not callable(v) else "callable")) for k, v in kw.items()}, "seed": seed},
                                          "observed": obs, "clause": f"dataflow clause `{name}` observed on the running code", "key": f"{kind}:{name}"})
    return {"evaluations": evals, "distinct": len(distinct), "failures": fails}


def bounded_roots(seed, tier):
    """The compiled root finders against the isovalue equation: residual of the returned radius, agreement with an independent
    bracketing solve of the batch density/weight along the ray, and -1 exactly for unbracketed rays."""
    from chmpy import PromoleculeDensity, StockholderWeight
    from chmpy.interpolate._density import sphere_promolecule_radii, sphere_stockholder_radii
    rng = np.random.default_rng(seed + 77)
    iso, part = systems(seed, "quick")
    fails, evals, distinct = [], 0, set()
    ndir = 40 if tier == "quick" else 200
    stats = {"unbracketed": 0, "converged": 0, "outside_bounds": 0, "skipped_far_field": 0}

    def dirs(n):
        d = rng.normal(size=(n, 3))
        return (d / np.linalg.norm(d, axis=1)[:, None]).astype(np.float32)
    for s in iso[: 5 if tier == "quick" else 8] + part[: 4 if tier == "quick" else 7]:
        stock = "Ze" in s
        if stock:
            obj = StockholderWeight.from_arrays(s["Zi"], s["Pi"], s["Ze"], s["Pe"])
            fun = lambda pts: obj.weights(np.asarray(pts, dtype=np.float32))
            tot = lambda pts: obj.dens_a.rho(np.asarray(pts, dtype=np.float32)) + obj.dens_b.rho(np.asarray(pts, dtype=np.float32))
            handle, kern, iso_v, tol = obj.s, sphere_stockholder_radii, 0.5, 1e-7
        else:
            obj = PromoleculeDensity((s["Zi"], s["Pi"]))
            fun = lambda pts: obj.rho(np.asarray(pts, dtype=np.float32))
            handle, kern, iso_v, tol = obj.dens, sphere_promolecule_radii, 0.0002, 1e-12
        o = np.mean(s["Pi"], axis=0).astype(np.float32)
        ext = float(np.linalg.norm(s["Pi"] - o, axis=1).max())
        first = (0.4, 20.0) if not stock else (0.05, ext + 4.0)
        r_first = np.array(kern(handle, o, dirs(ndir), first[0], first[1], tol, 30, iso_v))
        r_out = float(r_first[r_first > 0].max()) if np.any(r_first > 0) else ext + 2.0
        # three search intervals: one that brackets the surface, one entirely inside it, one just outside it (kept near the atoms: beyond
        # ~10.6 A from an atom the single-point and batch evaluation paths differ by the table's tail fill, see C05, so the batch values are
        # no reference there)
        for (lo, hi) in (first, (0.05, 0.3), (r_out + 0.5, r_out + 1.5)):
            g = dirs(ndir)
            r = np.array(kern(handle, o, g, lo, hi, tol, 30, iso_v))
            pl = fun(o[None, :] + lo * g) - iso_v
            pu = fun(o[None, :] + hi * g) - iso_v
            for k in range(ndir):
                same = pl[k] * pu[k] > 0
                margin = min(abs(pl[k]), abs(pu[k])) > 1e-3 * iso_v        # away from the float32 tie where batch and single-point paths may disagree
                if stock and min(tot(o[None, :] + lo * g[k:k + 1])[0], tot(o[None, :] + hi * g[k:k + 1])[0]) < 1e-6:
                    stats["skipped_far_field"] += 1
                    continue
                evals += 1
                distinct.add((s["name"], lo, hi, k))
                bad = None
                if r[k] == -1.0:
                    stats["unbracketed"] += 1
                    if not same and margin:
                        bad = ("a bracketed ray is reported as not found", {"f_lower": float(pl[k]), "f_upper": float(pu[k])})
                else:
                    if same and margin:
                        bad = ("an unbracketed ray returns a radius instead of -1", {"radius": float(r[k]), "f_lower": float(pl[k]), "f_upper": float(pu[k])})
                    elif not (lo - 1e-4 <= r[k] <= hi + 1e-4):
                        stats["outside_bounds"] += 1
                        bad = ("returned radius outside the search bounds", {"radius": float(r[k])})
                    elif not same:
                        stats["converged"] += 1
                        # residual measured against the local slope: |f(r)| <= |f'| * 2e-4 A  <=> the root is within 2e-4 A (xtol 1e-5 + float32 noise)
                        h = 2e-4
                        fm, fp = float(fun(o[None, :] + (r[k] - h) * g[k:k + 1])[0] - iso_v), float(fun(o[None, :] + (r[k] + h) * g[k:k + 1])[0] - iso_v)
                        if fm * fp > 0:
                            # look a little further before declaring failure (flat float32 plateaus)
                            h = 2e-3
                            fm, fp = float(fun(o[None, :] + (r[k] - h) * g[k:k + 1])[0] - iso_v), float(fun(o[None, :] + (r[k] + h) * g[k:k + 1])[0] - iso_v)
                        if fm * fp > 0:
                            bad = ("no sign change of (value - isovalue) within 2e-3 A of the returned radius", {"radius": float(r[k]), "f_minus": fm, "f_plus": fp})
                if bad:
                    _add_fail(fails, {"input": {"system": s["name"], "Zi": s["Zi"].tolist(), "Pi": s["Pi"].tolist(), "stockholder": stock, "origin": o.tolist(), "direction": g[k].tolist(),
                                                "bounds": [lo, hi], "isovalue": iso_v, "seed": seed}, "observed": bad[1], "clause": bad[0], "key": "roots:" + bad[0][:24]})
    return {"evaluations": evals, "distinct": len(distinct), "failures": fails, "stats": stats}
