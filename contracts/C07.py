"""C07 — the spherical harmonic transform is exact and invertible on band-limited functions (chmpy/shape/sht.py, _sht.pyx, assoc_legendre.py).

Oracle (from the property statement): Y_l^m = (-1)^m Pbar_l^m(cos theta) e^{i m phi} (m >= 0), Y_l^{-m} = (-1)^m conj(Y_l^m), orthonormal on the
sphere (Condon-Shortley phase); coefficient layout  real: plm_index(m, l) m-major,  complex: l(l+1)+m.
"""
import time
from fractions import Fraction

import numpy as np
import z3

from pyvc.api import Interp, NDArr, Obj, conj, farr, source
from pyvc.libmodels import _PI, ufun
from pyvc.symex import FuncVal, ModelFn
from pyvc.values import Cx, Unsupported, cx_binop, is_sym, num_binop, to_frac, to_real

from contracts import c07_pyx

MOD = "chmpy.shape.sht"
AL = "chmpy.shape.assoc_legendre"
PYX = "chmpy.shape._sht"
LMAX_STATEMENT = 64
PI_HYP = [_PI > z3.RealVal("3.14159"), _PI < z3.RealVal("3.1416")]


# ================================================================================================================
# spec functions (mathematics, not code)
# ================================================================================================================
def plm_index(L, m, l):
    """Position of (l, m), 0 <= m <= l <= L, in the m-major triangular layout of the real transform / of evaluate_batch."""
    return sum(L + 1 - k for k in range(m)) + (l - m)


def nplm(L):
    return (L + 1) * (L + 2) // 2


def nlm(L):
    return (L + 1) * (L + 1)


def sgn(m):
    return -1 if m % 2 else 1


def Pbar(l, m, x):
    """Orthonormal associated Legendre function WITHOUT the Condon-Shortley factor, as an uninterpreted function of cos(theta)."""
    return z3.Function(f"Pbar_{l}_{m}", z3.RealSort(), z3.RealSort())(x)


def spec_amm_sq_times_4pi(m):
    """(2m+1)!! / (2m)!!  : 4 pi a_mm^2 for the orthonormal sectoral function Pbar_m^m = a_mm (1-x^2)^(m/2)."""
    r = Fraction(1)
    for k in range(1, m + 1):
        r *= Fraction(2 * k + 1, 2 * k)
    return r


def spec_alm_sq(l, m):
    return Fraction(4 * l * l - 1, l * l - m * m)


def spec_blm_sq(l, m):
    """b_lm = -a_lm sqrt(((l-1)^2-m^2)/(4(l-1)^2-1))  (three-term recurrence of the orthonormal functions)."""
    return spec_alm_sq(l, m) * Fraction((l - 1) ** 2 - m * m, 4 * (l - 1) ** 2 - 1)


def is_7_smooth(n):
    for p in (2, 3, 5, 7):
        while n % p == 0:
            n //= p
    return n == 1


def cx(re, im=0):
    return Cx(to_real(re), to_real(im))


def cadd(a, b):
    return cx_binop("+", a, b)


def cmul(a, b):
    return cx_binop("*", a, b)


def csum(xs):
    acc = cx(0, 0)
    for x in xs:
        acc = cadd(acc, x)
    return acc


def eq_cells(code, spec):
    """[Bool] : cell-wise equality of a code value (Cx or real term) with a spec value (Cx)."""
    if isinstance(code, Cx):
        return [to_real(code.re) == to_real(spec.re), to_real(code.im) == to_real(spec.im)]
    if isinstance(spec, Cx):
        return [to_real(code) == to_real(spec.re), to_real(spec.im) == 0]
    return [to_real(code) == to_real(spec)]


# ================================================================================================================
# interpreter extensions (engine gaps routed around without touching pyvc/)
# ================================================================================================================
class Interp7(Interp):
    """Two additions: complex literals (1j) and x ** (k/2) for concrete k (as x^(k//2) * sqrt(x)^(k%2))."""

    def e_Constant(self, e, fr):
        if isinstance(e.value, complex):
            return Cx(Fraction(repr(e.value.real)), Fraction(repr(e.value.imag)))
        return super().e_Constant(e, fr)

    def scalar_binop(self, op, l, r):
        if op == "**" and not is_sym(r) and not isinstance(r, Cx) and not isinstance(l, Cx):
            e = Fraction(to_frac(r))
            if e >= 0 and e.denominator in (1, 2):
                return half_power(self, l, e)
        return super().scalar_binop(op, l, r)


def half_power(I, base, e):
    out = 1
    for _ in range(e.numerator // e.denominator):
        out = num_binop("*", out, base)
    if e.denominator == 2:
        out = num_binop("*", out, I.call(I.models["numpy.sqrt"], [base]))
    return out


class PlmStub:
    """Stands for self.plm inside SHT methods: evaluate_batch obeys its contract result[plm_index(m,l)] = Pbar_l^m(x)."""

    def __init__(self, L):
        self.L = L


class Env:
    """Per-run log of the fft / ifft calls (inputs and outputs), so obligations can speak about the spectra."""

    def __init__(self):
        self.log = []

    def calls(self, kind):
        return [e for e in self.log if e[0] == kind]


def _same(a, b):
    """Syntactic identity of two real-valued cells after z3 normalisation (never a solver call)."""
    from pyvc.values import z
    if isinstance(a, Cx) or isinstance(b, Cx):
        return False
    a, b = z3.simplify(z(to_real(a))), z3.simplify(z(to_real(b)))
    return z3.eq(a, b) or z3.is_true(z3.simplify(a == b))


def make_models(env, pmod, link=False):
    """Library / callee contracts used while executing SHT methods symbolically (all listed as assumptions)."""
    def evaluate_batch(I, recv, x, result=None):
        L = recv.L
        if result is None:
            result = farr([0] * nplm(L))
        for m in range(L + 1):
            for l in range(m, L + 1):
                result.data[plm_index(L, m, l)] = Pbar(l, m, to_real(x))
        return result

    def transform(kind):
        def f(I, arr, norm=None, overwrite_x=False, **kw):
            if norm != "forward" or overwrite_x is not True or kw or not isinstance(arr, NDArr) or arr.ndim != 1:
                raise Unsupported(f"scipy.fft.{kind} outside the modelled call shape (1-d, norm='forward', overwrite_x=True)")
            t = len(env.calls(kind))
            ins = [c if isinstance(c, Cx) else cx(c, 0) for c in arr.data]
            N = len(ins)
            outs = None
            if link and kind == "fft":
                for (k2, i2, o2) in env.log:
                    if k2 != "ifft" or len(o2) != N:
                        continue
                    if all(_same(a.re, b.re) and _same(a.im, b.im) for a, b in zip(ins, o2)):
                        outs = list(i2)                                           # fft(ifft(B)) = B
                    elif all(_same(a.re, b.re) and _same(a.im, 0) for a, b in zip(ins, o2)):
                        cj = lambda c: Cx(c.re, num_binop("-", 0, c.im))
                        outs = [cmul(cx(Fraction(1, 2)), cadd(i2[k], cj(i2[(N - k) % N]))) for k in range(N)]   # fft(Re ifft(B))
            if outs is None:
                outs = [Cx(z3.Real(f"{kind}{t}_{k}r"), z3.Real(f"{kind}{t}_{k}i")) for k in range(N)]
            env.log.append((kind, ins, outs))
            for k in range(N):
                arr.data[k] = outs[k]
            return arr
        return f

    def np_exp(I, v):
        def one(c):
            if not isinstance(c, Cx):
                raise Unsupported("numpy.exp of a real (not needed by the SHT)")
            if not _same(c.re, 0):
                raise Unsupported("numpy.exp of a complex number with non-zero real part")
            return cis_of_term(c.im)
        if isinstance(v, NDArr):
            out = np.empty(v.shape, dtype=object)
            for ix in np.ndindex(*v.shape):
                out[ix] = one(v.data[ix])
            return NDArr(out, "c")
        return one(v)

    def np_empty(I, shape=None, dtype=None, **kw):
        from pyvc.libmodels import dtype_kind
        k = dtype_kind(dtype)
        shp = (shape,) if isinstance(shape, int) else tuple(shape)
        d = np.empty(shp, dtype=object)
        I._uninit = getattr(I, "_uninit", 0)
        for ix in np.ndindex(*shp):
            I._uninit += 1
            d[ix] = Cx(z3.Real(f"uninit{I._uninit}r"), z3.Real(f"uninit{I._uninit}i")) if k == "c" else \
                (z3.Real(f"uninit{I._uninit}") if k == "f" else z3.Int(f"uninit{I._uninit}"))
        return NDArr(d, k)

    def roots_legendre(I, n, mu=False):
        if not isinstance(n, int):
            raise Unsupported("symbolic number of Gauss-Legendre nodes")
        xs = farr([z3.Real(f"gl_x{t}") for t in range(n)])
        ws = farr([z3.Real(f"gl_w{t}") for t in range(n)])
        I.assume(z3.Real("gl_total") > 0)          # the total weight of the rule (= 2)
        return (xs, ws, z3.Real("gl_total")) if mu else (xs, ws)

    def meshgrid(I, a, b, indexing="xy"):
        if indexing != "ij":
            raise Unsupported("meshgrid indexing")
        A, B = np.empty((a.shape[0], b.shape[0]), dtype=object), np.empty((a.shape[0], b.shape[0]), dtype=object)
        for i in range(a.shape[0]):
            for j in range(b.shape[0]):
                A[i, j], B[i, j] = a.data[i], b.data[j]
        return [NDArr(A, "f"), NDArr(B, "f")]

    models = {
        "PlmStub.evaluate_batch": ModelFn("contract:AssocLegendre.evaluate_batch (result[plm_index(m,l)] = Pbar_l^m(x); proved separately)", evaluate_batch),
        "scipy.fft.fft": ModelFn("scipy.fft.fft(norm='forward', overwrite_x=True) transforms the work array in place", transform("fft")),
        "scipy.fft.ifft": ModelFn("scipy.fft.ifft(norm='forward', overwrite_x=True) transforms the work array in place", transform("ifft")),
        "numpy.exp": ModelFn("numpy.exp(i t) = cos t + i sin t; cos(-t)=cos t, sin(-t)=-sin t", np_exp),
        "numpy.empty": ModelFn("numpy.empty (cells unspecified)", np_empty),
        "numpy.iscomplexobj": ModelFn("numpy.iscomplexobj", lambda I, a: isinstance(a, NDArr) and a.kind == "c"),
        "scipy.special.roots_legendre": ModelFn("scipy.special.roots_legendre (n nodes, n weights, total)", roots_legendre),
        "numpy.meshgrid": ModelFn("numpy.meshgrid(indexing='ij')", meshgrid),
        "chmpy.shape._sht.AssocLegendre": ModelFn("contract:AssocLegendre(lm)", lambda I, lm: PlmStub(lm)),
        "builtins.c_idiv": ModelFn("C integer division truncates toward zero", lambda I, a, b: c_idiv(I, a, b)),
        "builtins.c_int": ModelFn("C double->int conversion truncates toward zero", lambda I, a: c_int(a)),
        "builtins.c_fpow": ModelFn("Cython 3 double ** double (soft-complex power): real power for a base > 0, TypeError otherwise", lambda I, a, b: c_fpow(I, a, b)),
    }
    if pmod is not None:
        for name in ("analysis_kernel_real", "analysis_kernel_cplx", "synthesis_kernel_real", "synthesis_kernel_cplx", "expand_coeffs_to_full"):
            if name in pmod.functions:
                models[f"{PYX}.{name}"] = FuncVal(pmod, pmod.functions[name])
    return models


def c_idiv(I, a, b):
    from pyvc.values import c_trunc_div
    if not is_sym(a) and not is_sym(b):
        a, b = to_frac(a), to_frac(b)
        if b == 0:
            raise Unsupported("C division by zero (undefined behaviour)")
        q = abs(a) // abs(b)
        return q if (a >= 0) == (b > 0) else -q
    I.oblige("div-nonzero", b != 0)
    return c_trunc_div(a, b)


def c_fpow(I, a, b):
    """double ** double in Cython 3 without cpow: cpow(a + 0i, b + 0i) converted back by __Pyx_SoftComplexToDouble, which raises TypeError when
    the imaginary part is not exactly 0.  For a > 0 the result is the real power; for a == 0 glibc's cpow gives nan + nan i (0 * -inf), for a < 0 a
    complex number: both raise.  The precondition a > 0 is a safety obligation of the calling function."""
    from pyvc.values import num_cmp
    if not is_sym(a):
        if to_frac(a) <= 0:
            raise Unsupported("Cython double ** double with a non-positive constant base (TypeError at run time)")
    else:
        I.oblige("cpow-real-base-nonnegative", I.truth(num_cmp(">=", a, 0)), note="double ** double with a negative base is complex in Cython 3 (TypeError)")
        I.oblige("cpow-real-base-nonzero", I.truth(num_cmp("!=", a, 0)), note="double ** double with a zero base gives nan + nan i in Cython 3 / glibc cpow (TypeError)")
    return I.binop("**", a, b)


def c_int(a):
    from pyvc.values import trunc_to_int
    return trunc_to_int(a)


PHI = z3.Real("phi")


def cis(k):
    """e^{i k phi} for an integer k, with cos/sin of the multiple angle as abstract terms and the parity rules applied."""
    if k == 0:
        return cx(1, 0)
    t = z3.RealVal(abs(k)) * PHI
    c, s = ufun("cos")(t), ufun("sin")(t)
    return Cx(c, s if k > 0 else -s)


def cis_of_term(t):
    """e^{i t} where t must be an integer multiple of the symbol phi."""
    if not is_sym(t):
        if to_frac(t) == 0:
            return cx(1, 0)
        raise Unsupported("numpy.exp(i t) for a non-zero constant t")
    k = z3.simplify(z3.substitute(to_real(t), (PHI, z3.RealVal(1))))
    if not z3.is_rational_value(k) or k.denominator_as_long() != 1 or not _same(t, z3.RealVal(k.numerator_as_long()) * PHI):
        raise Unsupported(f"numpy.exp(i t): t = {t} is not an integer multiple of phi")
    return cis(k.numerator_as_long())


# ================================================================================================================
# symbolic instances
# ================================================================================================================
def cx_array(prefix, n):
    d = np.empty(n, dtype=object)
    for i in range(n):
        d[i] = Cx(z3.Real(f"{prefix}{i}r"), z3.Real(f"{prefix}{i}i"))
    return NDArr(d, "c")


def shell_sht(S, L, T, N):
    xs = [z3.Real(f"x{t}") for t in range(T)]
    ws = [z3.Real(f"w{t}") for t in range(T)]
    grid = [farr([[z3.Real(f"theta{t}")] * N for t in range(T)]), farr([[z3.Real(f"phi{j}") for j in range(N)] for t in range(T)])]
    o = Obj(S, {"lmax": L, "nphi": N, "ntheta": T, "cos_theta": farr(xs), "weights": farr(ws), "plm": PlmStub(L),
                "fft_work_array": cx_array("fw", N), "plm_work_array": farr([z3.Real(f"pw{i}") for i in range(nplm(L))]), "grid": grid})
    return o, xs, ws


def spec_analysis(L, N, xs, ws, F, real):
    """{cell index: Cx} — quadrature sums over the rows t of the forward-normalised spectra F[t][k]."""
    T = len(xs)
    out = {}
    for m in range(L + 1):
        for l in range(m, L + 1):
            pos = csum(cmul(cx(sgn(m) * ws[t] * Pbar(l, m, xs[t])), F[t][m]) for t in range(T))
            if real:
                out[plm_index(L, m, l)] = pos
            else:
                out[l * (l + 1) + m] = pos
                if m > 0:
                    out[l * (l + 1) - m] = csum(cmul(cx(ws[t] * Pbar(l, m, xs[t])), F[t][N - m]) for t in range(T))
    return out


def spec_synthesis_bins(L, N, x, c, real):
    """[Cx]*N — the Fourier row handed to the inverse FFT at cos(theta) = x for coefficients c (list of Cx)."""
    B = [cx(0, 0) for _ in range(N)]
    for m in range(L + 1):
        if real:
            s = csum(cmul(c[plm_index(L, m, l)], cx(Pbar(l, m, x))) for l in range(m, L + 1))
            B[m] = cadd(B[m], cmul(cx(sgn(m) * (1 if m == 0 else 2)), s))
        else:
            B[m] = cadd(B[m], cmul(cx(sgn(m)), csum(cmul(c[l * (l + 1) + m], cx(Pbar(l, m, x))) for l in range(m, L + 1))))
            if m > 0:
                B[N - m] = cadd(B[N - m], csum(cmul(c[l * (l + 1) - m], cx(Pbar(l, m, x))) for l in range(m, L + 1)))
    return B


def spec_pointwise(L, c, x, real):
    """f(theta, phi) = sum_lm c_lm Y_lm with Y_lm = (-1)^m Pbar_lm e^{i m phi}, Y_l,-m = Pbar_lm e^{-i m phi}."""
    if real:
        acc = cx(sum(c[plm_index(L, 0, l)].re * Pbar(l, 0, x) for l in range(L + 1)), 0)
        for m in range(1, L + 1):
            s = cmul(cmul(cx(sgn(m)), cis(m)), csum(cmul(c[plm_index(L, m, l)], cx(Pbar(l, m, x))) for l in range(m, L + 1)))
            acc = cadd(acc, cx(2 * s.re, 0))
        return acc
    acc = csum(cmul(c[l * (l + 1)], cx(Pbar(l, 0, x))) for l in range(L + 1))
    for m in range(1, L + 1):
        acc = cadd(acc, cmul(cmul(cx(sgn(m)), cis(m)), csum(cmul(c[l * (l + 1) + m], cx(Pbar(l, m, x))) for l in range(m, L + 1))))
        acc = cadd(acc, cmul(cis(-m), csum(cmul(c[l * (l + 1) - m], cx(Pbar(l, m, x))) for l in range(m, L + 1))))
    return acc


# ================================================================================================================
# native run-time contracts (bounded stand-ins, label B) — also the witness search for refuted P obligations
# ================================================================================================================
REL_TOL = 1e-10     # float64 transforms: <= ~1e5 accumulated roundings of 1.1e-16 times the growth of the recurrences at l <= 64


def ref_theta_table(L, thetas):
    """Independent reference: Theta_lm(theta) = scipy.special.sph_harm_y(l, m, theta, 0) (orthonormal, Condon-Shortley; real valued).
    -> array [l(l+1)+m, i].  Y_lm(theta, phi) = Theta_lm(theta) e^{i m phi} by definition of the harmonics."""
    from scipy.special import sph_harm_y
    thetas = np.atleast_1d(np.asarray(thetas, dtype=float))
    out = np.empty((nlm(L), thetas.size))
    for l in range(L + 1):
        blk = sph_harm_y(l, np.arange(-l, l + 1)[:, None], thetas[None, :], 0.0)
        assert np.max(np.abs(blk.imag)) == 0.0 or np.max(np.abs(blk.imag)) <= 1e-14 * np.max(np.abs(blk.real))
        out[l * l:(l + 1) * (l + 1)] = blk.real
    return out


def ref_m_sums(L, cfull, table):
    """G[m+L, i] = sum_l c_lm Theta_lm(theta_i)"""
    G = np.zeros((2 * L + 1, table.shape[1]), dtype=complex)
    for l in range(L + 1):
        for m in range(-l, l + 1):
            G[m + L] += cfull[l * (l + 1) + m] * table[l * (l + 1) + m]
    return G


def ref_on_grid(L, cfull, table, phis):
    """f(theta_t, phi_j) = sum_m G[m, t] e^{i m phi_j}  (direct summation, no FFT)."""
    E = np.exp(1j * np.outer(np.arange(-L, L + 1), phis))
    return ref_m_sums(L, cfull, table).T @ E


def ref_at_points(L, cfull, thetas, phis):
    G = ref_m_sums(L, cfull, ref_theta_table(L, thetas))
    E = np.exp(1j * np.outer(np.arange(-L, L + 1), phis))
    return (G * E).sum(axis=0)


def full_from_real(L, c):
    out = np.zeros(nlm(L), dtype=complex)
    for m in range(L + 1):
        for l in range(m, L + 1):
            v = c[plm_index(L, m, l)]
            out[l * (l + 1) + m] = v
            if m:
                out[l * (l + 1) - m] = sgn(m) * np.conj(v)
    return out


def random_real_coeffs(rng, L):
    c = rng.normal(size=nplm(L)) + 1j * rng.normal(size=nplm(L))
    c[:L + 1] = c[:L + 1].real
    return c


import contextlib


@contextlib.contextmanager
def quiet_stderr():
    """Silence the interpreter's 'Exception ignored in ...' report of an exception swallowed by a compiled noexcept function (fd level)."""
    import os as _os, sys as _sys
    _sys.stderr.flush()
    saved = _os.dup(2)
    null = _os.open(_os.devnull, _os.O_WRONLY)
    try:
        _os.dup2(null, 2)
        yield
    finally:
        _sys.stderr.flush()
        _os.dup2(saved, 2)
        _os.close(null)
        _os.close(saved)


class Native:
    def __init__(self, seed):
        self.seed = seed
        self.fails = {}
        self.evals = {}
        self.samples = []

    def check(self, key, got, want, inp, scale=None):
        got, want = np.asarray(got), np.asarray(want)
        self.evals[key] = self.evals.get(key, 0) + 1
        if got.shape != want.shape:
            err, tol = float("inf"), 0.0
        else:
            sc = max(1.0, float(np.max(np.abs(want))) if want.size else 1.0) if scale is None else scale
            err = float(np.max(np.abs(got - want))) if want.size else 0.0
            tol = REL_TOL * sc
        ok = bool(err <= tol)       # NaN -> False
        if not ok and key not in self.fails:
            self.fails[key] = {"input": dict(inp, seed=self.seed), "observed": f"max |got - expected| = {err:.3e} > tol {tol:.1e}", "clause": CLAUSES[key], "key": key}
        return ok


CLAUSES = {
    "roundtrip_real_as": "real transform: analysis(synthesis(c)) == c",
    "roundtrip_real_sa": "real transform: synthesis(analysis(f)) == f on the grid for band-limited f",
    "roundtrip_cplx_as": "complex transform: analysis(synthesis(c)) == c",
    "roundtrip_cplx_sa": "complex transform: synthesis(analysis(f)) == f on the grid for band-limited f",
    "ref_real_analysis": "real analysis of f = sum c_lm Y_lm (independent scipy reference) returns c in the orthonormal Condon-Shortley convention",
    "ref_real_synthesis": "real synthesis of c equals sum c_lm Y_lm on the grid",
    "ref_cplx_analysis": "complex analysis of f = sum c_lm Y_lm returns c (all l, -l <= m <= l)",
    "ref_cplx_synthesis": "complex synthesis of c equals sum c_lm Y_lm on the grid",
    "single_cplx": "complex analysis of the grid samples of a single Y_l^m returns the unit vector e_(l,m)",
    "single_real": "real analysis of Re Y_l^m / Im Y_l^m returns 1/2 resp. -i/2 (1 for m = 0) at (l,m) and 0 elsewhere",
    "py_real_analysis": "analysis_pure_python agrees with the reference coefficients (hence with the compiled kernel)",
    "py_cplx_analysis": "analysis_pure_python_cplx agrees with the reference coefficients (hence with the compiled kernel)",
    "py_real_synthesis": "synthesis_pure_python agrees with the reference function (hence with the compiled kernel)",
    "py_cplx_synthesis": "synthesis_pure_python_cplx agrees with the reference function (hence with the compiled kernel)",
    "kernel_vs_python": "compiled kernels and pure-Python reference paths return the same arrays",
    "pointwise_real": "evaluate_at_points (real coefficients) equals sum c_lm Y_lm(theta, phi), i.e. agrees with synthesis",
    "pointwise_cplx": "evaluate_at_points (complex coefficients) equals sum c_lm Y_lm(theta, phi), i.e. agrees with synthesis",
    "pointwise_near_pole": "evaluate_at_points within a few 1e-6 rad of a pole equals sum c_lm Y_lm(theta, phi) to 1e-7 relative",
    "pointwise_pole": "evaluate_at_points at the poles (theta = 0, pi; cos(theta) = +-1 exactly) equals sum c_lm Y_lm(theta, phi)",
    "plm_compiled": "compiled AssocLegendre.evaluate_batch returns the orthonormal Pbar_l^m(x) in (m,l) order",
    "plm_python": "assoc_legendre.AssocLegendre.evaluate_batch returns the orthonormal Pbar_l^m(x) in (m,l) order",
    "expand": "complete_coefficients(real analysis) == complex analysis of the same real function: c(l,-m) = (-1)^m conj c(l,m)",
    "dtype_independent": "analysis of grid samples stored as float32 / complex64 equals the analysis of the same numbers stored as float64 / complex128 (to 1e-12 relative)",
    "linear_analysis": "analysis(a f + b g) == a analysis(f) + b analysis(g)",
    "linear_synthesis": "synthesis(a c + b d) == a synthesis(c) + b synthesis(d)",
    "parseval_real": "real transform: integral |f|^2 == sum_l |c_l0|^2 + 2 sum_(m>0) |c_lm|^2",
    "parseval_cplx": "complex transform: integral |f|^2 == sum |c_lm|^2",
    "grid": "grid of SHT(L): nphi equispaced longitudes, ntheta Gauss-Legendre nodes, weights summing to 4 pi",
    "no_exception": "constructing SHT(L) and every transform / evaluation call on valid inputs returns without raising",
}


def _native_one_L(nat, seed, L, reps, L_ref, L_py, L_single):
    from chmpy.shape.sht import SHT
    from chmpy.shape.assoc_legendre import AssocLegendre as PyAL
    from chmpy.shape._sht import AssocLegendre as CyAL
    from scipy.special import roots_legendre
    s = SHT(L)
    th, ph = s.grid
    inp = {"L": L, "nphi": int(s.nphi), "ntheta": int(s.ntheta)}
    # ---- grid ------------------------------------------------------------------------------------------------
    if not (int(s.nphi) >= 1 and int(s.ntheta) >= 1 and np.shape(th) == (s.ntheta, s.nphi) and np.shape(ph) == (s.ntheta, s.nphi)):
        nat.check("grid", np.zeros(1), np.ones(1), dict(inp, grid_shape=list(np.shape(th))))      # degenerate grid: nothing else can be evaluated at this L
        return
    xs, wsr = roots_legendre(s.ntheta)
    nat.check("grid", np.concatenate([s.phi, s.cos_theta, s.weights, [s.weights.sum()], np.cos(th[:, 0]), ph[0, :]]),
              np.concatenate([2 * np.pi * np.arange(s.nphi) / s.nphi, xs, 2 * np.pi * wsr, [4 * np.pi], xs, 2 * np.pi * np.arange(s.nphi) / s.nphi]), inp)
    # a grid chosen by the caller (more points than the default): the same grid rule and an exact round trip on it
    if L in (0, 1, 2, 3, 5, 8, 13, 21, 34, 48, 64):
        n2, t2 = 2 * int(s.nphi) + 2 * (L % 3), int(s.ntheta) + 2 + (L % 4)
        inp2 = {"L": L, "nphi": n2, "ntheta": t2, "grid": "passed explicitly to the constructor"}
        try:
            s2 = SHT(L, nphi=n2, ntheta=t2)
            th2, ph2 = s2.grid
            xs2, ws2 = roots_legendre(t2)
            nat.check("grid", np.concatenate([s2.phi, s2.cos_theta, s2.weights, np.cos(th2[:, 0]), ph2[0, :], [s2.nphi, s2.ntheta]]),
                      np.concatenate([2 * np.pi * np.arange(n2) / n2, xs2, 2 * np.pi * ws2, xs2, 2 * np.pi * np.arange(n2) / n2, [n2, t2]]), inp2)
            s3 = SHT(L, n2, t2)          # the documented order of the optional arguments: SHT(l_max, nphi, ntheta)
            nat.check("grid", [s3.nphi, s3.ntheta] + list(np.shape(s3.grid[0])), [n2, t2, t2, n2], dict(inp2, grid="passed positionally: SHT(l_max, nphi, ntheta)"))
            c2 = random_real_coeffs(np.random.default_rng([seed, L, 77]), L)
            v2 = s2.synthesis(c2)
            nat.check("roundtrip_real_as", s2.analysis(v2), c2, inp2)
            # the function synthesised on the finer grid is the same function: sampled at the default grid's own points it gives the default synthesis
            k_t, k_p = 1 % s.ntheta, 1 % s.nphi
            nat.check("pointwise_real", [s2.evaluate_at_points(c2, float(th[k_t, 0]), float(ph[0, k_p]))], [s.synthesis(c2)[k_t, k_p]], inp2)
        except Exception as e:  # noqa
            nat.check("no_exception", np.zeros(1), np.ones(1), dict(inp2, raised=repr(e)[:160]))
    for rep in range(reps):
        rng = np.random.default_rng([seed, L, rep])
        inp = {"L": L, "rep": rep, "coefficients": "numpy default_rng([seed, L, rep]) standard normal re+im"}
        W = s.weights[:, None] / s.nphi
        # ---- real transform ----------------------------------------------------------------------------------
        c = random_real_coeffs(rng, L)
        d = random_real_coeffs(rng, L)
        v = s.synthesis(c)
        a = s.analysis(v)
        nat.check("roundtrip_real_as", a, c, inp)
        nat.check("roundtrip_real_sa", s.synthesis(a), v, inp)
        nat.check("parseval_real", [(v ** 2 * W).sum()], [(np.abs(c[:L + 1]) ** 2).sum() + 2 * (np.abs(c[L + 1:]) ** 2).sum()], inp)
        al, be = rng.normal(size=2)
        vd = s.synthesis(d)
        nat.check("linear_synthesis", s.synthesis(al * c + be * d), al * v + be * vd, inp)
        nat.check("linear_analysis", s.analysis(al * v + be * vd), al * a + be * s.analysis(vd), inp)
        # homogeneity at extreme magnitudes (the transform has no preferred unit): analysis(k f) == k analysis(f), compared relative to k
        for kf in (1e-18, 1e12):
            nat.check("linear_analysis", s.analysis(kf * v) / kf, a, dict(inp, scaled_by=kf))
            nat.check("linear_synthesis", s.synthesis(kf * c) / kf, v, dict(inp, scaled_by=kf))
        nat.check("expand", s.complete_coefficients(a), s.analysis(v.astype(complex)) if L else a, inp)
        nat.check("expand", s.complete_coefficients(c), full_from_real(L, c), inp)
        if L >= 1:
            # ---- complex transform ---------------------------------------------------------------------------
            cc = rng.normal(size=nlm(L)) + 1j * rng.normal(size=nlm(L))
            dd = rng.normal(size=nlm(L)) + 1j * rng.normal(size=nlm(L))
            vc = s.synthesis(cc)
            ac = s.analysis(vc)
            nat.check("roundtrip_cplx_as", ac, cc, inp)
            nat.check("roundtrip_cplx_sa", s.synthesis(ac), vc, inp)
            nat.check("parseval_cplx", [(np.abs(vc) ** 2 * W).sum()], [(np.abs(cc) ** 2).sum()], inp)
            al, be = rng.normal(size=2) + 1j * rng.normal(size=2)
            vdd = s.synthesis(dd)
            nat.check("linear_synthesis", s.synthesis(al * cc + be * dd), al * vc + be * vdd, inp)
            nat.check("linear_analysis", s.analysis(al * vc + be * vdd), al * ac + be * s.analysis(vdd), inp)
            for kf in (1e-18, 1e12):
                nat.check("linear_analysis", s.analysis(kf * vc) / kf, ac, dict(inp, scaled_by=kf, transform="complex"))
                nat.check("linear_synthesis", s.synthesis(kf * cc) / kf, vc, dict(inp, scaled_by=kf, transform="complex"))
            # a real function written in the complex (all m) layout: the complex transform treats it like any other coefficient vector
            ch = s.complete_coefficients(c)
            vh = s.synthesis(ch)
            nat.check("roundtrip_cplx_as", s.analysis(vh), ch, dict(inp, coefficients="complete_coefficients(real coefficient set): Hermitian symmetric, all m"))
            nat.check("ref_cplx_synthesis", np.asarray(vh).real, v, dict(inp, coefficients="complete_coefficients(real coefficient set)"))
        # the samples handed over in single precision (exactly representable values): the transform itself is carried out in double precision
        v32 = v.astype(np.float32)
        nat.check("dtype_independent", s.analysis(v32), s.analysis(v32.astype(np.float64)), dict(inp, samples_dtype="float32"), scale=1e-2 * max(1.0, float(np.max(np.abs(a)))))
        if L >= 1:
            vc64 = vc.astype(np.complex64)
            nat.check("dtype_independent", s.analysis(vc64), s.analysis(vc64.astype(np.complex128)), dict(inp, samples_dtype="complex64"), scale=1e-2 * max(1.0, float(np.max(np.abs(ac)))))
        if L in L_ref and rep == 0:
            # ---- against the independent reference -----------------------------------------------------------
            cfull = full_from_real(L, c)
            table = ref_theta_table(L, th[:, 0])
            fr = ref_on_grid(L, cfull, table, ph[0, :])
            assert np.max(np.abs(fr.imag)) <= 1e-9 * max(1.0, np.max(np.abs(fr.real))), "reference function of a real coefficient set is not real"
            fr = fr.real
            nat.check("ref_real_synthesis", v, fr, inp)
            nat.check("ref_real_analysis", s.analysis(fr), c, inp)
            nat.check("roundtrip_real_sa", s.synthesis(s.analysis(fr)), fr, inp)
            pts_t = np.concatenate([rng.uniform(0.05, np.pi - 0.05, 4), [th[1 % s.ntheta, 0], th[-1, 0]]])
            pts_p = np.concatenate([rng.uniform(0, 2 * np.pi, 4), [ph[0, 1 % s.nphi], ph[0, -1]]])
            # two directions very close to (but not on) the poles: 1 - cos^2(theta) loses about six digits there, so the tolerance is 1e-7 relative instead of 1e-10
            near_t, near_p = np.array([3e-6, np.pi - 4e-6]), np.array([0.7, 2.9])
            wn = ref_at_points(L, cfull, near_t, near_p).real
            gn = np.array([s.evaluate_at_points(c, t, p) for t, p in zip(near_t, near_p)])
            nat.check("pointwise_near_pole", gn, wn, dict(inp, theta=near_t.tolist(), phi=near_p.tolist()), scale=1e3 * max(1.0, float(np.max(np.abs(wn)))))
            want = ref_at_points(L, cfull, pts_t, pts_p).real
            got = np.array([s.evaluate_at_points(c, t, p) for t, p in zip(pts_t, pts_p)])
            nat.check("pointwise_real", got, want, dict(inp, theta=pts_t.tolist(), phi=pts_p.tolist()))
            # the poles: cos(theta) = +-1 exactly (each evaluation preceded by one at another point, so that stale work-array contents cannot pass for the answer)
            pole_t = np.array([0.0, np.pi])
            pole_p = np.array([0.3, 1.1])
            wantq = ref_at_points(L, cfull, pole_t, pole_p).real
            gotq = []
            with quiet_stderr():
                for t, p_ in zip(pole_t, pole_p):
                    s.evaluate_at_points(c, 1.0, 2.0)
                    gotq.append(s.evaluate_at_points(c, t, p_))
            nat.check("pointwise_pole", np.array(gotq), wantq, dict(inp, theta=pole_t.tolist(), phi=pole_p.tolist(), preceded_by={"theta": 1.0, "phi": 2.0}))
            xq = float(np.cos(pts_t[0]))
            wantp = np.zeros(nplm(L))
            tab1 = ref_theta_table(L, pts_t[:1])
            for l in range(L + 1):
                for m in range(l + 1):
                    wantp[plm_index(L, m, l)] = sgn(m) * tab1[l * (l + 1) + m, 0]
            nat.check("plm_compiled", CyAL(L).evaluate_batch(xq), wantp, dict(inp, x=xq))
            nat.check("plm_python", PyAL(L).evaluate_batch(xq), wantp, dict(inp, x=xq))
            # the pure-Python reference exactly at the poles: Pbar_l^0(+-1) = (+-1)^l sqrt((2l+1)/(4 pi)), every m > 0 term vanishes
            for xpole in (1.0, -1.0):
                wantpole = np.zeros(nplm(L))
                for l in range(L + 1):
                    wantpole[plm_index(L, 0, l)] = (xpole ** l) * np.sqrt((2 * l + 1) / (4 * np.pi))
                with quiet_stderr():
                    nat.check("plm_python", PyAL(L).evaluate_batch(xpole), wantpole, dict(inp, x=xpole))
            if L >= 1:
                fc = ref_on_grid(L, cc, table, ph[0, :])
                nat.check("ref_cplx_synthesis", vc, fc, inp)
                nat.check("ref_cplx_analysis", s.analysis(fc), cc, inp)
                nat.check("roundtrip_cplx_sa", s.synthesis(s.analysis(fc)), fc, inp)
                want = ref_at_points(L, cc, pts_t, pts_p)
                got = np.array([s.evaluate_at_points(cc, t, p) for t, p in zip(pts_t, pts_p)])
                nat.check("pointwise_cplx", got, want, dict(inp, theta=pts_t.tolist(), phi=pts_p.tolist()))
            if L in L_py:
                nat.check("py_real_analysis", s.analysis_pure_python(fr), c, inp)
                nat.check("py_real_synthesis", s.synthesis_pure_python(c), fr, inp)
                nat.check("kernel_vs_python", s.analysis_pure_python(fr), s.analysis(fr), inp)
                nat.check("kernel_vs_python", s.synthesis_pure_python(c), v, inp)
                if L >= 1:
                    nat.check("py_cplx_analysis", s.analysis_pure_python_cplx(fc), cc, inp)
                    nat.check("py_cplx_synthesis", s.synthesis_pure_python_cplx(cc), fc, inp)
                    nat.check("kernel_vs_python", s.analysis_pure_python_cplx(fc), s.analysis(fc), inp)
                    nat.check("kernel_vs_python", s.synthesis_pure_python_cplx(cc), vc, inp)
        if L in L_single and rep == 0:
            table = ref_theta_table(L, th[:, 0])
            for l in range(L + 1):
                Y = np.array([np.outer(table[l * (l + 1) + m], np.exp(1j * m * ph[0, :])) for m in range(-l, l + 1)])
                for m in range(-l, l + 1):
                    inp1 = {"L": L, "l": l, "m": m, "input": "grid samples of Y_l^m = sph_harm_y(l, m, theta, 0) e^{i m phi}"}
                    if L >= 1:
                        e = np.zeros(nlm(L), dtype=complex)
                        e[l * (l + 1) + m] = 1
                        nat.check("single_cplx", s.analysis(Y[l + m]), e, inp1)
                    if m >= 0:
                        e = np.zeros(nplm(L), dtype=complex)
                        e[plm_index(L, m, l)] = 1 if m == 0 else 0.5
                        nat.check("single_real", s.analysis(np.ascontiguousarray(Y[l + m].real)), e, dict(inp1, part="real"))
                        if m > 0:
                            e[plm_index(L, m, l)] = -0.5j
                            nat.check("single_real", s.analysis(np.ascontiguousarray(Y[l + m].imag)), e, dict(inp1, part="imag"))


def native_run(seed, tier):
    """Run every clause natively on the real chmpy functions.  -> Native (fails keyed by clause), domain description"""
    import warnings
    warnings.filterwarnings("ignore")
    from chmpy.shape.sht import SHT
    from chmpy.shape.assoc_legendre import AssocLegendre as PyAL
    from chmpy.shape._sht import AssocLegendre as CyAL
    from scipy.special import roots_legendre
    nat = Native(seed)
    thorough = tier == "thorough"
    L_round = list(range(0, LMAX_STATEMENT + 1))
    L_ref = L_round
    L_py = L_round if thorough else list(range(0, 17)) + [21, 33, 48, 64]
    L_single = list(range(0, 17)) + [33, 64] if thorough else list(range(0, 9))
    reps = 3 if thorough else 1
    for L in L_round:
        try:
            _native_one_L(nat, seed, L, reps, L_ref, L_py, L_single)
        except Exception as e:    # a crash of the real code on a valid input is a failing input, not a checker error
            import traceback
            nat.evals["no_exception"] = nat.evals.get("no_exception", 0) + 1
            tb = traceback.extract_tb(e.__traceback__)
            where = next((f"{fr.filename}:{fr.lineno} in {fr.name}" for fr in reversed(tb) if "/chmpy/" in fr.filename), None)
            if where is None:
                raise                 # not raised inside chmpy: a harness problem is a checker error, never a violation
            if "no_exception" not in nat.fails:
                nat.fails["no_exception"] = {"input": {"L": L, "seed": seed}, "observed": f"{type(e).__name__}: {e} at {where}", "clause": CLAUSES["no_exception"], "key": "no_exception"}
        else:
            nat.evals["no_exception"] = nat.evals.get("no_exception", 0) + 1
    dom = {"L_roundtrip": "0..64 (complex transform 1..64)", "L_reference": "0..64", "L_pure_python": L_py if not thorough else "0..64",
           "L_single_harmonic": L_single, "repetitions": reps}
    return nat, dom


# ================================================================================================================
# the check
# ================================================================================================================
FN_KEYS = {   # function under contract -> native clauses that exercise it (witness search for refuted P obligations)
    "analysis_pure_python": ["py_real_analysis"], "analysis_pure_python_cplx": ["py_cplx_analysis"],
    "synthesis_pure_python": ["py_real_synthesis"], "synthesis_pure_python_cplx": ["py_cplx_synthesis"],
    "analysis/real": ["ref_real_analysis", "roundtrip_real_as", "kernel_vs_python"], "analysis/cplx": ["ref_cplx_analysis", "roundtrip_cplx_as", "kernel_vs_python"],
    "synthesis/real": ["ref_real_synthesis", "kernel_vs_python"], "synthesis/cplx": ["ref_cplx_synthesis", "kernel_vs_python"],
    "_eval_at_points_real": ["pointwise_real"], "_eval_at_points_cplx": ["pointwise_cplx"], "complete_coefficients": ["expand"],
    "plm_python": ["plm_python"], "plm_compiled": ["plm_compiled"], "grid": ["grid", "roundtrip_real_as", "roundtrip_cplx_as"],
}


def build(ctx):
    t_start = time.time()
    thorough = ctx.tier == "thorough"
    ctx.level = "other"
    ctx.explanation = (
        "G (complete over L = 0..64, exact integers, real source interpreted AND executed natively): grid selection of SHT.__init__ / "
        "_closest_int_with_only_prime_factors_up_to_fmax (nphi >= 2L+1 and 7-smooth, ntheta >= L+1 and the least multiple of 8, FFT bins m and nphi-m distinct "
        "and in range, work-array lengths). "
        "P (all real inputs, VCs from the real source text): recurrence coefficients a_lm, b_lm of assoc_legendre.py and of the extracted _sht.pyx equal the "
        "orthonormal three-term recurrence for ALL 0 <= m < l (symbolic l, m), a_mm for m = 0..64; and, per instance L of a stated list (loops over concrete "
        "ranges are unrolled, data symbolic): evaluate_batch (Python and extracted Cython) fills result[plm_index(m,l)] with the recurrence value; "
        "the four pure-Python transform paths and SHT.analysis/SHT.synthesis running the EXTRACTED Cython kernels compute exactly the quadrature sums / Fourier rows of the "
        "oracle (so kernel source == pure-Python path, index bookkeeping, (-1)^m handling, nphi-m bins); complete_coefficients writes every cell with c(l,-m)=(-1)^m conj c(l,m); "
        "_eval_at_points_* against sum c_lm Y_lm with e^{i m phi} abstract; SHT.__init__ builds equispaced phi and weights scaled to 4 pi; and for small L the composition "
        "analysis(synthesis(c)) == c from the real bodies under the discrete orthonormality of the quadrature (hypothesis) and the DFT inverse/real-part lemmas (assumed). "
        "B (bounded, never counted): exactness against an independent scipy reference, both round trips, compiled == pure-Python == point-wise, linearity, Parseval, "
        "single-harmonic inputs — every L = 0..64 natively.  The clauses 'exact for every L' as a whole rest on the assumed Gauss-Legendre/FFT exactness theorems and are therefore "
        "only B; the compiled binary is tied to the verified .pyx text only by the B conformance runs and the source/binary line comparison (Cython unavailable).")
    ctx.assumptions += [
        "floats are mathematical reals (float64 rounding not modelled; the run-time stand-ins use relative tolerance 1e-10)",
        "Gauss-Legendre quadrature with n nodes is exact for polynomials of degree <= 2n-1; an N-point equispaced rule / FFT is exact for |frequency| < N (cited theorems)",
        "the functions defined by the orthonormal three-term recurrence with a_mm, a_lm, b_lm are the orthonormal associated Legendre functions (textbook)",
        "scipy.fft.fft/ifft with norm='forward', overwrite_x=True on a contiguous complex128 vector transform it IN PLACE; fft(ifft(B)) = B; fft(Re ifft(B))[k] = (B[k] + conj B[(N-k) mod N]) / 2",
        "scipy.special.roots_legendre(n) returns the n Gauss-Legendre nodes and weights; scipy.special.sph_harm_y is the orthonormal Condon-Shortley reference (B only)",
        "numpy.exp(i t) = cos t + i sin t, cos(-t) = cos t, sin(-t) = -sin t; 3.14159 < pi < 3.1416",
        "Cython/gcc compile _sht.pyx to the C semantics made explicit by the extractor (int/int division truncates; double->int truncates); the .so was built from the _sht.c on disk",
    ]

    # ------------------------------------------------------------------------------------------------------------
    # native run first: its failures are the witnesses for every refuted obligation below
    # ------------------------------------------------------------------------------------------------------------
    nat, dom = native_run(ctx.seed, ctx.tier)

    def replay_for(*fn_keys):
        keys = [k for fk in fn_keys for k in FN_KEYS.get(fk, [fk])]

        def replay(model):
            for k in keys:
                if k in nat.fails:
                    f = nat.fails[k]
                    return {"native_inputs": f["input"], "reproduced": True, "observed": f"{f['clause']}: {f['observed']}"}
            return {"native_inputs": {"clauses": keys, "domain": dom}, "reproduced": False,
                    "observed": "the native run-time contracts for this function hold on the bounded domain (for _sht.pyx the compiled binary cannot be rebuilt here)"}
        return replay

    # ------------------------------------------------------------------------------------------------------------
    # sources
    # ------------------------------------------------------------------------------------------------------------
    mod = source.load_module(MOD)
    almod = source.load_module(AL)
    SF = lambda n: ctx.fn(MOD, "SHT." + n)
    f_pow2, f_closest = ctx.fn(MOD, "_next_power_of_2"), ctx.fn(MOD, "_closest_int_with_only_prime_factors_up_to_fmax")
    f_init = SF("__init__")
    for n in ("idx_c", "nlm", "nplm", "analysis_pure_python", "analysis_pure_python_cplx", "synthesis_pure_python", "synthesis_pure_python_cplx", "analysis",
              "synthesis", "_eval_at_points_real", "_eval_at_points_cplx", "evaluate_at_points", "complete_coefficients", "grid"):
        SF(n)
    for n in ("__init__", "_amm", "_amn", "_bmn", "_compute_ab", "evaluate_batch"):
        ctx.fn(AL, "AssocLegendre." + n)
    pmod, pyx_err = None, None
    try:
        pmod, ptypes = c07_pyx.load_pyx()
        for n in ("amm", "alm", "blm", "compute_ab", "AssocLegendre.__init__", "AssocLegendre.evaluate_batch_cython", "AssocLegendre.evaluate_batch",
                  "analysis_cython_cplx", "synthesis_cython_cplx", "synthesis_cython_real", "analysis_cython_real", "expand_coeffs_cython",
                  "analysis_kernel_cplx", "analysis_kernel_real", "synthesis_kernel_cplx", "synthesis_kernel_real", "expand_coeffs_to_full"):
            pf = c07_pyx.PyxFn(pmod, n)
            ctx.functions[pf.qualname] = pf.describe()
        ncmp, diffs = c07_pyx.binary_skew(pmod)
        if diffs is None:
            ctx.notes.append("source/binary: no generated _sht.c found; the compiled kernels are tied to the .pyx only by the run-time conformance checks")
        elif diffs:
            ctx.notes.append(f"source/binary SKEW: {len(diffs)} of {ncmp} .pyx lines embedded in _sht.c differ from the working tree (first: line {diffs[0][0]}: built from "
                             f"{diffs[0][1]!r}, now {diffs[0][2]!r}); P obligations speak about the current .pyx text, run-time stand-ins about the stale binary")
        else:
            ctx.notes.append(f"source/binary: all {ncmp} .pyx lines embedded in the generated _sht.c equal the working-tree _sht.pyx; extractor made {pmod.c_rewrites} C-semantics rewrites")
    except (c07_pyx.ExtractionError, KeyError, IndexError, OSError) as e:
        pyx_err = f"de-cythoniser: {e!r}"
        ctx.outside_subset.append({"obligation": "C07/_sht.pyx", "reason": pyx_err})

    def new_interp(env, link=False):
        I = Interp7(models=make_models(env, pmod, link=link))
        ctx._interps = getattr(ctx, "_interps", [])
        ctx._interps.append(I)
        return I

    # ------------------------------------------------------------------------------------------------------------
    # G: grid selection, complete over L = 0..64 (the real __init__ interpreted on concrete L; cross-checked natively)
    # ------------------------------------------------------------------------------------------------------------
    env0 = Env()
    I0 = new_interp(env0)
    S0 = I0.class_of(mod, "SHT")
    grids = {}

    def ob_grid():
        from chmpy.shape.sht import SHT as NativeSHT
        bad = {k: [] for k in ("nphi", "ntheta", "bins", "arrays", "closest")}
        for L in range(0, LMAX_STATEMENT + 1):
            res = I0.explore(lambda I2, a, kw: I2.instantiate(S0, [L], {}))
            if len(res) != 1 or res[0].kind != "return":
                raise Unsupported(f"SHT.__init__({L}) does not return on a single path: {[(r.kind, str(r.value)) for r in res][:2]}")
            o = res[0].value
            N, T = o.fields["nphi"], o.fields["ntheta"]
            if not (isinstance(N, int) and isinstance(T, int)):
                raise Unsupported("grid sizes are not concrete integers")
            grids[L] = (N, T, res[0])
            s = NativeSHT(L)
            if (int(s.nphi), int(s.ntheta)) != (N, T):
                raise RuntimeError(f"interpreter/CPython disagreement on SHT({L}) grid sizes: {(N, T)} vs {(s.nphi, s.ntheta)}")
            r2 = I0.run(f_closest, [2 * L + 1])
            if len(r2) != 1 or r2[0].kind != "return" or r2[0].value != N:
                bad["closest"].append({"L": L, "nphi": N, "function_value": str(r2[0].value)})
            if not (N >= 2 * L + 1 and (is_7_smooth(N) or N & (N - 1) == 0) and N <= max(7, 2 * (2 * L + 1))):
                bad["nphi"].append({"L": L, "nphi": N})
            if not (T >= L + 1 and T % 8 == 0 and T - 8 < L + 1):
                bad["ntheta"].append({"L": L, "ntheta": T})
            bins = list(range(0, L + 1)) + [N - m for m in range(1, L + 1)]
            if not (len(set(bins)) == 2 * L + 1 and all(0 <= b < N for b in bins)):
                bad["bins"].append({"L": L, "nphi": N})
            fw, pw, ph, ct, wt = (o.fields[k] for k in ("fft_work_array", "plm_work_array", "phi", "cos_theta", "weights"))
            if not (fw.shape == (N,) and fw.kind == "c" and pw.shape == (nplm(L),) and ph.shape == (N,) and ct.shape == (T,) and wt.shape == (T,)
                    and o.fields["lmax"] == L):
                bad["arrays"].append({"L": L})
        rp = replay_for("grid")
        G = lambda ident, key, clause, f: ctx.ground(ident, not bad[key], clause=clause, detail={"L": "0..64", "violations": bad[key][:5]},
                                                     witness=(bad[key] or [None])[0], fn=f)
        G("sht.SHT.__init__/ensures/nphi_resolves_band", "nphi", "for every L in 0..64: nphi >= 2L+1 (no aliasing of degrees <= L), nphi is 7-smooth or a power of two, nphi <= 2(2L+1)", f_init)
        G("sht.SHT.__init__/ensures/ntheta_gauss_exact", "ntheta", "for every L in 0..64: ntheta >= L+1 (Gauss-Legendre exact to degree 2L) and ntheta is the least multiple of 8 with that property", f_init)
        G("sht.SHT.__init__/ensures/fft_bins_distinct", "bins", "for every L in 0..64: the FFT bins 0..L and nphi-1..nphi-L are 2L+1 distinct indices inside [0, nphi)", f_init)
        G("sht.SHT.__init__/ensures/work_arrays", "arrays", "for every L in 0..64: fft_work_array is complex of length nphi, plm_work_array has nplm entries, phi/cos_theta/weights have nphi/ntheta/ntheta entries", f_init)
        G("sht._closest_int_with_only_prime_factors_up_to_fmax/ensures/is_nphi", "closest", "for every L in 0..64: nphi == _closest_int_with_only_prime_factors_up_to_fmax(2L+1)", f_closest)
    ctx.attempt("sht.SHT.__init__/ensures/grid", ob_grid, replay=replay_for("grid"), fn=f_init)

    def ob_pow2():
        bad = []
        for n in range(0, 300):
            r = I0.run(f_pow2, [n])
            v = r[0].value
            if not (len(r) == 1 and isinstance(v, int) and v >= max(1, n) and v & (v - 1) == 0 and (v == 1 or v // 2 < n)):
                bad.append({"n": n, "value": str(v)})
        ctx.ground("sht._next_power_of_2/ensures/least_power", not bad, clause="for every n in 0..299 (covers 2L+1 <= 129 and all intermediate candidates): the result is the least power of two >= max(n, 1)",
                   detail={"violations": bad[:5]}, witness=(bad or [None])[0], fn=f_pow2)
    ctx.attempt("sht._next_power_of_2/ensures/least_power", ob_pow2, fn=f_pow2)

    # P: the constructed grid (symbolic Gauss-Legendre nodes from the roots_legendre contract)
    L_inst = list(range(0, 13)) + [16, 24, 33, 64] if thorough else [0, 1, 2, 3, 4, 6, 9]

    def ob_grid_values(L):
        N, T, r = grids[L]
        o = r.value
        H = list(r.pc) + PI_HYP + [z3.Real("gl_total") > 0]
        ph, wt, ct, th = (o.fields[k].flat() for k in ("phi", "weights", "cos_theta", "theta"))
        goals = [ph[j] * N == 2 * _PI * j for j in range(N)]
        goals += [wt[t] * z3.Real("gl_total") == 4 * _PI * z3.Real(f"gl_w{t}") for t in range(T)]
        goals += [ct[t] == z3.Real(f"gl_x{t}") for t in range(T)]
        goals += [th[t] == ufun("arccos")(z3.Real(f"gl_x{t}")) for t in range(T)]
        ctx.prove(f"sht.SHT.__init__/ensures/grid_values/L={L}", H, conj(goals), split=False, replay=replay_for("grid"), fn=f_init,
                  clause="phi_j = 2 pi j / nphi; weights = 4 pi w_GL / total (sum 4 pi); cos_theta are the Gauss-Legendre nodes; theta = arccos(cos_theta)")
        ctx.safety(f"sht.SHT.__init__/L={L}", [r], replay=replay_for("grid"), fn=f_init)
    for L in (L_inst if grids else []):
        if L in grids:
            ctx.attempt(f"sht.SHT.__init__/ensures/grid_values/L={L}", lambda L=L: ob_grid_values(L), fn=f_init)

    # ------------------------------------------------------------------------------------------------------------
    # P: recurrence coefficients — symbolic (l, m), Python and extracted Cython
    # ------------------------------------------------------------------------------------------------------------
    mI, dI = z3.Int("m"), z3.Int("d")
    lI = mI + dI
    lr, mr = z3.ToReal(lI), z3.ToReal(mI)
    pre_lm = [mI >= 0, dI >= 1]
    ALc = I0.class_of(almod, "AssocLegendre")

    def coeff_obligations(tag, fa, fb, fmm, call_a, call_b, call_mm, rp):
        def ob_a():
            res = I0.explore(lambda I2, a, kw: call_a(I2, lI, mI), pre=pre_lm)
            for k, r in enumerate(res):
                if r.kind != "return":
                    ctx.prove(f"{tag}.a_lm/returns/path{k}", r.pc, z3.BoolVal(False), clause="a_lm is defined for 0 <= m < l", replay=rp, fn=fa)
                    continue
                ctx.prove(f"{tag}.a_lm/ensures/orthonormal_recurrence", r.pc, z3.And(r.value >= 0, r.value * r.value * (lr * lr - mr * mr) == 4 * lr * lr - 1), replay=rp, fn=fa,
                          clause="for all 0 <= m < l: a_lm >= 0 and a_lm^2 = (4 l^2 - 1) / (l^2 - m^2)")
            ctx.safety(f"{tag}.a_lm", res, replay=rp, fn=fa)

        def ob_b():
            res = I0.explore(lambda I2, a, kw: call_b(I2, lI, mI), pre=pre_lm)
            for k, r in enumerate(res):
                if r.kind != "return":
                    ctx.prove(f"{tag}.b_lm/returns/path{k}", r.pc, z3.BoolVal(False), clause="b_lm is defined for 0 <= m < l", replay=rp, fn=fb)
                    continue
                ctx.prove(f"{tag}.b_lm/ensures/orthonormal_recurrence", r.pc,
                          z3.And(r.value <= 0, r.value * r.value * ((2 * lr - 3) * (lr * lr - mr * mr)) == (2 * lr + 1) * ((lr - 1) * (lr - 1) - mr * mr)), replay=rp, fn=fb,
                          clause="for all 0 <= m < l: b_lm <= 0 and b_lm^2 = (2l+1)((l-1)^2 - m^2) / ((2l-3)(l^2 - m^2))  [= a_lm^2 ((l-1)^2-m^2)/(4(l-1)^2-1)]")
            ctx.safety(f"{tag}.b_lm", res, replay=rp, fn=fb)

        def ob_mm():
            for m in range(0, LMAX_STATEMENT + 1):
                res = I0.explore(lambda I2, a, kw: call_mm(I2, m))
                if len(res) != 1 or res[0].kind != "return":
                    raise Unsupported(f"a_mm({m}) does not return on a single path")
                v = res[0].value
                ctx.prove(f"{tag}.a_mm/ensures/sectoral_normalisation/m={m}", list(res[0].pc) + PI_HYP,
                          z3.And(to_real(v) >= 0, to_real(v) * to_real(v) * 4 * _PI == z3.RealVal(str(spec_amm_sq_times_4pi(m)))), split=False, replay=rp, fn=fmm,
                          clause="a_mm >= 0 and 4 pi a_mm^2 = (2m+1)!!/(2m)!!  (Pbar_m^m = a_mm (1-x^2)^(m/2) has unit norm), one obligation per m in 0..64")
                if m in (0, 1, LMAX_STATEMENT):
                    r = res[0]
                    r.safety = [(k, list(pc) + PI_HYP, g, n) for (k, pc, g, n) in r.safety]
                    ctx.safety(f"{tag}.a_mm/m={m}", [r], replay=rp, fn=fmm)
        ctx.attempt(f"{tag}.a_lm/ensures/orthonormal_recurrence", ob_a, fn=fa)
        ctx.attempt(f"{tag}.b_lm/ensures/orthonormal_recurrence", ob_b, fn=fb)
        ctx.attempt(f"{tag}.a_mm/ensures/sectoral_normalisation", ob_mm, fn=fmm)

    coeff_obligations("assoc_legendre.AssocLegendre", ctx.fn(AL, "AssocLegendre._amn"), ctx.fn(AL, "AssocLegendre._bmn"), ctx.fn(AL, "AssocLegendre._amm"),
                      lambda I2, l, m: I2.call(I2.getattr(ALc, "_amn"), [m, l]), lambda I2, l, m: I2.call(I2.getattr(ALc, "_bmn"), [m, l]),
                      lambda I2, m: I2.call(I2.getattr(ALc, "_amm"), [m]), replay_for("plm_python"))
    if pmod is not None:
        PF = lambda n: c07_pyx.PyxFn(pmod, n)
        coeff_obligations("_sht", PF("alm"), PF("blm"), PF("amm"),
                          lambda I2, l, m: I2.call(FuncVal(pmod, pmod.functions["alm"]), [l, m]), lambda I2, l, m: I2.call(FuncVal(pmod, pmod.functions["blm"]), [l, m]),
                          lambda I2, m: I2.call(FuncVal(pmod, pmod.functions["amm"]), [m]), replay_for("plm_compiled"))
    else:
        ctx.undecided("_sht/extraction", pyx_err or "extraction failed", clause="the Cython kernels can be extracted mechanically")

    # ------------------------------------------------------------------------------------------------------------
    # P per instance L: evaluate_batch = three-term recurrence in (m, l) producer order (Python and extracted Cython); coefficient placement
    # ------------------------------------------------------------------------------------------------------------
    env1 = Env()
    I1 = new_interp(env1)
    S1 = I1.class_of(mod, "SHT")
    xq = z3.Real("x")

    def spec_recurrence(L, A, B, x, sroot):
        """{plm_index: term}: Pbar_m^m = a_mm (1-x^2)^(m/2); Pbar_(m+1)^m = a x Pbar_m^m; Pbar_l^m = a x Pbar_(l-1)^m + b Pbar_(l-2)^m."""
        out, P = {}, {}
        for m in range(L + 1):
            for l in range(m, L + 1):
                if l == m:
                    v = A[m][m]
                    pw = 1
                    for _ in range(m // 2):
                        pw = num_binop("*", pw, 1 - x * x)
                    if m % 2:
                        pw = num_binop("*", pw, sroot)
                    v = num_binop("*", v, to_real(pw))
                elif l == m + 1:
                    v = A[l][m] * x * P[(l - 1, m)]
                else:
                    v = A[l][m] * x * P[(l - 1, m)] + B[l][m] * P[(l - 2, m)]
                P[(l, m)] = v
                out[plm_index(L, m, l)] = v
        return out

    def ob_evaluate_batch(L, cls, tag, fsrc, rp):
        A = [[z3.Real(f"a{l}_{m}") for m in range(L + 1)] for l in range(L + 1)]
        B = [[z3.Real(f"b{l}_{m}") for m in range(L + 1)] for l in range(L + 1)]
        C = [[z3.Real(f"stale_cache{l}_{m}") for m in range(L + 1)] for l in range(L + 1)]

        def thunk(I2, a, kw):
            o = Obj(cls, {"lmax": L, "a": farr(A), "b": farr(B), "cache": farr(C)})
            res = farr([z3.Real(f"stale_result{i}") for i in range(nplm(L))])
            out = I2.call(I2.getattr(o, "evaluate_batch"), [xq], {"result": res})
            return out, res
        res = I1.explore(thunk, pre=[xq >= -1, xq <= 1])
        if len(res) != 1 or res[0].kind != "return":
            ctx.prove(f"{tag}.evaluate_batch/returns/L={L}", res[0].pc, z3.BoolVal(False), clause="evaluate_batch returns on a single path for -1 <= x <= 1", replay=rp, fn=fsrc)
            return
        out, given = res[0].value
        sroot = ufun("sqrt")(z3.simplify(1 - xq * xq))
        spec = spec_recurrence(L, A, B, xq, sroot)
        goals = [z3.BoolVal(out is given)] + [to_real(out.data[i]) == to_real(spec[i]) for i in range(nplm(L))]
        ctx.prove(f"{tag}.evaluate_batch/ensures/recurrence_in_plm_order/L={L}", res[0].pc, conj(goals), split=False, replay=rp, fn=fsrc,
                  clause="for all x in [-1,1] and all coefficient tables: result[plm_index(m,l)] is the three-term recurrence value of Pbar_l^m(x) (m-major order, no stale cache read), written into the caller's array")
        ctx.safety(f"{tag}.evaluate_batch/L={L}", res, replay=rp, fn=fsrc)

    def compiled_plm_replay(L):
        seeded = replay_for("plm_compiled")

        def rp(model):
            """Run the compiled evaluate_batch at the counter-model's x into a sentinel-filled array and compare with the pure-Python class."""
            from chmpy.shape.assoc_legendre import AssocLegendre as PyAL
            from chmpy.shape._sht import AssocLegendre as CyAL
            x = float(Fraction(str((model or {}).get("x", "1"))))
            with quiet_stderr():
                got = CyAL(L).evaluate_batch(x, result=np.full(nplm(L), 7.0))
            want = PyAL(L).evaluate_batch(x)
            if not np.allclose(got, want, rtol=0, atol=1e-9):
                return {"native_inputs": {"L": L, "x": x, "result_prefilled_with": 7.0}, "reproduced": True,
                        "observed": f"compiled evaluate_batch({x}) leaves {got.tolist()[:6]}..., pure Python gives {want.tolist()[:6]}..."}
            return seeded(model)
        return rp

    f_evb_py = ctx.fn(AL, "AssocLegendre.evaluate_batch")
    PALc = I1.class_of(pmod, "AssocLegendre") if pmod is not None else None
    ALc1 = I1.class_of(almod, "AssocLegendre")
    for L in L_inst:
        ctx.attempt(f"assoc_legendre.AssocLegendre.evaluate_batch/ensures/recurrence_in_plm_order/L={L}",
                    lambda L=L: ob_evaluate_batch(L, ALc1, "assoc_legendre.AssocLegendre", f_evb_py, replay_for("plm_python")), fn=f_evb_py)
        if pmod is not None:
            ctx.attempt(f"_sht.AssocLegendre.evaluate_batch/ensures/recurrence_in_plm_order/L={L}",
                        lambda L=L: ob_evaluate_batch(L, PALc, "_sht.AssocLegendre", c07_pyx.PyxFn(pmod, "AssocLegendre.evaluate_batch_cython"), compiled_plm_replay(L)))

    def ob_placement(L):
        """G: the tables built by the constructors hold, at [l, m], exactly the values of a_lm / b_lm / a_mm proved above (same deterministic terms)."""
        def same_term(u, v):
            return _same(u, v)
        bad = {"py": [], "pyx": []}
        r = I1.explore(lambda I2, a, kw: I2.instantiate(ALc1, [L], {}))
        assert len(r) == 1 and r[0].kind == "return", "assoc_legendre.AssocLegendre(L) does not construct"
        oa = r[0].value
        rp_ = None
        if pmod is not None:
            rp_ = I1.explore(lambda I2, a, kw: I2.instantiate(PALc, [L], {}))
            assert len(rp_) == 1 and rp_[0].kind == "return", "_sht.AssocLegendre(L) does not construct"
        for m in range(L + 1):
            for l in range(m, L + 1):
                if l == m:
                    want_py = I1.explore(lambda I2, a, kw: I2.call(I2.getattr(ALc1, "_amm"), [m]))[0].value
                    want_b_py = None
                else:
                    want_py = I1.explore(lambda I2, a, kw: I2.call(I2.getattr(ALc1, "_amn"), [m, l]))[0].value
                    want_b_py = I1.explore(lambda I2, a, kw: I2.call(I2.getattr(ALc1, "_bmn"), [m, l]))[0].value
                if not same_term(oa.fields["a"].data[l, m], want_py) or (want_b_py is not None and not same_term(oa.fields["b"].data[l, m], want_b_py)):
                    bad["py"].append({"l": l, "m": m})
                if rp_ is not None:
                    ob = rp_[0].value
                    if l == m:
                        w_a = I1.explore(lambda I2, a, kw: I2.call(FuncVal(pmod, pmod.functions["amm"]), [m]))[0].value
                        w_b = Fraction(0)
                    else:
                        w_a = I1.explore(lambda I2, a, kw: I2.call(FuncVal(pmod, pmod.functions["alm"]), [l, m]))[0].value
                        w_b = I1.explore(lambda I2, a, kw: I2.call(FuncVal(pmod, pmod.functions["blm"]), [l, m]))[0].value
                    if not same_term(ob.fields["a"].data[l, m], w_a) or not same_term(ob.fields["b"].data[l, m], w_b):
                        bad["pyx"].append({"l": l, "m": m})
        if oa.fields["lmax"] != L or oa.fields["cache"].shape != (L + 1, L + 1):
            bad["py"].append({"fields": "lmax/cache"})
        ctx.ground(f"assoc_legendre.AssocLegendre.__init__/ensures/tables/L={L}", not bad["py"], fn=ctx.fn(AL, "AssocLegendre._compute_ab"),
                   clause="a[l,m] = _amn(m,l), b[l,m] = _bmn(m,l) for m < l <= L, a[m,m] = _amm(m); cache is (L+1)x(L+1)", detail={"violations": bad["py"][:5]}, witness=(bad["py"] or [None])[0])
        if rp_ is not None:
            ctx.ground(f"_sht.AssocLegendre.__init__/ensures/tables/L={L}", not bad["pyx"], fn=c07_pyx.PyxFn(pmod, "compute_ab"),
                       clause="a[l,m] = alm(l,m), b[l,m] = blm(l,m) for m < l <= L, a[m,m] = amm(m), b[m,m] = 0 (extracted Cython constructor)", detail={"violations": bad["pyx"][:5]},
                       witness=(bad["pyx"] or [None])[0])
    for L in ([4, 16] if thorough else [4, 9]):
        ctx.attempt(f"assoc_legendre.AssocLegendre.__init__/ensures/tables/L={L}", lambda L=L: ob_placement(L))

    # ------------------------------------------------------------------------------------------------------------
    # P per instance L: the transform paths compute the oracle's quadrature sums / Fourier rows (pure Python AND extracted kernels)
    # ------------------------------------------------------------------------------------------------------------
    T_ROWS = 2

    def run_method(L, N, T, method, make_arg, I=None, env=None):
        I, env = I or I1, env or env1

        def thunk(I2, a, kw):
            del env.log[:]
            o, xs, ws = shell_sht(S1 if I is I1 else I.class_of(mod, "SHT"), L, T, N)
            arg = make_arg()
            out = I2.call(I2.getattr(o, method), [arg])
            return out, arg, list(env.log), xs, ws
        return I.explore(thunk)

    def values_arg(T, N, cplx):
        if cplx:
            d = np.empty((T, N), dtype=object)
            for t in range(T):
                for j in range(N):
                    d[t, j] = Cx(z3.Real(f"v{t}_{j}r"), z3.Real(f"v{t}_{j}i"))
            return NDArr(d, "c")
        return farr([[z3.Real(f"v{t}_{j}") for j in range(N)] for t in range(T)])

    def ob_analysis(L, method, real, ident, fsrc, rp):
        N = grids[L][0]
        res = run_method(L, N, T_ROWS, method, lambda: values_arg(T_ROWS, N, not real))
        if len(res) != 1 or res[0].kind != "return":
            ctx.prove(f"{ident}/returns/L={L}", res[0].pc, z3.BoolVal(False), clause=f"{method} returns on a single path (control flow independent of the data)", replay=rp, fn=fsrc)
            return
        out, vals, log, xs, ws = res[0].value
        ffts = [e for e in log if e[0] == "fft"]
        ok_calls = len(ffts) == T_ROWS and not [e for e in log if e[0] == "ifft"] and isinstance(out, NDArr) and out.shape == ((nplm(L),) if real else (nlm(L),))
        goals = [z3.BoolVal(ok_calls)]
        if ok_calls:
            for t in range(T_ROWS):
                for j in range(N):
                    v = vals.data[t, j]
                    v = v if isinstance(v, Cx) else cx(v, 0)
                    goals.append(z3.BoolVal(_same(ffts[t][1][j].re, v.re) and _same(ffts[t][1][j].im, v.im)))
            spec = spec_analysis(L, N, xs, ws, [e[2] for e in ffts], real)
            for i in range(out.shape[0]):
                goals += eq_cells(out.data[i], spec[i])
        ctx.prove(f"{ident}/ensures/quadrature_sums/L={L}", res[0].pc, conj(goals), split=False, replay=rp, fn=fsrc,
                  clause=("row t is Fourier-transformed once (forward normalised) and c[plm_index(m,l)] = sum_t w_t (-1)^m Pbar_lm(x_t) F_t[m]" if real else
                          "row t is Fourier-transformed once and c[l(l+1)+m] = sum_t w_t (-1)^m Pbar_lm(x_t) F_t[m], c[l(l+1)-m] = sum_t w_t Pbar_lm(x_t) F_t[nphi-m]") +
                         " — for all grid values, nodes and weights at this L")
        ctx.safety(f"{ident}/L={L}", res, replay=rp, fn=fsrc)

    def ob_synthesis(L, method, real, ident, fsrc, rp):
        N = grids[L][0]
        ncoef = nplm(L) if real else nlm(L)
        res = run_method(L, N, T_ROWS, method, lambda: cx_array("c", ncoef))
        if len(res) != 1 or res[0].kind != "return":
            ctx.prove(f"{ident}/returns/L={L}", res[0].pc, z3.BoolVal(False), clause=f"{method} returns on a single path (control flow independent of the data)", replay=rp, fn=fsrc)
            return
        out, carr, log, xs, ws = res[0].value
        iffts = [e for e in log if e[0] == "ifft"]
        ok_calls = len(iffts) == T_ROWS and not [e for e in log if e[0] == "fft"] and isinstance(out, NDArr) and out.shape == (T_ROWS, N)
        goals = [z3.BoolVal(ok_calls)]
        if ok_calls:
            c = list(carr.data)
            for t in range(T_ROWS):
                Bspec = spec_synthesis_bins(L, N, xs[t], c, real)
                for k in range(N):
                    goals += eq_cells(iffts[t][1][k], Bspec[k])
                for j in range(N):
                    o_ = iffts[t][2][j]
                    v = out.data[t, j]
                    if real:
                        goals.append(z3.BoolVal(not isinstance(v, Cx) and _same(v, o_.re)))
                    else:
                        goals.append(z3.BoolVal(isinstance(v, Cx) and _same(v.re, o_.re) and _same(v.im, o_.im)))
        ctx.prove(f"{ident}/ensures/fourier_rows/L={L}", res[0].pc, conj(goals), split=False, replay=rp, fn=fsrc,
                  clause=("row t = Re ifft(B_t) with B_t[0] = sum_l c_l0 Pbar_l0(x_t), B_t[m] = 2 (-1)^m sum_l c_lm Pbar_lm(x_t), all other bins 0" if real else
                          "row t = ifft(B_t) with B_t[m] = (-1)^m sum_l c_(l,m) Pbar_lm(x_t), B_t[nphi-m] = sum_l c_(l,-m) Pbar_lm(x_t), all other bins 0") +
                         " — for all coefficient vectors and nodes at this L")
        ctx.safety(f"{ident}/L={L}", res, replay=rp, fn=fsrc)

    PFk = (lambda n: c07_pyx.PyxFn(pmod, n)) if pmod is not None else (lambda n: None)
    for L in (L_inst if grids else []):
        if L not in grids:
            continue
        for method, real, kind, key in (("analysis_pure_python", True, "a", "analysis_pure_python"), ("analysis_pure_python_cplx", False, "a", "analysis_pure_python_cplx"),
                                        ("synthesis_pure_python", True, "s", "synthesis_pure_python"), ("synthesis_pure_python_cplx", False, "s", "synthesis_pure_python_cplx")):
            if not real and L == 0:
                continue
            ident = f"sht.SHT.{method}"
            fsrc = SF(method)
            ctx.attempt(f"{ident}/L={L}", lambda L=L, method=method, real=real, ident=ident, fsrc=fsrc, kind=kind, key=key:
                        (ob_analysis if kind == "a" else ob_synthesis)(L, method, real, ident, fsrc, replay_for(key)), fn=fsrc)
        if pmod is None:
            continue
        for method, real, kind, kern in (("analysis", True, "a", "analysis_cython_real"), ("analysis", False, "a", "analysis_cython_cplx"),
                                         ("synthesis", True, "s", "synthesis_cython_real"), ("synthesis", False, "s", "synthesis_cython_cplx")):
            if not real and L == 0:
                continue
            ident = f"sht.SHT.{method}+_sht.{kern}"
            fsrc = PFk(kern)
            key = f"{method}/{'real' if real else 'cplx'}"
            ctx.attempt(f"{ident}/L={L}", lambda L=L, method=method, real=real, ident=ident, fsrc=fsrc, kind=kind, key=key:
                        (ob_analysis if kind == "a" else ob_synthesis)(L, method, real, ident, fsrc, replay_for(key)), fn=fsrc)

    # ------------------------------------------------------------------------------------------------------------
    # P per instance L: real -> full coefficient expansion (extracted kernel through SHT.complete_coefficients)
    # ------------------------------------------------------------------------------------------------------------
    def ob_expand(L):
        fsrc = PFk("expand_coeffs_cython")
        rp = replay_for("complete_coefficients")
        res = run_method(L, grids[L][0], 1, "complete_coefficients", lambda: cx_array("c", nplm(L)))
        if len(res) != 1 or res[0].kind != "return":
            ctx.prove(f"sht.SHT.complete_coefficients/returns/L={L}", res[0].pc, z3.BoolVal(False), clause="complete_coefficients returns on a single path", replay=rp, fn=fsrc)
            return
        out, cin = res[0].value[0], res[0].value[1]
        goals = [z3.BoolVal(isinstance(out, NDArr) and out.shape == (nlm(L),) and out.kind == "c")]
        if out.shape == (nlm(L),):
            for m in range(L + 1):
                for l in range(m, L + 1):
                    v = cin.data[plm_index(L, m, l)]
                    goals += eq_cells(out.data[l * (l + 1) + m], v)
                    if m:
                        goals += eq_cells(out.data[l * (l + 1) - m], Cx(sgn(m) * v.re, -sgn(m) * v.im))
        ctx.prove(f"sht.SHT.complete_coefficients+_sht.expand_coeffs_cython/ensures/conjugate_symmetry/L={L}", res[0].pc, conj(goals), split=False, replay=rp, fn=fsrc,
                  clause="every cell of the (L+1)^2 vector is written: full[l(l+1)+m] = c[plm_index(m,l)], full[l(l+1)-m] = (-1)^m conj c[plm_index(m,l)] (no unspecified numpy.empty cell survives)")
        ctx.safety(f"sht.SHT.complete_coefficients/L={L}", res, replay=rp, fn=fsrc)
    if pmod is not None:
        for L in (L_inst if grids else []):
            if L in grids:
                ctx.attempt(f"sht.SHT.complete_coefficients/L={L}", lambda L=L: ob_expand(L))

    # ------------------------------------------------------------------------------------------------------------
    # P per instance L: point-wise evaluation against sum c_lm Y_lm (e^{i m phi} abstract; same convention as synthesis)
    # ------------------------------------------------------------------------------------------------------------
    theta = z3.Real("theta")

    def ob_pointwise(L, real):
        method = "_eval_at_points_real" if real else "_eval_at_points_cplx"
        fsrc = SF(method)
        ncoef = nplm(L) if real else nlm(L)
        seeded = replay_for(method)

        def rp(model):
            """Concretise the counter-model (coefficients, theta, phi) and run the real method against the independent reference."""
            from chmpy.shape.sht import SHT as NativeSHT
            model = model or {}
            cv = np.array([float(model.get(f"c{i}r", 0)) + 1j * float(model.get(f"c{i}i", 0)) for i in range(ncoef)])
            if real:
                cv[:L + 1] = cv[:L + 1].real
            th_, ph_ = float(model.get("theta", 1.0)), float(model.get("phi", 0.5))
            s = NativeSHT(L)
            got = complex(getattr(s, method)(cv, th_, ph_))
            want = complex(ref_at_points(L, full_from_real(L, cv) if real else cv, [th_], [ph_])[0])
            if real:
                want = complex(want.real)
            if not abs(got - want) <= REL_TOL * max(1.0, abs(want)):
                return {"native_inputs": {"L": L, "coefficients": [[float(z_.real), float(z_.imag)] for z_ in cv], "theta": th_, "phi": ph_, "layout": "plm_index" if real else "l(l+1)+m"},
                        "reproduced": True, "observed": f"SHT({L}).{method} returns {got}, sum c_lm Y_lm(theta, phi) = {want}"}
            return seeded(model)

        def thunk(I2, a, kw):
            del env1.log[:]
            o, xs, ws = shell_sht(S1, L, 1, grids[L][0])
            c = cx_array("c", ncoef)
            return I2.call(I2.getattr(o, method), [c, theta, PHI]), c
        res = I1.explore(thunk)
        ident = f"sht.SHT.{method}"
        if len(res) != 1 or res[0].kind != "return":
            ctx.prove(f"{ident}/returns/L={L}", res[0].pc, z3.BoolVal(False), clause=f"{method} returns on a single path", replay=rp, fn=fsrc)
            return
        out, c = res[0].value
        x = ufun("cos")(theta)
        spec = spec_pointwise(L, list(c.data), x, real)
        H = list(res[0].pc)
        for k in range(1, L + 1):
            t = z3.RealVal(k) * PHI
            H.append(ufun("cos")(t) * ufun("cos")(t) + ufun("sin")(t) * ufun("sin")(t) == 1)
        goals = eq_cells(out, spec) if isinstance(out, Cx) or real else [z3.BoolVal(False)]
        for gi, g in enumerate(goals):
            ctx.prove(f"{ident}/ensures/equals_harmonic_sum/L={L}/{'re' if gi == 0 else 'im'}", H, g, split=False, replay=rp, fn=fsrc,
                      clause=("f(theta,phi) = sum_l Re(c_l0) Pbar_l0 + sum_(m>0) 2 Re[(-1)^m e^(i m phi) sum_l c_lm Pbar_lm]" if real else
                              "f(theta,phi) = sum_l c_l0 Pbar_l0 + sum_(m>0) [(-1)^m e^(i m phi) sum_l c_(l,m) Pbar_lm + e^(-i m phi) sum_l c_(l,-m) Pbar_lm]") +
                             " — the function whose grid samples synthesis returns (Y_lm with Condon-Shortley phase)")
        ctx.safety(f"{ident}/L={L}", res, replay=rp, fn=fsrc)
    for L in ([0, 1, 2, 3, 5] if thorough else [0, 1, 2]):
        if L in grids:
            ctx.attempt(f"sht.SHT._eval_at_points_real/L={L}", lambda L=L: ob_pointwise(L, True), fn=SF("_eval_at_points_real"))
            if L >= 1:
                ctx.attempt(f"sht.SHT._eval_at_points_cplx/L={L}", lambda L=L: ob_pointwise(L, False), fn=SF("_eval_at_points_cplx"))

    # ------------------------------------------------------------------------------------------------------------
    # P small L: analysis(synthesis(c)) == c from the real bodies, given discrete orthonormality of the rule (hypothesis) and the DFT lemmas (assumed)
    # ------------------------------------------------------------------------------------------------------------
    env2 = Env()
    I2_ = new_interp(env2, link=True)

    def ob_composition(L, real, syn, ana, ident, fsrc, rp):
        N, T = grids[L][0], L + 1
        ncoef = nplm(L) if real else nlm(L)
        S2 = I2_.class_of(mod, "SHT")

        def thunk(I2, a, kw):
            del env2.log[:]
            o, xs, ws = shell_sht(S2, L, T, N)
            c = cx_array("c", ncoef)
            if real:
                for l in range(L + 1):      # a real function has real m = 0 coefficients
                    c.data[plm_index(L, 0, l)] = Cx(c.data[plm_index(L, 0, l)].re, Fraction(0))
            v = I2.call(I2.getattr(o, syn), [c])
            return I2.call(I2.getattr(o, ana), [v]), c, xs, ws
        res = I2_.explore(thunk)
        if len(res) != 1 or res[0].kind != "return":
            ctx.prove(f"{ident}/returns/L={L}", res[0].pc, z3.BoolVal(False), clause="synthesis followed by analysis returns on a single path", replay=rp, fn=fsrc)
            return
        a_, c, xs, ws = res[0].value
        from pyvc import cert
        gram = []
        for m in range(L + 1):
            for l in range(m, L + 1):
                for l2 in range(l, L + 1):
                    gram.append(sum(ws[t] * Pbar(l, m, xs[t]) * Pbar(l2, m, xs[t]) for t in range(T)) - (1 if l == l2 else 0))
        gram_p = [cert.z3_to_poly(z3.simplify(g)) for g in gram]
        hyps = list(res[0].pc) + [g == 0 for g in gram]
        csyms = [s_ for cell in c.data for s_ in (cell.re, cell.im) if is_sym(s_)]
        goals = [z3.BoolVal(isinstance(a_, NDArr) and a_.shape == (ncoef,))]
        if a_.shape == (ncoef,):
            for i in range(ncoef):
                goals += eq_cells(a_.data[i], c.data[i])
        clause = (f"L={L}, any nphi-point longitudes and any {T} latitudes/weights with sum_t w_t Pbar_lm(x_t) Pbar_l'm(x_t) = delta_ll' (what Gauss-Legendre exactness gives): "
                  "analysis(synthesis(c)) == c for every coefficient vector" + (" with real m = 0 entries" if real else ""))
        for gi, g in enumerate(goals):
            oid = f"{ident}/ensures/analysis_inverts_synthesis/L={L}/c{gi}"
            done = False
            if z3.is_eq(g):
                try:
                    gp = cert.z3_to_poly(z3.simplify(g.arg(0) - g.arg(1)))
                    cft = cert.certify_ansatz(gp, cert.relevant_hyps(gp, gram_p), rounds=1) if not gp.is_zero() else {"ok": True, "why": "identically zero", "cofactor_terms": 0}
                except cert.NotPolynomial as e:
                    cft = {"ok": False, "why": f"not polynomial: {e}"}
                if cft["ok"]:     # goal == sum q_k * (orthonormality hypothesis k), verified by exact polynomial arithmetic
                    r = ctx.ground(oid, True, clause=clause, tag="P", fn=fsrc, seconds=cft.get("seconds", 0.0),
                                   detail={k: v for k, v in cft.items() if k != "ok"})
                    r.backend = "algebraic-certificate(exact check)"
                    done = True
            if not done:
                # no certificate: let the solver look for a counter-model; products c_j * (hypothesis k) are supplied so the query is linear over monomials
                extra = [z3.simplify(s_ * gq) == 0 for s_ in csyms for gq in gram] if len(csyms) * len(gram) <= 400 else []
                ctx.prove(oid, hyps + extra, g, split=False, replay=rp, fn=fsrc, clause=clause, timeout_ms=8000, cvc5_timeout_s=8)
    comp_L = [1, 2, 3] if thorough else [1, 2]
    for L in comp_L:
        if L not in grids:
            continue
        ctx.attempt(f"sht.SHT.analysis_pure_python.synthesis_pure_python/L={L}", lambda L=L: ob_composition(
            L, True, "synthesis_pure_python", "analysis_pure_python", "sht.SHT.analysis_pure_python.synthesis_pure_python", SF("analysis_pure_python"),
            replay_for("roundtrip_real_as", "analysis_pure_python", "synthesis_pure_python")))
        ctx.attempt(f"sht.SHT.analysis_pure_python_cplx.synthesis_pure_python_cplx/L={L}", lambda L=L: ob_composition(
            L, False, "synthesis_pure_python_cplx", "analysis_pure_python_cplx", "sht.SHT.analysis_pure_python_cplx.synthesis_pure_python_cplx", SF("analysis_pure_python_cplx"),
            replay_for("roundtrip_cplx_as", "analysis_pure_python_cplx", "synthesis_pure_python_cplx")))
        if pmod is not None:
            ctx.attempt(f"sht.SHT.analysis.synthesis/real/L={L}", lambda L=L: ob_composition(
                L, True, "synthesis", "analysis", "sht.SHT.analysis.synthesis/real_kernels", SF("analysis"), replay_for("roundtrip_real_as")))
            ctx.attempt(f"sht.SHT.analysis.synthesis/cplx/L={L}", lambda L=L: ob_composition(
                L, False, "synthesis", "analysis", "sht.SHT.analysis.synthesis/cplx_kernels", SF("analysis"), replay_for("roundtrip_cplx_as")))

    # ------------------------------------------------------------------------------------------------------------
    # B: the run-time contracts (never counted as proved)
    # ------------------------------------------------------------------------------------------------------------
    groups = {
        "exact_vs_reference": ["ref_real_analysis", "ref_real_synthesis", "ref_cplx_analysis", "ref_cplx_synthesis", "single_cplx", "single_real", "plm_compiled", "plm_python"],
        "round_trips": ["roundtrip_real_as", "roundtrip_real_sa", "roundtrip_cplx_as", "roundtrip_cplx_sa"],
        "kernels_vs_pure_python": ["py_real_analysis", "py_cplx_analysis", "py_real_synthesis", "py_cplx_synthesis", "kernel_vs_python"],
        "pointwise_evaluation": ["pointwise_real", "pointwise_cplx", "pointwise_near_pole"],
        "pointwise_evaluation_at_the_poles": ["pointwise_pole"],
        "real_to_full_expansion": ["expand"],
        "linearity": ["linear_analysis", "linear_synthesis", "dtype_independent"],
        "parseval": ["parseval_real", "parseval_cplx"],
        "grid": ["grid"],
        "no_exception": ["no_exception"],
    }
    dom_txt = (f"L = 0..64 for every clause (complex transform L = 1..64); seeded standard-normal coefficient vectors (seed {ctx.seed}, {dom['repetitions']} per L); pure-Python paths at L in "
               f"{dom['L_pure_python']}; single-harmonic inputs, all (l,m), at L in {dom['L_single_harmonic']}; independent reference scipy.special.sph_harm_y; relative tolerance {REL_TOL}")
    for g, keys in groups.items():
        ev = sum(nat.evals.get(k, 0) for k in keys)
        fails = [nat.fails[k] for k in keys if k in nat.fails][:3]
        ctx.add_bounded(f"sht.SHT/bounded/{g}", dom_txt, ev, ev, fails, rule="; ".join(CLAUSES[k] for k in keys)[:600],
                        samples=[{"id": f"C07/sht.SHT/bounded/{g}", "tag": "B", "clause": CLAUSES[keys[0]], "evaluations": ev}])
    ctx.notes.append(f"build time {time.time() - t_start:.1f}s; instances L for per-instance P obligations: {L_inst}; composition theorem at L = {comp_L}")
