"""Mechanical de-cythoniser for chmpy/shape/_sht.pyx (C07 helper, DESIGN 2.2).

A line rewriter that keeps line numbers, records the C types of parameters / locals / class fields, and then a typed AST pass
that makes the two places where C semantics differ from Python explicit:
  * `/` between two int-typed operands (all functions are @cython.cdivision(True))  ->  c_idiv(a, b)   (truncation toward 0)
  * assignment of a non-int expression to an int-typed name                          ->  c_int(expr)
  * `a ** b` with a double-typed exponent (Cython 3 soft-complex power)              ->  c_fpow(a, b)   (defined only for a > 0: otherwise the
    generated C raises TypeError, which a `noexcept` function swallows and returns early)
Anything the rewriter does not recognise raises ExtractionError (the obligations that need the function become undecided);
nothing is guessed.  The result is a pyvc ModuleSrc, so the ordinary symbolic executor runs the kernels' real text.
"""
import ast
import os
import re

from pyvc import source


class ExtractionError(Exception):
    pass


_CTYPES = {"int": "int", "long": "int", "unsigned int": "int", "Py_ssize_t": "int", "size_t": "int",
           "double": "double", "float": "double", "double complex": "complex", "float complex": "complex", "void": "void"}
_RANK = {"int": 0, "double": 1, "complex": 2}


def _ctype(text):
    """'const double complex[:]' -> ('complex', True) ; 'const int' -> ('int', False)"""
    t = text.strip()
    t = re.sub(r"\bconst\b", "", t).strip()
    is_arr = False
    mm = re.match(r"^(.*?)\[(.*)\]$", t)
    if mm:
        t, is_arr = mm.group(1).strip(), True
    if t not in _CTYPES:
        raise ExtractionError(f"unknown C type {text!r}")
    return _CTYPES[t], is_arr


def _split_args(s):
    out, depth, cur = [], 0, ""
    for ch in s:
        if ch in "[(":
            depth += 1
        elif ch in "])":
            depth -= 1
        if ch == "," and depth == 0:
            out.append(cur)
            cur = ""
        else:
            cur += ch
    if cur.strip():
        out.append(cur)
    return [a.strip() for a in out]


_HDR = re.compile(r"^(\s*)(cdef|cpdef)\s+(?:inline\s+)?((?:const\s+)?(?:unsigned\s+)?\w+(?:\s+complex)?)\s+(\w+)\s*\((.*)\)\s*((?:noexcept|nogil|\s)*):\s*$")
_DECL = re.compile(r"^(\s*)cdef\s+((?:const\s+)?(?:unsigned\s+)?\w+(?:\s+complex)?(?:\[[^\]]*\])?)\s+(.+?)\s*$")


def decythonise(text):
    """-> (python_text, types) ; types[func_qualname] = {name: (ctype, is_array)} ; types['<class>.fields'] for cdef class fields."""
    lines = text.split("\n")
    out = []
    types = {}
    cur_fn = None           # (indent, qualname)
    cur_cls = None          # (indent, name)
    i = 0
    n = len(lines)
    while i < n:
        raw = lines[i]
        line = raw.rstrip()
        stripped = line.strip()
        indent = len(line) - len(line.lstrip())
        if stripped and not stripped.startswith("#"):
            if cur_fn and indent <= cur_fn[0]:
                cur_fn = None
            if cur_cls and indent <= cur_cls[0] and not stripped.startswith("@"):
                cur_cls = None
        if stripped.startswith("# cython:") or stripped.startswith("cimport ") or re.match(r"^from\s+[\w.]+\s+cimport\s", stripped):
            out.append("")
        elif stripped.startswith("@cython."):
            out.append("")
        elif stripped.startswith("cnp.import_array"):
            out.append("")
        elif re.match(r"^cdef\s+class\s+\w+\s*:", stripped):
            name = re.match(r"^cdef\s+class\s+(\w+)", stripped).group(1)
            out.append(" " * indent + f"class {name}:")
            cur_cls = (indent, name)
            types[name + ".fields"] = {}
        elif stripped.startswith(("cdef ", "cpdef ")):
            # join a header that spans several lines
            joined, j = line, i
            while joined.count("(") > joined.count(")") and j + 1 < n:
                j += 1
                joined += " " + lines[j].strip()
            mh = _HDR.match(joined)
            if mh and "(" in stripped.split("=")[0]:
                ind, _, ret, name, args, _ = mh.groups()
                qual = (cur_cls[1] + "." if cur_cls and len(ind) > cur_cls[0] else "") + name
                env = {}
                names = []
                for a in _split_args(args):
                    if a == "self":
                        names.append("self")
                        continue
                    parts = a.rsplit(None, 1)
                    if len(parts) != 2:
                        raise ExtractionError(f"line {i + 1}: untyped parameter {a!r}")
                    env[parts[1]] = _ctype(parts[0])
                    names.append(parts[1])
                env["<return>"] = _ctype(ret)
                types[qual] = env
                out.append(ind + f"def {name}({', '.join(names)}):")
                for _ in range(j - i):
                    out.append("")
                cur_fn = (len(ind), qual)
                i = j + 1
                continue
            md = _DECL.match(line)
            if not md:
                raise ExtractionError(f"line {i + 1}: unrecognised cdef: {stripped!r}")
            ind, ctype, rest = md.groups()
            ct = _ctype(ctype)
            if cur_fn is None:
                if cur_cls is None:
                    raise ExtractionError(f"line {i + 1}: module-level cdef variable")
                for nm in _split_args(rest):
                    if not re.match(r"^\w+$", nm):
                        raise ExtractionError(f"line {i + 1}: class field {nm!r}")
                    types[cur_cls[1] + ".fields"][nm] = ct
                out.append(ind + "pass")
            else:
                env = types[cur_fn[1]]
                if "=" in rest:
                    nm, val = rest.split("=", 1)
                    nm = nm.strip()
                    if not re.match(r"^\w+$", nm):
                        raise ExtractionError(f"line {i + 1}: declaration {rest!r}")
                    env[nm] = ct
                    out.append(ind + f"{nm} = {val.strip()}")
                else:
                    for nm in _split_args(rest):
                        mm = re.match(r"^(\w+)(\[\d+\])?$", nm)
                        if not mm:
                            raise ExtractionError(f"line {i + 1}: declaration {nm!r}")
                        env[mm.group(1)] = (ct[0], bool(mm.group(2)) or ct[1])
                    out.append(ind + "pass")
        elif re.match(r"^with\s+nogil\s*:", stripped):
            out.append(" " * indent + "if True:")
        else:
            if re.match(r"^def\s+\w+\(", stripped):
                name = re.match(r"^def\s+(\w+)", stripped).group(1)
                qual = (cur_cls[1] + "." if cur_cls and indent > cur_cls[0] else "") + name
                types.setdefault(qual, {})
                cur_fn = (indent, qual)
            if "<" in stripped and re.search(r"<\s*(int|double|float|unsigned int|long)\s*>", stripped):
                raise ExtractionError(f"line {i + 1}: C cast (not needed by _sht.pyx so not supported)")
            if re.search(r"\bprange\b", stripped):
                raise ExtractionError(f"line {i + 1}: prange")
            out.append(line)
        i += 1
    out.append("from numpy import sqrt")
    out.append("from numpy import pi as M_PI")
    return "\n".join(out) + "\n", types


class _Typer(ast.NodeTransformer):
    def __init__(self, env, fields, all_types, where):
        self.env = env
        self.fields = fields
        self.all = all_types
        self.where = where
        self.rewrites = 0

    # -- static C type of an expression: 'int' | 'double' | 'complex' | None (python object / unknown)
    def ty(self, e):
        if isinstance(e, ast.Constant):
            if isinstance(e.value, bool):
                return "int"
            if isinstance(e.value, int):
                return "int"
            if isinstance(e.value, float):
                return "double"
            return None
        if isinstance(e, ast.Name):
            if e.id in self.env:
                t, arr = self.env[e.id]
                return None if arr else t
            if e.id == "M_PI":
                return "double"
            return None
        if isinstance(e, ast.Attribute):
            if isinstance(e.value, ast.Name) and e.value.id == "self" and e.attr in self.fields:
                t, arr = self.fields[e.attr]
                return None if arr else t
            return None
        if isinstance(e, ast.Subscript):
            b = e.value
            if isinstance(b, ast.Name) and b.id in self.env and self.env[b.id][1]:
                return self.env[b.id][0]
            if isinstance(b, ast.Attribute) and isinstance(b.value, ast.Name) and b.value.id == "self" and b.attr in self.fields \
                    and self.fields[b.attr][1]:
                return self.fields[b.attr][0]
            return None
        if isinstance(e, ast.UnaryOp):
            return self.ty(e.operand)
        if isinstance(e, ast.IfExp):
            return self.join(self.ty(e.body), self.ty(e.orelse))
        if isinstance(e, ast.BinOp):
            l, r = self.ty(e.left), self.ty(e.right)
            if isinstance(e.op, (ast.BitAnd, ast.BitOr, ast.BitXor, ast.LShift, ast.RShift, ast.Mod, ast.FloorDiv)):
                return "int" if l == "int" and r == "int" else None
            if isinstance(e.op, ast.Pow):
                j = self.join(l, r)
                return "double" if j in ("int", "double") else j
            return self.join(l, r)
        if isinstance(e, ast.Call):
            f = e.func
            if isinstance(f, ast.Name):
                if f.id == "sqrt":
                    return "double"
                if f.id == "abs":
                    return self.ty(e.args[0]) if e.args else None
                if f.id in ("c_idiv", "c_int"):
                    return "int"
                if f.id == "c_fpow":
                    return "double"
                if f.id in self.all and "<return>" in self.all[f.id]:
                    t = self.all[f.id]["<return>"][0]
                    return t if t != "void" else None
            if isinstance(f, ast.Attribute) and f.attr == "conjugate":
                return self.ty(f.value)
            return None
        return None

    @staticmethod
    def join(a, b):
        if a is None or b is None:
            return None
        return a if _RANK[a] >= _RANK[b] else b

    def visit_BinOp(self, node):
        self.generic_visit(node)
        if isinstance(node.op, ast.Pow):
            l, r = self.ty(node.left), self.ty(node.right)
            if l in ("int", "double") and r == "double":
                # Cython 3 (cpow=False): a C double raised to a C double goes through complex pow and is converted back with
                # __Pyx_SoftComplexToDouble, which raises TypeError unless the imaginary part is exactly 0 — i.e. unless the base is > 0
                self.rewrites += 1
                return ast.copy_location(ast.Call(func=ast.Name(id="c_fpow", ctx=ast.Load()), args=[node.left, node.right], keywords=[]), node)
        if isinstance(node.op, ast.Div):
            l, r = self.ty(node.left), self.ty(node.right)
            if l is None or r is None:
                raise ExtractionError(f"{self.where}: line {node.lineno}: cannot type the operands of '/' ({ast.unparse(node)})")
            if l == "int" and r == "int":
                self.rewrites += 1
                return ast.copy_location(ast.Call(func=ast.Name(id="c_idiv", ctx=ast.Load()), args=[node.left, node.right], keywords=[]), node)
        return node

    def _coerce(self, target, value, node):
        if isinstance(target, ast.Name) and target.id in self.env and not self.env[target.id][1] and self.env[target.id][0] == "int":
            t = self.ty(value)
            if t is None:
                raise ExtractionError(f"{self.where}: line {node.lineno}: cannot type the value stored into int '{target.id}'")
            if t != "int":
                self.rewrites += 1
                return ast.copy_location(ast.Call(func=ast.Name(id="c_int", ctx=ast.Load()), args=[value], keywords=[]), value)
        return value

    def visit_Assign(self, node):
        self.generic_visit(node)
        if len(node.targets) == 1:
            node.value = self._coerce(node.targets[0], node.value, node)
        return node

    def visit_AugAssign(self, node):
        self.generic_visit(node)
        if isinstance(node.target, ast.Name) and node.target.id in self.env and self.env[node.target.id] == ("int", False):
            t = self.ty(node.value)
            if t != "int":
                raise ExtractionError(f"{self.where}: line {node.lineno}: augmented assignment of non-int to int '{node.target.id}'")
            if isinstance(node.op, ast.Div):
                raise ExtractionError(f"{self.where}: line {node.lineno}: '/=' on an int")
        return node


def load_pyx(relpath="chmpy/shape/_sht.pyx", modname="chmpy.shape._sht"):
    """-> (ModuleSrc of the extracted Python text, types, original text, path)"""
    path = os.path.join(source.SRC_ROOT, relpath)
    text = open(path).read()
    pytext, types = decythonise(text)
    try:
        tree = ast.parse(pytext)
    except SyntaxError as e:
        raise ExtractionError(f"extracted text does not parse: {e}")
    nrew = 0
    for node in tree.body:
        if isinstance(node, ast.FunctionDef):
            t = _Typer(types.get(node.name, {}), {}, types, node.name)
            t.visit(node)
            nrew += t.rewrites
        elif isinstance(node, ast.ClassDef):
            fields = types.get(node.name + ".fields", {})
            for sub in node.body:
                if isinstance(sub, ast.FunctionDef):
                    t = _Typer(types.get(node.name + "." + sub.name, {}), fields, types, node.name + "." + sub.name)
                    t.visit(sub)
                    nrew += t.rewrites
    ast.fix_missing_locations(tree)
    mod = source.ModuleSrc(modname, path, pytext, tree)
    mod.pyx_text = text
    mod.c_rewrites = nrew
    return mod, types


class PyxFn:
    """FnSrc look-alike for an extracted kernel (file, line span and hash are those of the .pyx text)."""

    def __init__(self, mod, name):
        import hashlib
        self.mod = mod
        cls = None
        if "." in name:
            cname, mname = name.split(".", 1)
            cnode = mod.classes[cname]
            node = [n for n in cnode.body if isinstance(n, ast.FunctionDef) and n.name == mname][0]
            cls = cnode
        else:
            node = mod.functions[name]
        self.node = node
        self.cls = cls
        self.qualname = mod.modname + "." + name
        pl = mod.pyx_text.split("\n")
        first = node.lineno
        while first > 1 and pl[first - 2].strip().startswith("@"):
            first -= 1
        self.lines = (first, node.end_lineno)
        seg = "\n".join(pl[first - 1: node.end_lineno])
        self.text = seg
        self.sha256 = hashlib.sha256(seg.encode()).hexdigest()

    def describe(self):
        return {"qualname": self.qualname, "file": self.mod.path, "lines": list(self.lines), "sha256": self.sha256}


def binary_skew(mod):
    """Compare the .pyx lines embedded as comments in the generated _sht.c with the working-tree .pyx.
    -> (n_lines_compared, [(lineno, in_c, in_pyx), ...]) ; (0, None) if no generated C file is available."""
    cands = [os.path.splitext(mod.path)[0] + ".c", os.path.join("/repo/src", os.path.relpath(os.path.splitext(mod.path)[0] + ".c", source.SRC_ROOT))]
    cfile = next((c for c in cands if os.path.exists(c)), None)
    if cfile is None:
        return 0, None
    ctext = open(cfile, errors="replace").read()
    pl = mod.pyx_text.split("\n")
    seen = {}
    for mm in re.finditer(r'/\* "chmpy/shape/_sht\.pyx":(\d+)\n((?: \*.*\n)+?)\s*\*/', ctext):
        ln = int(mm.group(1))
        for row in mm.group(2).split("\n"):
            if row.rstrip().endswith("# <<<<<<<<<<<<<<"):
                seen[ln] = row[3:].rstrip()[: -len("# <<<<<<<<<<<<<<")].rstrip()
    diffs = []
    for ln, txt in sorted(seen.items()):
        cur = pl[ln - 1].rstrip() if ln - 1 < len(pl) else "<missing>"
        if cur.strip() != txt.strip():
            diffs.append((ln, txt.strip(), cur.strip()))
    return len(seen), diffs
