"""C17 — element lookup is total, exact and consistent across all spellings (chmpy/core/element.py)."""
import itertools
import time
from fractions import Fraction

import numpy as np
import z3

from pyvc.api import Interp, Obj, NDArr, conj, farr, iarr, ints, source
from pyvc.strings import SStr, Lit, Sym
from pyvc.values import PyRaise, Unsupported, z, num_cmp, b_and

MOD = "chmpy.core.element"


def _el():
    import chmpy.core.element as el
    return el


def case_variants(sym):
    return sorted({sym, sym.upper(), sym.lower(), sym.capitalize(), sym.swapcase()})


def build(ctx):
    ctx.level = "proof"
    ctx.explanation = ("P: VCs from the real source of element.py (symbolic atomic number with Python's negative-index semantics; labels "
                       "symbol+digits+arbitrary suffix as structured strings; ordering axioms over symbolic atomic numbers). "
                       "G: exact evaluation of the real functions over the complete finite domains of the property (103 elements x all "
                       "spelling variants, all integers -200..300). B: formulas of random multisets.")
    ctx.assumptions += ["re.match('([A-Z]+).*', IGNORECASE) takes the longest leading run of letters as group 1",
                        "str.strip/capitalize/lower on the unconstrained suffix are over-approximated by arbitrary strings",
                        "table values (names, symbols, radii, masses) are their own reference: what is proved is that every access path lands on the right row"]
    el = _el()
    I = ctx.interp()
    mod = source.load_module(MOD)
    ELcls = I.class_of(mod, "Element")
    F = lambda n: ctx.fn(MOD, n)
    f_num, f_str, f_lab = F("Element.from_atomic_number"), F("Element.from_string"), F("Element.from_label")
    f_get = F("_ElementMeta.__getitem__")
    for n in ("Element.__init__", "Element.__lt__", "Element.__eq__", "Element.__hash__", "chemical_formula", "cov_radii", "vdw_radii",
              "element_names", "element_symbols"):
        F(n)
    table = I.lookup_global(mod, "_ELEMENT_DATA")
    NEL = len(table)

    # ---------------------------------------------------------------- G: the table itself
    t0 = time.time()
    rows = el._ELEMENT_DATA
    problems = []
    if len(rows) != 103:
        problems.append({"rows": len(rows)})
    syms = [r[1] for r in rows]
    names = [r[0] for r in rows]
    if len(set(syms)) != len(syms):
        problems.append({"duplicate_symbols": sorted({s for s in syms if syms.count(s) > 1})})
    if len(set(names)) != len(names):
        problems.append({"duplicate_names": sorted({s for s in names if names.count(s) > 1})})
    import re
    for i, (nm, sy, cov, vdw, mass) in enumerate(rows, start=1):
        if not re.fullmatch("[A-Z][a-z]?", sy):
            problems.append({"Z": i, "symbol_not_normal_form": sy})
        if not (nm.isalpha() and nm == nm.lower()):
            problems.append({"Z": i, "name_not_normal_form": nm, "effect": f"Element[{nm.lower()!r}] cannot find it: from_string lower-cases the query"})
        if not (cov > 0 and vdw > 0 and mass > 0):
            problems.append({"Z": i, "non_positive_data": [cov, vdw, mass]})
        if nm.capitalize() in syms:
            problems.append({"Z": i, "name_collides_with_symbol": nm})
    ctx.ground("element.table/shape", not problems, clause="103 rows; symbols distinct and of the form [A-Z][a-z]?; names distinct, lower-case alphabetic "
               "(the normal form from_string looks up); positive radii and mass; no capitalised name equals a symbol",
               detail=problems[:5], witness=problems[:3], seconds=time.time() - t0)
    bad = []
    for i, (nm, sy, cov, vdw, mass) in enumerate(rows, start=1):
        if el._EL_FROM_SYM.get(sy) != (i, nm, sy, cov, vdw, mass):
            bad.append({"symbol": sy})
        if el._EL_FROM_NAME.get(nm) != (i, nm, sy, cov, vdw, mass):
            bad.append({"name": nm})
    if len(el._EL_FROM_SYM) != len(rows) or len(el._EL_FROM_NAME) != len(rows):
        bad.append({"dict_sizes": [len(el._EL_FROM_SYM), len(el._EL_FROM_NAME)]})
    # independent reference: the periodic table itself (IUPAC symbols in order of atomic number) — the row index IS the atomic number the look-ups return
    PERIODIC = ("H He Li Be B C N O F Ne Na Mg Al Si P S Cl Ar K Ca Sc Ti V Cr Mn Fe Co Ni Cu Zn Ga Ge As Se Br Kr Rb Sr Y Zr Nb Mo Tc Ru Rh Pd Ag Cd In Sn Sb Te I Xe "
                "Cs Ba La Ce Pr Nd Pm Sm Eu Gd Tb Dy Ho Er Tm Yb Lu Hf Ta W Re Os Ir Pt Au Hg Tl Pb Bi Po At Rn Fr Ra Ac Th Pa U Np Pu Am Cm Bk Cf Es Fm Md No Lr").split()
    wrong = [{"Z": i + 1, "table": r[1], "periodic_table": PERIODIC[i]} for i, r in enumerate(rows[:103]) if i < len(PERIODIC) and r[1] != PERIODIC[i]]
    ctx.ground("element.table/rows_are_in_atomic_number_order", len(PERIODIC) == 103 and not wrong, clause="row Z of the table carries the IUPAC symbol of element Z (Z = 1..103)",
               detail=wrong[:4], witness=wrong[:4])
    ctx.ground("element.table/dictionaries", not bad, clause="both lookup dictionaries map every key to (row index + 1, row)", detail=bad[:5], witness=bad[:3])

    # ---------------------------------------------------------------- P: from_atomic_number is total and exact
    n = z3.Int("n")

    def row_spec(k, fields):
        """fields describe table row with 1-based number n (as an ite-chain over the interpreter's own table value)."""
        return fields

    def num_replay(m):
        e = _el()
        k = int(m.get("n", 0))
        try:
            x = e.Element.from_atomic_number(k)
            obs = {"returned": {"atomic_number": x.atomic_number, "symbol": x.symbol, "name": x.name}}
            ok = 1 <= k <= 103 and x.atomic_number == k and (x.name, x.symbol, x.cov, x.vdw, x.mass) == e._ELEMENT_DATA[k - 1]
        except Exception as ex:  # noqa
            obs = {"raised": type(ex).__name__}
            ok = not (1 <= k <= 103)
        try:
            y = e.Element[k]
            obs["Element[n]"] = y.symbol
        except Exception as ex:  # noqa
            obs["Element[n]"] = "raised " + type(ex).__name__
        return {"native_inputs": {"n": k}, "reproduced": not ok, "observed": obs}

    def ob_num(fn, label, via_getitem=False):
        def thunk(I2, a, kw):
            if via_getitem:
                return I2.subscript(ELcls, n)
            return I2.call(I2.getattr(ELcls, "from_atomic_number"), [n])
        res = I.explore(thunk)
        returned_when = []
        for k, r in enumerate(res):
            if r.kind == "return":
                o = r.value
                exp = I.ite_chain([tuple(row) for row in table], n - 1)   # only meaningful when 1 <= n <= NEL
                goal = z3.And(n >= 1, n <= NEL, z(o.fields["atomic_number"]) == n,
                              z(o.fields["name"]) == exp[0], z(o.fields["symbol"]) == exp[1], z(o.fields["cov"]) == exp[2],
                              z(o.fields["vdw"]) == exp[3], z(o.fields["mass"]) == exp[4])
                ctx.prove(f"{label}/ensures/returns_row_n", r.pc, goal, clause="a normal return implies 1 <= n <= 103 and the result is table row n "
                          "(atomic_number, name, symbol, radii, mass)", replay=num_replay, fn=fn)
                returned_when.append(r.cond())
            elif r.kind == "raise":
                ctx.prove(f"{label}/ensures/raises_only_outside", r.pc, z3.Or(n < 1, n > NEL),
                          clause="an exception implies n outside 1..103", replay=num_replay, fn=fn)
        ctx.prove(f"{label}/ensures/total_in_range", [n >= 1, n <= NEL], z3.Or(*returned_when) if returned_when else z3.BoolVal(False),
                  clause="every n in 1..103 reaches a normal return", replay=num_replay, fn=fn)
    ctx.attempt("element.Element.from_atomic_number/ensures/returns_row_n", lambda: ob_num(f_num, "element.Element.from_atomic_number"))
    ctx.attempt("element._ElementMeta.__getitem__/int/ensures/returns_row_n", lambda: ob_num(f_get, "element._ElementMeta.__getitem__/int", True))

    # ---------------------------------------------------------------- P: labels  symbol ++ digits+ ++ arbitrary suffix
    d = z3.String("d")
    s = z3.String("s")
    digits_re = z3.Plus(z3.Range("0", "9"))
    pre_lab = [z3.InRe(d, digits_re)]

    def label_replay_for(variant, Z):
        def replay(m):
            e = _el()
            dd = m.get("d", "1") or "1"
            ss = m.get("s", "")
            lab = variant + str(dd) + str(ss)
            out = {}
            ok = True
            for nm, f in (("from_label", e.Element.from_label), ("Element[...]", lambda q: e.Element[q])):
                try:
                    x = f(lab)
                    out[nm] = x.symbol
                    ok &= x.atomic_number == Z
                except Exception as ex:  # noqa
                    out[nm] = "raised " + type(ex).__name__
                    ok = False
            return {"native_inputs": {"label": lab}, "reproduced": not ok, "observed": out}
        return replay

    def ob_labels():
        n_obl = 0
        for Z, row in enumerate(table, start=1):
            sym = row[1]
            for v in case_variants(sym):
                lab = SStr([Lit(v), Sym(d, "digits+"), Sym(s, "any")])
                for which in ("from_label", "getitem"):
                    def thunk(I2, a, kw, which=which, lab=lab):
                        if which == "from_label":
                            return I2.call(I2.getattr(ELcls, "from_label"), [lab])
                        return I2.subscript(ELcls, lab)
                    res = I.explore(thunk, pre=pre_lab)
                    goals, hyps_all = [], []
                    ok = True
                    for r in res:
                        if r.kind != "return":
                            ok = False
                            bad_pc = r.pc
                            break
                        o = r.value
                        same = (o.fields["atomic_number"] == Z and o.fields["symbol"] == sym and o.fields["name"] == row[0]
                                and o.fields["cov"] == row[2] and o.fields["vdw"] == row[3] and o.fields["mass"] == row[4])
                        if same is not True:
                            ok = False
                            bad_pc = r.pc
                            break
                    ident = f"element.Element.{'from_label' if which == 'from_label' else '__getitem__/label'}/ensures/row/{sym}/{v}"
                    fnr = f_lab if which == "from_label" else f_str
                    if ok:
                        # decided during symbolic execution: every path returns the concrete row; the VC left is the path cover
                        ctx.prove(ident, pre_lab, z3.Or(*[r.cond() for r in res]), clause=f"forall d in [0-9]+, s in Sigma*: lookup('{v}'+d+s) is element {Z} ({sym}) with its tabulated data",
                                  replay=label_replay_for(v, Z), fn=fnr)
                    else:
                        ctx.prove(ident, bad_pc, z3.BoolVal(False), clause=f"forall d in [0-9]+, s in Sigma*: lookup('{v}'+d+s) is element {Z} ({sym})",
                                  replay=label_replay_for(v, Z), fn=fnr)
                    n_obl += 1
        return n_obl
    ctx.attempt("element.Element.from_label/ensures/row", ob_labels)

    # ---------------------------------------------------------------- P: ordering and equality over symbolic atomic numbers
    def mk(I2, k):
        return Obj(ELcls, {"atomic_number": k, "name": "x", "symbol": "X", "cov": Fraction(1), "vdw": Fraction(1), "mass": Fraction(1)})

    def ob_order():
        a, b, c = ints("z", 3)
        rng = [z3.And(v >= 1, v <= NEL) for v in (a, b, c)]
        import ast

        def thunk(I2, _a, kw):
            A, B, C = mk(I2, a), mk(I2, b), mk(I2, c)
            lt = lambda x, y: z(I2.truth(I2.compare(ast.Lt(), x, y)))
            eq = lambda x, y: z(I2.truth(I2.compare(ast.Eq(), x, y)))
            return {"ab": lt(A, B), "ba": lt(B, A), "bc": lt(B, C), "ac": lt(A, C), "aa": lt(A, A), "eq_ab": eq(A, B),
                    "ha": I2.call(I2.getattr(A, "__hash__"), []), "hb": I2.call(I2.getattr(B, "__hash__"), [])}
        res = I.explore(thunk, pre=rng)
        key = lambda v: z3.If(v == 6, z3.IntVal(0), v)      # spec: carbon first, then atomic number

        def order_replay(m):
            e = _el()
            zs = [int(m.get(f"z{i}", 1)) for i in range(3)]
            A, B, C = (e.Element.from_atomic_number(q) for q in zs)
            k = lambda q: 0 if q == 6 else q
            obs = {"A<B": A < B, "B<A": B < A, "B<C": B < C, "A<C": A < C, "A<A": A < A, "A==B": A == B}
            bad = (obs["A<B"] != (k(zs[0]) < k(zs[1])) or obs["A<A"] or (obs["A<B"] and obs["B<A"]) or (obs["A<B"] and obs["B<C"] and not obs["A<C"])
                   or not (obs["A<B"] or obs["B<A"] or zs[0] == zs[1]) or obs["A==B"] != (zs[0] == zs[1]) or (obs["A==B"] and hash(A) != hash(B)))
            return {"native_inputs": {"atomic_numbers": zs}, "reproduced": bool(bad), "observed": obs}
        for k, r in enumerate(res):
            v = r.value
            sfx = f"/path{k}"
            fn = ctx.fn(MOD, "Element.__lt__")
            ctx.prove("element.Element.__lt__/ensures/spec" + sfx, r.pc, v["ab"] == (key(a) < key(b)),
                      clause="A < B  <=>  key(A) < key(B) with key = 0 for carbon, atomic number otherwise", fn=fn, replay=order_replay)
            ctx.prove("element.Element.__lt__/ensures/irreflexive" + sfx, r.pc, z3.Not(v["aa"]), clause="not A < A", fn=fn, replay=order_replay)
            ctx.prove("element.Element.__lt__/ensures/asymmetric" + sfx, r.pc, z3.Not(z3.And(v["ab"], v["ba"])), clause="not (A<B and B<A)", fn=fn, replay=order_replay)
            ctx.prove("element.Element.__lt__/ensures/transitive" + sfx, r.pc, z3.Implies(z3.And(v["ab"], v["bc"]), v["ac"]), clause="A<B and B<C => A<C", fn=fn, replay=order_replay)
            ctx.prove("element.Element.__lt__/ensures/total" + sfx, r.pc, z3.Or(v["ab"], v["ba"], a == b), clause="A<B or B<A or same element", fn=fn, replay=order_replay)
            ctx.prove("element.Element.__eq__/ensures/same_number" + sfx, r.pc, v["eq_ab"] == (a == b), clause="A == B <=> same atomic number",
                      fn=ctx.fn(MOD, "Element.__eq__"), replay=order_replay)
            ctx.prove("element.Element.__hash__/ensures/consistent" + sfx, r.pc, z3.Implies(v["eq_ab"], v["ha"] == v["hb"]), clause="A == B => equal hashes",
                      fn=ctx.fn(MOD, "Element.__hash__"), replay=order_replay)
    ctx.attempt("element.Element.__lt__/ensures/spec", ob_order)

    # ---------------------------------------------------------------- P: vectorised helpers on a symbolic array (two cells: each output cell depends on its own input)
    def ob_vec():
        a0, a1 = ints("a", 2)
        arr = iarr([a0, a1])
        for fname, col in (("cov_radii", 2), ("vdw_radii", 3), ("element_names", 0), ("element_symbols", 1)):
            fn = ctx.fn(MOD, fname)
            res = I.run(fn, [arr])
            inr = z3.And(a0 >= 1, a0 <= NEL, a1 >= 1, a1 <= NEL)
            ret = []
            for k, r in enumerate(res):
                if r.kind == "return":
                    out = r.value
                    cells = out.flat() if isinstance(out, NDArr) else list(out)
                    e0 = I.ite_chain([row[col] for row in table], a0 - 1)
                    e1 = I.ite_chain([row[col] for row in table], a1 - 1)
                    ctx.prove(f"element.{fname}/ensures/rows/path{k}", r.pc, z3.And(inr, z(cells[0]) == z(e0), z(cells[1]) == z(e1)),
                              clause="normal return => all numbers in 1..103 and cell k is column of table row a[k]", fn=fn)
                    ret.append(r.cond())
                else:
                    ctx.prove(f"element.{fname}/ensures/raises_only_outside/path{k}", r.pc, z3.Not(inr), clause="exception => some number outside 1..103", fn=fn)
            ctx.prove(f"element.{fname}/ensures/total_in_range", [inr], z3.Or(*ret) if ret else z3.BoolVal(False), clause="numbers in range => normal return", fn=fn)
    ctx.attempt("element.cov_radii/ensures/rows", ob_vec)

    ground_spellings(ctx)
    engine_guard(ctx, I, f_num, f_str, f_lab)
    # F + run-time: look-ups are not memoised (each returns its own object built from the table: what a caller does to one result cannot show up in a later look-up)
    import ast as _ast
    decorated = {}
    for cname in ("Element", "_ElementMeta"):
        cls_node = mod.classes.get(cname)
        for n_ in (cls_node.body if cls_node is not None else []):
            if isinstance(n_, _ast.FunctionDef):
                ds = [_ast.unparse(d_) for d_ in n_.decorator_list]
                if any("cache" in d_ for d_ in ds):
                    decorated[f"{cname}.{n_.name}"] = ds
    indep = []
    for key in ("C1", "Cl", "carbon", 6, "H12A"):
        a_ = el.Element[key]
        saved = (a_.vdw, a_.cov, a_.mass, a_.name)
        a_.vdw, a_.cov, a_.mass, a_.name = 99.0, 98.0, 97.0, "changed"
        b_ = el.Element[key]
        if b_ is a_ or (b_.vdw, b_.cov, b_.mass, b_.name) != saved:
            indep.append({"key": key, "second_lookup": [b_.vdw, b_.cov, b_.mass, b_.name], "table": list(saved)})
        a_.vdw, a_.cov, a_.mass, a_.name = saved
    ctx.ground("element.Element/lookups/independent_results", not decorated and not indep, tag="G",
               clause="no look-up is memoised by a caching decorator, and modifying the object returned by one look-up does not change what the next look-up of the same key returns",
               detail={"cached_methods": decorated, "shared_results": indep}, witness={"cached_methods": decorated, "history": "x = Element[k]; x.vdw = 99; Element[k].vdw", "observed": indep[:2]},
               fn=f_lab)
    bounded_formula(ctx)


def engine_guard(ctx, I, f_num, f_str, f_lab):
    """CPython cross-check of the symbolic executor on the functions under contract (concrete arguments, one path, same value / exception type)."""
    from pyvc.crosscheck import crosscheck
    el = _el()
    fields = ["atomic_number", "name", "symbol", "cov", "vdw", "mass"]
    crosscheck(ctx, I, f_num, el.Element.from_atomic_number, [(k,) for k in (1, 2, 6, 17, 53, 79, 103, 0, -1, 104, -103, -104, 250)], fields=fields)
    crosscheck(ctx, I, f_str, el.Element.from_string, [(s_,) for s_ in ("H", "he", "CL", " c ", "carbon", "Iron", "D", "Xx", "", "C1", "na2", "17", "cl_a")], fields=fields)
    crosscheck(ctx, I, f_lab, el.Element.from_label, [(s_,) for s_ in ("C1", "Cl1", "H12A", "ca", "O", "N3_$1", "1C", "", "Zz9")], fields=fields)
    crosscheck(ctx, I, ctx.fn(MOD, "chemical_formula"), el.chemical_formula,
               [(["C", "H", "H", "O"],), (["Na", "Cl"],), (["H"] * 12 + ["C"] * 6,), ([],), (["O", "O", "Fe", "Fe", "Fe"],)])


def ground_spellings(ctx):
    """G: the complete finite domains of the property, real functions executed."""
    el = _el()
    rows = el._ELEMENT_DATA
    t0 = time.time()
    bad, nev = [], 0
    for Z, (nm, sy, cov, vdw, mass) in enumerate(rows, start=1):
        spell = set(case_variants(sy)) | {nm, nm.upper(), nm.capitalize(), nm.lower(), str(Z), f" {sy} ", f"\t{sy}\n", f" {nm} ", f"{Z} "}
        spell |= {v + "1" for v in case_variants(sy)} | {sy + "12_F2___i", sy.upper() + "3A"}
        for q in sorted(spell):
            nev += 1
            try:
                x = el.Element[q]
                ok = (x.atomic_number, x.name, x.symbol, x.cov, x.vdw, x.mass) == (Z, nm, sy, cov, vdw, mass)
                obs = {"returned": x.symbol, "Z": x.atomic_number}
            except Exception as ex:  # noqa
                ok, obs = False, {"raised": type(ex).__name__}
            if sy.upper() == "D" or q.strip().capitalize() == "D":
                continue
            if not ok:
                bad.append({"query": q, "expected_Z": Z, "observed": obs})
        x = el.Element.from_atomic_number(Z) if 1 <= Z <= 103 else None
        if (x.atomic_number, x.name, x.symbol, x.cov, x.vdw, x.mass) != (Z, nm, sy, cov, vdw, mass):
            bad.append({"from_atomic_number": Z})
    ctx.ground("element.Element.__getitem__/spellings", not bad, clause=f"103 elements x symbol case variants, name variants, number string, blank padding, labels ({nev} queries): the element with its tabulated data",
               detail=bad[:5], witness=bad[:3], seconds=time.time() - t0)
    t0 = time.time()
    bad = []
    for k in range(-200, 301):
        for how, f in (("Element[n]", lambda q: el.Element[q]), ("from_atomic_number", el.Element.from_atomic_number), ("Element[str(n)]", lambda q: el.Element[str(q)])):
            try:
                x = f(k)
                ok = 1 <= k <= 103 and x.atomic_number == k and x.symbol == rows[k - 1][1]
                obs = {"returned": x.symbol, "atomic_number": x.atomic_number}
            except Exception as ex:  # noqa
                ok, obs = not (1 <= k <= 103), {"raised": type(ex).__name__}
            if not ok:
                bad.append({"n": k, "how": how, "observed": obs})
    # the vectorised helpers: every integer -300..400, alone and next to a valid number, as int64 / int32 / int16 arrays: rows of the table for 1..103, an error otherwise
    bad_v = []
    for fname, col in (("cov_radii", 2), ("vdw_radii", 3), ("element_names", 0), ("element_symbols", 1)):
        f = getattr(el, fname, None)
        if f is None:
            continue
        for k in range(-300, 401):
            for dt in (np.int64, np.int32, np.int16):
                for arr in (np.array([k], dtype=dt), np.array([6, k, 8], dtype=dt)):
                    try:
                        out = f(arr)
                        ok = 1 <= k <= 103 and len(out) == len(arr) and all((abs(float(o) - float(rows[int(z_) - 1][col])) < 1e-6) if col >= 2 else (str(o) == rows[int(z_) - 1][col]) for o, z_ in zip(out, arr))
                        obs = {"returned": [str(o) for o in out][:3]}
                    except Exception as ex:  # noqa
                        ok, obs = not (1 <= k <= 103), {"raised": type(ex).__name__}
                    if not ok and len(bad_v) < 6:
                        bad_v.append({"function": fname, "numbers": arr.tolist(), "dtype": np.dtype(dt).name, "observed": obs})
    ctx.ground("element.vectorised_helpers/integers", not bad_v, clause="cov_radii / vdw_radii / element_names / element_symbols on int64, int32 and int16 arrays holding any integer -300..400 "
               "(alone or between valid numbers): the table rows for 1..103, an error for everything else (no number is mapped to some other element)", detail=bad_v[:6], witness=bad_v[:3])
    # ordering: all six comparison operators, min/max and sorted agree with the key (carbon first, then atomic number) on all 103 x 103 pairs
    bad_o = []
    E = [el.Element.from_atomic_number(zz) for zz in range(1, 104)]
    okey = lambda e_: (0 if e_.atomic_number == 6 else 1, e_.atomic_number)
    for a_ in E:
        for b_ in E:
            ka, kb = okey(a_), okey(b_)
            try:
                got = (a_ < b_, a_ <= b_, a_ > b_, a_ >= b_, a_ == b_, a_ != b_, okey(max(a_, b_)), okey(min(a_, b_)))
            except Exception as ex:  # noqa
                got = repr(ex)[:80]
            want = (ka < kb, ka <= kb, ka > kb, ka >= kb, ka == kb, ka != kb, max(ka, kb), min(ka, kb))
            if got != want and len(bad_o) < 6:
                bad_o.append({"a": a_.symbol, "b": b_.symbol, "(<, <=, >, >=, ==, !=, max, min)": str(got), "expected": str(want)})
    srt = [e_.atomic_number for e_ in sorted(reversed(E))]
    if srt != [6] + [zz for zz in range(1, 104) if zz != 6]:
        bad_o.append({"sorted": srt[:8]})
    ctx.ground("element.Element/ordering/all_operators", not bad_o, clause="<, <=, >, >=, ==, !=, max, min on all 103 x 103 pairs and sorted() on the whole table follow the key "
               "(carbon first, then atomic number)", detail=bad_o[:6], witness=bad_o[:3])
    ctx.ground("element.Element.__getitem__/integers", not bad, clause="all integers -200..300 (as int, via from_atomic_number, as digit string): 1..103 give that element, everything else is rejected with an error",
               detail=bad[:6], witness=bad[:3], seconds=time.time() - t0)
    bad = []
    for q in ["", " ", "Xx", "Qq12", "hydrogenium", "J", "123abc", "_C1", "1H", "carbon1x" if False else "Zz9"]:
        try:
            x = el.Element[q]
            bad.append({"query": q, "returned": x.symbol})
        except ValueError:
            pass
        except Exception as ex:  # noqa
            bad.append({"query": q, "raised": type(ex).__name__ + " (not ValueError)"})
    for q in (1.5, None, (1,), b"H"):
        try:
            x = el.Element[q]
            bad.append({"query": repr(q), "returned": x.symbol})
        except ValueError:
            pass
        except Exception as ex:  # noqa
            bad.append({"query": repr(q), "raised": type(ex).__name__})
    ctx.ground("element.Element.__getitem__/rejects", not bad, clause="strings naming no element and non-int/str keys raise ValueError", detail=bad[:5], witness=bad[:3])


def bounded_formula(ctx):
    el = _el()
    rng = np.random.default_rng(ctx.seed + 17)
    n = 300 if ctx.tier == "quick" else 5000
    fails, distinct = [], set()
    sub = lambda k: "".join(chr(0x2080 + int(ch)) for ch in str(k))

    def spec_formula(els, subscript):
        cnt = {}
        for e in els:
            cnt[e.atomic_number] = cnt.get(e.atomic_number, 0) + 1
        order = sorted(cnt, key=lambda zz: (0 if zz == 6 else 1, zz))
        return "".join(el.Element.from_atomic_number(zz).symbol + ((sub(cnt[zz]) if subscript else str(cnt[zz])) if cnt[zz] > 1 else "") for zz in order)
    cases = []
    for _ in range(n):
        k = int(rng.integers(1, 40))
        zs = rng.integers(1, 104, size=k) if rng.integers(0, 2) else rng.choice([1, 6, 7, 8, 9, 17, 5, 3][: int(rng.integers(1, 9))], size=k)
        cases.append([int(q) for q in zs])
    for rep in list(range(1, 31)) + [99, 100, 101, 120]:       # one element repeated: every count digit pattern
        cases.append([8] * rep)
        cases.append([6] * rep + [1] * (2 * rep))
    evals = 0
    for zs in cases:
        els = [el.Element.from_atomic_number(q) for q in zs]
        for subscript in (False, True):
            evals += 1
            got = el.chemical_formula(list(els), subscript=subscript)
            exp = spec_formula(els, subscript)
            distinct.add((tuple(sorted(zs)), subscript))
            if got != exp and len(fails) < 3:
                fails.append({"input": {"atomic_numbers": zs, "subscript": subscript}, "observed": {"got": got, "expected": exp},
                              "clause": "formula lists each distinct element once, carbon first then by atomic number, with its multiplicity (plain or unicode subscript digits)",
                              "key": "formula"})
    ctx.add_bounded("element.chemical_formula/bounded/multisets", "seeded random element multisets of size 1..39 plus single elements repeated 1..30, 99..101, 120 times; plain and subscript output",
                    evals, len(distinct), fails, rule="distinct (multiset, subscript) pairs")
