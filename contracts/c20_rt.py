"""Run-time support for executing the de-cythonised kernel text natively with C semantics.

Undefined behaviour of the C program (out-of-bounds access under boundscheck=False, read of uninitialised memory,
shift by >= width) raises CUndefined instead of silently producing a value.
"""
import math

import numpy as np

M32 = 0xFFFFFFFF


class CUndefined(Exception):
    """The extracted program performed an operation whose behaviour is undefined in C."""


def c_u32(x):
    if isinstance(x, float):
        if not (-1.0 < x < 4294967296.0):
            raise CUndefined(f"double -> unsigned conversion out of range: {x}")
        return int(x)
    return int(x) & M32


def c_int(x):
    if isinstance(x, float):
        return int(x)
    x = int(x) & M32
    return x - (1 << 32) if x & 0x80000000 else x


def c_double(x):
    return float(x)


def c_shl(a, b):
    if not 0 <= b < 32:
        raise CUndefined(f"shift count {b} out of range")
    return (a << b) & M32


def c_shr(a, b):
    if not 0 <= b < 32:
        raise CUndefined(f"shift count {b} out of range")
    return (a & M32) >> b


def c_udiv(a, b):
    if b == 0:
        raise CUndefined("division by zero")
    return (a & M32) // (b & M32)


def c_umod(a, b):
    if b == 0:
        raise CUndefined("division by zero")
    return (a & M32) % (b & M32)


def c_idiv(a, b):
    if b == 0:
        raise CUndefined("division by zero")
    q = abs(a) // abs(b)
    return q if (a >= 0) == (b >= 0) else -q


def c_fmod(a, b):
    return math.fmod(a, b)


def ceil(x):
    return float(math.ceil(x))


def floor(x):
    return float(math.floor(x))


def log(x):
    return math.log(x) if x > 0 else (float("-inf") if x == 0 else float("nan"))


def pow(x, y):  # noqa: A001  (C pow)
    return math.pow(x, y)


def sqrt(x):
    return math.sqrt(x)


def fabs(x):
    return math.fabs(x)


_UNINIT = set()          # id() of ndarrays handed out by np.empty (contents indeterminate)
_KEEP = []


class NPShim:
    """numpy, except that np.empty remembers that its result is uninitialised."""

    def __init__(self):
        self._np = np

    def __getattr__(self, name):
        return getattr(self._np, name)

    def empty(self, *a, **kw):
        arr = self._np.zeros(*a, **kw)
        _UNINIT.add(id(arr))
        _KEEP.append(arr)
        return arr


def reset():
    _UNINIT.clear()
    del _KEEP[:]


class CView:
    """Typed memoryview with boundscheck=False/wraparound=False semantics made explicit."""
    __slots__ = ("arr", "elem", "init", "shape", "ro")

    def __init__(self, arr, elem, init=None):
        self.arr = arr
        self.elem = elem
        self.shape = arr.shape
        if init is None:
            init = np.zeros(arr.shape, dtype=bool) if id(arr) in _UNINIT else None
        self.init = init

    def _check(self, i, n):
        if not (isinstance(i, int) and 0 <= i < n):
            raise CUndefined(f"index {i} outside [0, {n})")

    def __getitem__(self, idx):
        if isinstance(idx, tuple):
            if len(idx) != len(self.shape):
                raise CUndefined("wrong number of indices")
            for i, n in zip(idx, self.shape):
                self._check(i, n)
        else:
            self._check(idx, self.shape[0])
            if len(self.shape) > 1:
                return CView(self.arr[idx], self.elem, None if self.init is None else self.init[idx])
        if self.init is not None and not self.init[idx]:
            raise CUndefined(f"read of uninitialised element {idx}")
        v = self.arr[idx]
        return int(v) if self.elem in ("u32", "int") else float(v)

    def __setitem__(self, idx, v):
        if isinstance(idx, tuple):
            if len(idx) != len(self.shape):
                raise CUndefined("wrong number of indices")
            for i, n in zip(idx, self.shape):
                self._check(i, n)
        else:
            if len(self.shape) != 1:
                raise CUndefined("row assignment through a view")
            self._check(idx, self.shape[0])
        self.arr[idx] = v
        if self.init is not None:
            self.init[idx] = True


def c_view(arr, ctype):
    if isinstance(arr, CView):
        return arr
    _, elem, nd = ctype.split(":")
    a = np.asarray(arr) if not isinstance(arr, np.ndarray) else arr
    if a.ndim != int(nd):
        raise ValueError(f"Buffer has wrong number of dimensions (expected {nd}, got {a.ndim})")
    want = {"u32": np.uint32, "double": np.float64, "int": np.int32}[elem]
    if a.dtype != want:
        raise ValueError(f"Buffer dtype mismatch, expected {want.__name__} got {a.dtype}")
    return CView(a, elem)


def c_local_array(n, ctype):
    arr = np.zeros(n, dtype={"u32": np.uint32, "double": np.float64, "int": np.int32}[ctype])
    _UNINIT.add(id(arr))
    _KEEP.append(arr)
    return CView(arr, ctype)
