"""Mechanical de-cythoniser for the subset of Cython used by chmpy/interpolate/_density.pyx (DESIGN section 2.2).

A line/token rewriter, re-run on every check: `.pyx` text -> Python text with the SAME line numbering (continuation lines of a
signature are folded into its first line and left blank), plus a type environment.  Anything it does not recognise inside
a requested function/class raises `ExtractError` (-> the obligations that need it are undecided, never guessed).

    cdef class X:                              -> class X:
    cdef [public] T attr      (class body)     -> dropped, type recorded
    cdef/cpdef [inline] R f(typed args) [noexcept] [nogil]:   -> def f(args):
    def f(self, const float[::1] a, b=0.0):    -> def f(self, a, b=0.0):
    cdef T a, b               (function body)  -> dropped, types recorded
    cdef T x = e                               -> x = e
    cdef float[3] v   /  cdef float v[3]       -> v = c_array(3)
    <int>(e)                                   -> c_int(e)          (truncation toward zero)
    <float>(e) / <double>(e)                   -> (e)
    prange(                                    -> range(            (iteration independence is a separate F obligation)
    with nogil:                                -> if True:
    decorators @cython.*, cimport, cnp.import_array()  -> dropped
"""
import ast
import hashlib
import re

from pyvc import source


class ExtractError(Exception):
    pass


_CTYPES = ("unsigned int", "double complex", "float", "double", "int", "long", "void", "bint", "object")
_TYPE_RE = r"(?:const\s+)?(?:unsigned\s+int|double\s+complex|float|double|int|long|void|bint|[A-Z]\w*)(?:\s*\[[^\]]*\])?"


def _split_top(s, sep=","):
    out, depth, cur = [], 0, ""
    for ch in s:
        if ch in "([{":
            depth += 1
        elif ch in ")]}":
            depth -= 1
        if ch == sep and depth == 0:
            out.append(cur)
            cur = ""
        else:
            cur += ch
    if cur.strip():
        out.append(cur)
    return out


def _strip_arg(a, types):
    """'const float[::1] xi' -> 'xi' ; 'const float position[3]' -> 'position' ; 'background=0.0' unchanged."""
    a = a.strip()
    if not a:
        return a
    default = ""
    parts = _split_top(a, "=")
    if len(parts) == 2:
        a, default = parts[0].strip(), "=" + parts[1].strip()
    m = re.fullmatch(r"(?P<t>" + _TYPE_RE + r")\s+(?P<n>[A-Za-z_]\w*)(?P<dim>\s*\[\s*\d+\s*\])?", a)
    if m:
        types[m.group("n")] = (m.group("t") + (m.group("dim") or "")).strip()
        return m.group("n") + default
    if re.fullmatch(r"[A-Za-z_]\w*", a):
        return a + default
    raise ExtractError(f"unrecognised parameter declaration: {a!r}")


def _casts(line):
    line = re.sub(r"<\s*int\s*>\s*\(", "c_int(", line)
    line = re.sub(r"<\s*unsigned\s+int\s*>\s*\(", "c_u32(", line)
    line = re.sub(r"<\s*(?:float|double)\s*>\s*\(", "(", line)
    if re.search(r"<\s*[A-Za-z_ ]+\s*>\s*[\(A-Za-z_]", line) and "<=" not in line and ">=" not in line and " < " not in line and " > " not in line:
        raise ExtractError(f"unrecognised cast: {line.strip()!r}")
    return line


def decythonise(text):
    """-> (python_text, types) ; types: {scope: {name: ctype}} with scope = 'Class', 'Class.method' or 'function'."""
    src = text.split("\n")
    out = [""] * len(src)
    types = {}
    scope_stack = []   # (indent, name)
    i = 0

    def cur_scope(indent):
        while scope_stack and scope_stack[-1][0] >= indent:
            scope_stack.pop()
        return ".".join(n for _, n in scope_stack) or "<module>"

    while i < len(src):
        raw = src[i]
        code = raw.split("#", 1)[0].rstrip()
        comment = raw[len(raw.split("#", 1)[0]):] if "#" in raw else ""
        stripped = code.strip()
        indent = len(code) - len(code.lstrip())
        if not stripped:
            out[i] = raw if not raw.strip().startswith("# cython:") else ""
            i += 1
            continue
        scope = cur_scope(indent)
        env = types.setdefault(scope, {})
        # dropped lines
        if re.match(r"(cimport\s|from\s+\S+\s+cimport\s|from\s+cython\.parallel\s+import\s|cnp\.import_array\(\))", stripped) or \
                re.match(r"@cython\.\w+(\(.*\))?$", stripped):
            out[i] = ""
            i += 1
            continue
        # class
        m = re.match(r"cdef\s+class\s+(\w+)\s*:\s*$", stripped)
        if m:
            out[i] = " " * indent + f"class {m.group(1)}:"
            scope_stack.append((indent, m.group(1)))
            i += 1
            continue
        # function signature (possibly continued over several lines)
        if re.match(r"(cdef|cpdef|def)\s", stripped) and "(" in stripped and (stripped.startswith("def ") or re.match(
                r"(cdef|cpdef)\s+(inline\s+)?(" + _TYPE_RE + r"\s+)?\w+\s*\(", stripped)):
            j = i
            sig = stripped
            while sig.count("(") > sig.count(")") or not sig.rstrip().endswith(":"):
                j += 1
                if j >= len(src):
                    raise ExtractError(f"unterminated signature at line {i + 1}")
                sig += " " + src[j].split("#", 1)[0].strip()
            m = re.match(r"(?:cdef|cpdef|def)\s+(?:inline\s+)?(?:(?P<ret>" + _TYPE_RE + r")\s+)?(?P<name>\w+)\s*\((?P<args>.*)\)\s*(?P<tail>[\w\s]*):\s*$", sig)
            if not m:
                raise ExtractError(f"unrecognised signature at line {i + 1}: {sig!r}")
            tail = m.group("tail").split()
            if any(t not in ("noexcept", "nogil") for t in tail):
                raise ExtractError(f"unrecognised signature suffix at line {i + 1}: {tail}")
            name = m.group("name")
            fscope = (scope + "." if scope != "<module>" else "") + name
            fenv = types.setdefault(fscope, {})
            if m.group("ret"):
                fenv["<return>"] = m.group("ret")
            args = [_strip_arg(a, fenv) for a in _split_top(m.group("args"))]
            out[i] = " " * indent + f"def {name}({', '.join(args)}):"
            scope_stack.append((indent, name))
            i = j + 1
            continue
        # declarations
        if stripped.startswith("cdef "):
            body = stripped[5:].strip()
            in_class = bool(scope_stack) and scope != "<module>" and scope_stack[-1][1][:1].isupper() and len(scope_stack) == 1
            body2 = re.sub(r"^public\s+", "", body)
            # array declarations
            m = re.fullmatch(r"(float|double|int)\s*\[\s*(\d+)\s*\]\s+(\w+)", body2) or None
            m2 = re.fullmatch(r"(float|double|int)\s+(\w+)\s*\[\s*(\d+)\s*\]", body2) or None
            if m or m2:
                t, n, nm = (m.group(1), m.group(2), m.group(3)) if m else (m2.group(1), m2.group(3), m2.group(2))
                env[nm] = f"{t}[{n}]"
                out[i] = " " * indent + f"{nm} = c_array({n})"
                i += 1
                continue
            m = re.match(r"(?P<t>" + _TYPE_RE + r")\s+(?P<rest>.+)$", body2)
            if not m:
                raise ExtractError(f"unrecognised declaration at line {i + 1}: {stripped!r}")
            t, rest = m.group("t"), m.group("rest")
            decls = _split_top(rest)
            stmts = []
            for dcl in decls:
                parts = _split_top(dcl, "=")
                nm = parts[0].strip()
                if not re.fullmatch(r"[A-Za-z_]\w*", nm):
                    raise ExtractError(f"unrecognised declarator at line {i + 1}: {dcl!r}")
                env[nm] = t.strip()
                if len(parts) == 2:
                    stmts.append(f"{nm} = {_casts(parts[1].strip())}")
                elif len(parts) > 2:
                    raise ExtractError(f"unrecognised initialiser at line {i + 1}")
            out[i] = (" " * indent + "; ".join(stmts)) if stmts else ""
            if in_class and stmts:
                raise ExtractError(f"initialised attribute declaration at line {i + 1}")
            i += 1
            continue
        # ordinary statement
        line = code
        if re.match(r"with\s+nogil\s*:\s*$", stripped):
            line = " " * indent + "if True:"
        line = re.sub(r"\bprange\s*\(", "range(", line)
        line = _casts(line)
        if re.search(r"\bcdef\b|\bcpdef\b|\bcimport\b|&\w|->|\bNULL\b", line):
            raise ExtractError(f"unrecognised construct at line {i + 1}: {stripped!r}")
        out[i] = line
        i += 1
    return "\n".join(out), types


class PyxModule:
    """De-cythonised module, usable wherever pyvc expects a source.ModuleSrc."""

    def __init__(self, modname, only=None):
        rel = modname.replace(".", "/") + ".pyx"
        import os
        self.path = os.path.join(source.SRC_ROOT, rel)
        self.pyx_text = open(self.path).read()
        self.py_text, self.types = decythonise(self.pyx_text)
        tree = ast.parse(self.py_text)
        self.mod = source.ModuleSrc(modname, self.path, self.py_text, tree)
        self.pyx_lines = self.pyx_text.split("\n")

    def describe(self, name):
        """name: 'func' or 'Class.method' -> evidence descriptor (file, lines, sha256 of the ORIGINAL .pyx segment)."""
        node = self.node(name)
        first = node.lineno
        # include decorator lines of the .pyx directly above
        while first >= 2 and self.pyx_lines[first - 2].strip().startswith("@"):
            first -= 1
        seg = "\n".join(self.pyx_lines[first - 1: node.end_lineno])
        return {"qualname": self.mod.modname + "." + name, "file": self.path, "lines": [first, node.end_lineno],
                "sha256": hashlib.sha256(seg.encode()).hexdigest()}

    def node(self, name):
        if "." in name:
            c, m = name.split(".", 1)
            for n in self.mod.classes[c].body:
                if isinstance(n, ast.FunctionDef) and n.name == m:
                    return n
            raise KeyError(name)
        return self.mod.functions[name]

    def segment(self, name):
        node = self.node(name)
        return "\n".join(self.pyx_lines[node.lineno - 1: node.end_lineno])


def embedded_pyx_lines(c_path, pyx_basename):
    """{line number: text} of the .pyx lines that Cython embedded as comments in the generated C file (source/binary skew check)."""
    out = {}
    pat = re.compile(r'^\s*/\* "[^"]*' + re.escape(pyx_basename) + r'":(\d+)\s*$')
    lines = open(c_path, errors="replace").read().split("\n")
    k = 0
    while k < len(lines):
        m = pat.match(lines[k])
        if m:
            target = int(m.group(1))
            k += 1
            while k < len(lines) and not lines[k].strip().startswith("*/"):
                mm = re.match(r"^ \* (.*?)(\s*# <<<<<<<<<<<<<<)?$", lines[k])
                if mm and mm.group(2):
                    out[target] = mm.group(1)
                k += 1
        k += 1
    return out
