"""C18 — rigid alignment returns the optimal proper rotation (chmpy/util/num.py, chmpy/core/dimer.py).

Conventions of the code: points are ROWS, the rotation is applied on the right (A . R), cov = A^T B = v diag(s) w.
Kabsch's formula: R = v diag(1, 1, sigma) w with sigma = sign(det v * det w); trace(R^T A^T B) = s0 + s1 + sigma s2 is
the maximum of trace(Q^T A^T B) over proper rotations Q, and sum|A Q - B|^2 = |A|^2 + |B|^2 - 2 trace(Q^T A^T B).
"""
import time

import numpy as np
import z3
import os

from pyvc.api import Contract, NDArr, Obj, conj, farr, real_matrix, reals, shell, source
from pyvc.libmodels import det3
from pyvc.symex import ModelFn
from pyvc.values import obj_array, to_real

from contracts import c18_support as S

NUM = "chmpy.util.num"
DIM = "chmpy.core.dimer"
EYE = lambda i, j: 1 if i == j else 0
CERT_BACKEND = "algebraic-certificate(exact check; cofactors constructed by the contract)"
FALLBACK = dict(timeout_ms=5000, cvc5_timeout_s=5)


# ----------------------------------------------------------------------------------------------------------------------
# assumed library contracts (A) specific to this property
# ----------------------------------------------------------------------------------------------------------------------
def svd_model(I, a, **kw):
    """numpy.linalg.svd of a real 3x3 matrix (assumed): a = v diag(s) w, v and w orthogonal, s0 >= s1 >= s2 >= 0."""
    a = a if isinstance(a, NDArr) else NDArr(obj_array(a), "f")
    if kw.get("full_matrices", True) is True and kw.get("compute_uv", True) is True and kw.get("hermitian", False) is False:
        kw = {k_: v_ for k_, v_ in kw.items() if k_ not in ("full_matrices", "compute_uv", "hermitian")}       # numpy's defaults spelled out
    if a.shape != (3, 3) or kw:
        from pyvc.values import Unsupported
        raise Unsupported("svd model: only full SVD of a 3x3 matrix")
    V = NDArr(obj_array([[I.fresh("real", f"svdV{i}{j}") for j in range(3)] for i in range(3)]), "f")
    W = NDArr(obj_array([[I.fresh("real", f"svdW{i}{j}") for j in range(3)] for i in range(3)]), "f")
    s = NDArr(obj_array([I.fresh("real", f"svdS{i}") for i in range(3)]), "f")
    Vd, Wd, sd = V.data.copy(), W.data.copy(), s.data.copy()
    facts = {"VtV": [], "VVt": [], "WtW": [], "WWt": [], "recon": []}
    for i in range(3):
        for j in range(i, 3):
            facts["VtV"].append(sum(Vd[k, i] * Vd[k, j] for k in range(3)) == EYE(i, j))
            facts["VVt"].append(sum(Vd[i, k] * Vd[j, k] for k in range(3)) == EYE(i, j))
            facts["WtW"].append(sum(Wd[k, i] * Wd[k, j] for k in range(3)) == EYE(i, j))
            facts["WWt"].append(sum(Wd[i, k] * Wd[j, k] for k in range(3)) == EYE(i, j))
    facts["order"] = [sd[0] >= sd[1], sd[1] >= sd[2], sd[2] >= 0]
    for i in range(3):
        for j in range(3):
            facts["recon"].append(to_real(a.data[i, j]) == sum(Vd[i, k] * sd[k] * Wd[k, j] for k in range(3)))
    for fs in facts.values():
        for f in fs:
            I.assume(f)
    I._c18_svd.append({"arg": a.data.copy(), "V": Vd, "s": sd, "W": Wd, "facts": facts})
    return (V, s, W)


def det_model(I, a):
    """numpy.linalg.det of a 3x3 matrix: a fresh name d with the defining equation d == (cofactor expansion)."""
    a = a if isinstance(a, NDArr) else NDArr(obj_array(a), "f")
    d = I.fresh("real", "det")
    fact = d == det3(a.data.tolist())
    I.assume(fact)
    I._c18_det.append({"d": d, "of": a.data.copy(), "fact": fact})
    return d


MODELS = {"numpy.linalg.svd": ModelFn("numpy.linalg.svd[C18: a = v diag(s) w, v^T v = v v^T = w^T w = w w^T = 1, s0>=s1>=s2>=0]", svd_model),
          "numpy.linalg.det": ModelFn("numpy.linalg.det[C18: named cofactor expansion]", det_model)}


def kabsch_contract(log):
    """Modular contract of kabsch_rotation_matrix for its callers: a fresh proper rotation; the arguments are recorded."""
    def result(I2, A, B):
        R = NDArr(obj_array([[I2.fresh("real", f"kabR{i}{j}") for j in range(3)] for i in range(3)]), "f")
        log.append({"A": A, "B": B, "R": R.data.copy()})
        return R

    def ensures(R, A, B):
        d = R.data
        return conj([sum(d[k, i] * d[k, j] for k in range(3)) == EYE(i, j) for i in range(3) for j in range(i, 3)] + [det3(d.tolist()) == 1])
    return Contract(requires=None, ensures=ensures, result=result)


# ----------------------------------------------------------------------------------------------------------------------
def build(ctx):
    ctx.level = "other"
    thorough = ctx.tier == "thorough"
    ctx.assumptions += [
        "floats are reals (rounding in the SVD, the products and the determinant test is not modelled; covered only by the bounded run-time contract)",
        "numpy.linalg.svd(M) for a real 3x3 M returns (v, s, w) with M = v diag(s) w, v and w orthogonal, s0 >= s1 >= s2 >= 0",
        "numpy.linalg.det of a 3x3 matrix is its cofactor expansion; numpy.dot/transpose/vdot/mean/sqrt as in pyvc.libmodels",
        "composition of the optimality argument from its machine-checked pieces (P trace_attained, L rmsd_vs_trace, L trace_cyclic, "
        "L image_orthogonal/image_det, L diag_le_one, L improper_trace, L bound_proper/bound_improper) is done on paper, see explanation",
    ]
    ctx.explanation = (
        "P (from the real source of kabsch_rotation_matrix executed on symbolic N x 3 point sets, SVD as an assumed contract): the SVD is taken of A^T B "
        "(covariance, every N of the tier); R == v diag(1,1,sigma) w with sigma = -1 exactly when det v * det w < 0 (branch, formula); R^T R == R R^T == 1 "
        "(orthogonal, explicit certificates); det R == sigma det v det w == +1 (det/product, det/v_squared, det/w_squared, det/sign) — so an improper rotation is "
        "never returned, mirror images included; trace(R^T A^T B) == s0 + s1 + sigma s2 (trace_attained, every N of the tier).  "
        "L (lemmas over spec terms only, exact certificates + small NRA queries): for orthogonal Q, |aQ - b|^2 == |a|^2 + |b|^2 - 2 (aQ).b per point (rmsd_vs_trace); "
        "trace(Q^T v S w) == sum_i T_ii s_i with T = w Q^T v (trace_cyclic); T is orthogonal with det T == det w det Q det v (image_*); an orthogonal T has |T_ii| <= 1 and, if "
        "det T == -1, trace T <= 1 (improper_trace: |axial vector|^2 == (3 + t)(1 - t) on the variety); hence sum_i T_ii s_i <= s0 + s1 + det(T) s2 (bound_*).  Together: "
        "every proper rotation Q has trace(Q^T A^T B) <= s0 + s1 + sigma s2 == trace(R^T A^T B), i.e. R minimises the RMSD; congruent sets (minimum 0) are therefore superposed "
        "exactly.  That composition is not itself machine-checked, and floats are reals, hence level 'other'.  "
        "P: reorient_points(A, B) == A . R and rmsd_points(A, B)^2 N == sum|B - A . R|^2 with R the result of kabsch_rotation_matrix(A, B) in that argument order (modular contract); "
        "reorient=None skips the rotation; another method raises NotImplementedError.  P: Dimer.calculate_transform passes point sets whose covariance is that of (positions_b - centroid_b, positions_a - centroid_a) and stores "
        "(R, centroid_b - centroid_a); unequal sizes or element lists give None.  "
        "B: the statement itself as a run-time contract on the real functions (float64): orthogonality/determinant to 1e-10, optimality against Horn's closed-form optimum "
        "(independent of the SVD) and against thousands of proper rotations near R, exact superposition of congruent sets, no superposition of chiral mirror images, optimum 0 "
        "for achiral mirror images (exercises the reflection branch with s2 = 0), helpers, and real Dimer/Molecule objects."
    )
    t_native = time.time()
    if thorough:
        fl, fd = S.run_native(ctx.seed, list(range(3, 51)), 3, 2000, [3, 4, 5, 6, 8, 12, 20, 35, 50])
        dom = "N = 3..50 (all), 3 shapes x 5 relations x 3 seeded repetitions, 4009 proper rotations per case"
    else:
        fl, fd = S.run_native(ctx.seed, [3, 4, 5, 7, 10, 20, 50], 2, 2000, [3, 4, 6, 12])
        dom = "N in {3,4,5,7,10,20,50}, 3 shapes x 5 relations x 2 seeded repetitions, 4009 proper rotations per case"
    t_native = time.time() - t_native

    def replay_for(*keys):
        def replay(m):
            for k in tuple(keys) + ("raises", "dimer_raises"):
                for store in (fl, fd):
                    if k in store.by_key:
                        w = store.by_key[k]
                        return {"native_inputs": w["input"], "reproduced": True, "observed": w["observed"], "clause": w["clause"]}
            return {"native_inputs": None, "reproduced": False,
                    "observed": f"clauses {keys} hold natively on {fl.cases} seeded point-set pairs and {fd.cases} dimers"}
        return replay

    f_kab = ctx.fn(NUM, "kabsch_rotation_matrix")
    f_reo = ctx.fn(NUM, "reorient_points")
    f_rms = ctx.fn(NUM, "rmsd_points")
    f_dim = ctx.fn(DIM, "Dimer.calculate_transform")
    numsrc = source.load_module(NUM)

    def certified(ident, cert, hyps, goal, clause, replay, fn, tag="P"):
        """Explicit certificate goal == sum q_k h_k (checked exactly); if it does not check, the solvers decide hyps |- goal."""
        t0 = time.time()
        try:
            ok = cert is not None and cert.check()
        except Exception:  # noqa  (e.g. a term that is not polynomial after an edit of the source)
            ok = False
        if ok:
            r = ctx.ground(ident, True, clause=clause, tag=tag, seconds=round(time.time() - t0, 3), fn=fn,
                           detail={"certificate": "goal == sum_k q_k * h_k over Q, h_k hypotheses of the path", "cofactor_terms": cert.size(), "hypotheses_used": len(cert.pairs)})
            r.backend = CERT_BACKEND
            return r
        return ctx.prove(ident, hyps, goal, clause=clause, tag=tag, replay=replay, fn=fn, split=False, **FALLBACK)

    # ==================================================================================================================
    # kabsch_rotation_matrix on symbolic point sets
    # ==================================================================================================================
    I = ctx.interp(models=MODELS)
    lab = "util.num.kabsch_rotation_matrix/ensures/"
    sizes = list(range(3, 51)) if thorough else [3, 4, 5, 6, 7, 8, 10, 13, 20, 33, 50]
    done_signatures = {}

    def kabsch_for(N):
        A, B = real_matrix("a", N, 3), real_matrix("b", N, 3)

        def thunk(I2, _a, kw):
            I2._c18_svd, I2._c18_det = [], []
            R = I2.call(I2.lookup_global(numsrc, "kabsch_rotation_matrix"), [farr(A), farr(B)])
            return {"R": R, "svd": I2._c18_svd, "det": I2._c18_det}
        res = I.explore(thunk)
        sfx = f"/N{N}"
        rp_shape = replay_for("shape", "raises")
        for k, r in enumerate(res):
            if r.kind != "return" or not isinstance(r.value["R"], NDArr) or r.value["R"].shape != (3, 3) or len(r.value["svd"]) != 1:
                ctx.prove(lab + f"returns_matrix{sfx}/path{k}", r.pc, z3.BoolVal(False), clause="returns a 3x3 matrix computed from one SVD", replay=rp_shape, fn=f_kab)
                return
        for k, r in enumerate(res):
            psfx = sfx + (f"/path{k}" if len(res) > 1 else "")
            o = r.value
            Rd = o["R"].data
            sv = o["svd"][0]
            V, W, s, facts = sv["V"], sv["W"], sv["s"], sv["facts"]
            cov_spec = [[sum(A[n][i] * B[n][j] for n in range(N)) for j in range(3)] for i in range(3)]
            # -- the decomposed matrix is A^T B
            ctx.prove(lab + "covariance" + psfx, [], conj([to_real(sv["arg"][i, j]) == cov_spec[i][j] for i in range(3) for j in range(3)]), split=False,
                      clause="the matrix handed to the SVD is A^T B (rows of A against rows of B, in this order)", replay=replay_for("optimal", "congruent"), fn=f_kab)
            conds = S.ite_conditions(list(Rd.reshape(-1)))
            dets = o["det"]
            if os.environ.get("PYVC_DEBUG") and N == 3:
                print("C18DBG paths", len(res), "path", k, "conds", [str(c_)[:100] for c_ in conds], "pc tail", [str(c_)[:100] for c_ in r.pc][-2:], "R00", str(Rd[0, 0])[:300])
            if len(conds) > 1 or len(dets) != 2:
                ctx.prove(lab + "branch" + psfx, r.pc, z3.BoolVal(False), clause="one reflection test on det(v) * det(w)", replay=replay_for("det", "optimal", "mirror"), fn=f_kab)
                continue
            d1, d2 = dets[0]["d"], dets[1]["d"]
            neg = d1 * d2 < 0
            cases = []
            # the obligations that do not mention A, B have the same terms for every N: generated once per distinct (R, SVD facts, determinants)
            sig = (tuple(c.sexpr() for c in conds), tuple(x.sexpr() if z3.is_expr(x) else str(x) for x in Rd.reshape(-1)),
                   tuple(f.sexpr() for key in ("VtV", "VVt", "WtW", "WWt") for f in facts[key]), tuple(dd["fact"].sexpr() for dd in dets))
            generic_needed = sig not in done_signatures
            done_signatures.setdefault(sig, N)
            if conds:
                cond = conds[0]
                if generic_needed:
                    ctx.prove(lab + "branch" + psfx, [d1 * d1 == 1, d2 * d2 == 1], cond == neg,
                              clause="the reflection branch is taken exactly when det(v) * det(w) < 0 (given det(v)^2 == det(w)^2 == 1, obligations det/v_squared, det/w_squared)",
                              replay=replay_for("det", "optimal", "mirror"), fn=f_kab)
                for val, sg in ((True, -1), (False, 1)):
                    Rc = np.empty((3, 3), dtype=object)
                    for i in range(3):
                        for j in range(3):
                            Rc[i, j] = S.subst_cond(Rd[i, j], cond, val)
                    cases.append((sg, [neg if val else z3.Not(neg)], Rc, "reflected" if val else "plain"))
            else:   # no branch inside R (the reflection test forked into separate paths, or there is none): on THIS path both sign cases still have to satisfy the contract
                for sg, hy, nm in ((-1, [neg], "reflected"), (1, [z3.Not(neg)], "plain")):
                    pcb = [c_ for c_ in r.pc if z3.is_expr(c_) and z3.is_bool(c_)]
                    sol = z3.Solver()
                    sol.set("timeout", 3000)
                    sol.add(*(pcb + hy))
                    if os.environ.get("PYVC_DEBUG"):
                        print("C18DBG", N, k, nm, sol.check(), [str(c_)[:80] for c_ in pcb][-3:], str(neg))
                    if sol.check() == z3.unsat:
                        continue            # this sign case cannot occur on this path (the reflection test was decided the other way): nothing to prove
                    cases.append((sg, hy + pcb, Rd, nm))
            for sg, case_hyp, Rc, nm in cases:
                csfx = f"/{nm}" + psfx
                D = [1, 1, sg]
                spec = [[sum(V[i, k] * D[k] * W[k, j] for k in range(3)) for j in range(3)] for i in range(3)]
                # ---- N-dependent: the maximised quantity attains Kabsch's bound
                def trace_cert():
                    Rp, Vp, Wp = S.pmat(Rc.tolist()), S.pmat(V.tolist()), S.pmat(W.tolist())
                    Sp, Dp = S.pdiag(list(s)), S.pdiag(D)
                    Hc = S.full_hyp_matrix(facts["recon"])              # arg_ij - (v S w)_ij
                    EV, EW = S.sym_hyp_matrix(facts["VtV"]), S.sym_hyp_matrix(facts["WWt"])
                    goal = S.psum(Rp[i][j] * S.P(cov_spec[i][j]) for i in range(3) for j in range(3)) - S.P(s[0] + s[1] + sg * s[2])
                    c = S.Cert(goal).add_matrix(Rp, Hc)
                    # trace(W^T D (V^T V) S W) - trace(D S):  EV_kl * (S W W^T D)_lk  +  (D S)_kk * EW_kk
                    Q1 = S.pT(S.pmul(S.pmul(S.pmul(Sp, Wp), S.pT(Wp)), Dp))
                    c.add_matrix(Q1, EV)
                    c.add_matrix(S.pmul(Dp, Sp), EW)
                    return c
                tr = sum(Rc[i, j] * cov_spec[i][j] for i in range(3) for j in range(3))
                try:
                    tc = trace_cert()
                except Exception:  # noqa
                    tc = None
                certified(lab + "trace_attained" + csfx, tc, facts["recon"] + facts["VtV"] + facts["WWt"] + case_hyp, tr == s[0] + s[1] + sg * s[2],
                          f"trace(R^T A^T B) == s0 + s1 {'-' if sg < 0 else '+'} s2: R attains the maximum that any proper rotation can reach (lemmas bound_*)",
                          replay_for("optimal", "congruent", "mirror"), f_kab)
                if not generic_needed:
                    continue
                # ---- N-independent (the terms are the same for every N; generated once per distinct shape of R)
                ctx.prove(lab + "formula" + csfx, case_hyp, conj([Rc[i, j] == spec[i][j] for i in range(3) for j in range(3)]),
                          clause=f"R == v diag(1, 1, {sg}) w  (Kabsch's formula; case det v det w {'< 0' if sg < 0 else '>= 0'})", replay=replay_for("optimal", "det", "mirror"), fn=f_kab)

                def orth_certs():
                    Rp, Vp, Wp, Dp = S.pmat(Rc.tolist()), S.pmat(V.tolist()), S.pmat(W.tolist()), S.pdiag(D)
                    EVtV, EWtW = S.sym_hyp_matrix(facts["VtV"]), S.sym_hyp_matrix(facts["WtW"])
                    EVVt, EWWt = S.sym_hyp_matrix(facts["VVt"]), S.sym_hyp_matrix(facts["WWt"])
                    RtR, RRt = S.pmul(S.pT(Rp), Rp), S.pmul(Rp, S.pT(Rp))
                    DW, VD = S.pmul(Dp, Wp), S.pmul(Vp, Dp)
                    out = {}
                    for i in range(3):
                        for j in range(i, 3):
                            # R^T R - 1 = (D W)^T (V^T V - 1) (D W) + (W^T W - 1)
                            c = S.Cert(RtR[i][j] - S.P(EYE(i, j)))
                            c.add_matrix([[DW[k][i] * DW[l][j] for l in range(3)] for k in range(3)], EVtV).add(S.ONE, EWtW[i][j])
                            out[("RtR", i, j)] = c
                            # R R^T - 1 = (V D) (W W^T - 1) (V D)^T + (V V^T - 1)
                            c = S.Cert(RRt[i][j] - S.P(EYE(i, j)))
                            c.add_matrix([[VD[i][k] * VD[j][l] for l in range(3)] for k in range(3)], EWWt).add(S.ONE, EVVt[i][j])
                            out[("RRt", i, j)] = c
                    return out
                try:
                    oc = orth_certs()
                except Exception:  # noqa
                    oc = {}
                for i in range(3):
                    for j in range(i, 3):
                        certified(lab + f"orthogonal/RtR{i}{j}" + csfx, oc.get(("RtR", i, j)), facts["VtV"] + facts["WtW"] + case_hyp,
                                  sum(Rc[k, i] * Rc[k, j] for k in range(3)) == EYE(i, j), "R^T R == 1", replay_for("orthogonal"), f_kab)
                        certified(lab + f"orthogonal/RRt{i}{j}" + csfx, oc.get(("RRt", i, j)), facts["VVt"] + facts["WWt"] + case_hyp,
                                  sum(Rc[i, k] * Rc[j, k] for k in range(3)) == EYE(i, j), "R R^T == 1", replay_for("orthogonal"), f_kab)
                def prod_cert():
                    h1, h2 = S.fact_poly(dets[0]["fact"]), S.fact_poly(dets[1]["fact"])          # d1 - det(first matrix), d2 - det(second matrix)
                    p1, p2 = S.P(d1), S.P(d2)
                    detA = p1 - h1
                    goal = S.pdet3(S.pmat(Rc.tolist())) - (p1 * p2).scale(sg)
                    return S.Cert(goal).add((-p2).scale(sg), h1).add((-detA).scale(sg), h2)      # remainder det R - sg det(.) det(.) must vanish identically
                try:
                    pc_ = prod_cert()
                except Exception:  # noqa
                    pc_ = None
                certified(lab + "det/product" + csfx, pc_, [dets[0]["fact"], dets[1]["fact"]] + case_hyp, det3(Rc.tolist()) == sg * d1 * d2,
                          f"det R == {sg} * det(v) * det(w)", replay_for("det", "mirror"), f_kab)
                ctx.prove(lab + "det/sign" + csfx, [d1 * d1 == 1, d2 * d2 == 1] + case_hyp, sg * d1 * d2 == 1,
                          clause=f"{sg} * det(v) * det(w) == +1 in this case, given det(v)^2 == det(w)^2 == 1 (obligations det/v_squared, det/w_squared)", replay=replay_for("det", "mirror"), fn=f_kab)
            if generic_needed:
                # which SVD factor each determinant was taken of is read off BY MEANING (the recorded fact d == det3(M) is compared with det3(V) and det3(W)), not from
                # the order in which the code happens to call det: det(w) * det(v) is the same test as det(v) * det(w)
                def taken_of(dd):
                    h0 = S.fact_poly(dd["fact"])
                    for nm_, key_, M_ in (("v", "VtV", V), ("w", "WWt", W)):
                        try:
                            if (h0 - (S.P(dd["d"]) - S.pdet3(S.pmat(M_.tolist())))).is_zero():
                                return nm_, key_, M_
                        except Exception:  # noqa
                            pass
                    return None
                matched = []
                for dd in dets[:2]:
                    m_ = taken_of(dd)
                    if m_ is None:
                        ctx.undecided(lab + "det/factors_recognised" + psfx, "a determinant the code tests is not the determinant of one of the two SVD factors as returned by svd")
                    else:
                        matched.append((m_[0], dd, m_[1], m_[2]))
                for nm, dd, key, M in matched:
                    def dc(dd=dd, key=key, M=M):
                        E = S.sym_hyp_matrix(facts[key])
                        h0 = S.fact_poly(dd["fact"])                      # d - det3(matrix the code took the determinant of)
                        dp, detp = S.P(dd["d"]), S.pdet3(S.pmat(M.tolist()))
                        c = S.Cert(dp * dp - S.ONE).add(dp + detp, dp - detp)
                        if not (h0 - (dp - detp)).is_zero():
                            return None                                   # the determinant was not taken of this SVD factor
                        c.pairs[0] = (dp + detp, h0)
                        return c.add_matrix(S.det_minus_one_cofactors(E), E)
                    try:
                        c = dc()
                    except Exception:  # noqa
                        c = None
                    certified(lab + f"det/{nm}_squared" + psfx, c, facts[key] + [dd["fact"]], dd["d"] * dd["d"] == 1,
                              f"det({nm})^2 == 1 for the orthogonal SVD factor {nm} whose determinant the code tests", replay_for("det", "mirror"), f_kab)
                ctx.safety("util.num.kabsch_rotation_matrix" + psfx, [r], replay=replay_for("raises"), fn=f_kab)

    for N in sizes:
        ctx.attempt(lab + f"N{N}", lambda N=N: kabsch_for(N), fn=f_kab)

    lemmas(ctx, certified)
    helpers(ctx, certified, replay_for, f_reo, f_rms, thorough)
    dimer(ctx, certified, replay_for, f_dim, thorough)

    ctx.add_bounded("util.num/bounded/alignment_contract", dom + "; coordinates O(1..10), noise 1e-6..0.3; generic/planar/collinear; rotated, mirrored, noisy, unrelated",
                    fl.evaluations, fl.cases, fl.as_list(), rule="distinct seeded point-set pairs (each evaluated against Horn's optimum and 4009 proper rotations)",
                    samples=[{"id": "C18/util.num/bounded/alignment_contract", "tag": "B", "clause": "orthogonal, det +1, optimal, congruent exact, chiral mirror not superposed, helpers",
                              "verdict": "held" if not fl.by_key else "failed", "backend": "runtime-contract", "solver_s": round(t_native, 2)}])
    ctx.add_bounded("core.dimer.Dimer.calculate_transform/bounded/real_molecules", "real Molecule/Dimer objects, N atoms in " + ("{3,4,5,6,8,12,20,35,50}" if thorough else "{3,4,6,12}") +
                    ", 3 shapes x {rotated, rotated+noise, mirrored, unrelated}, random translations of both molecules",
                    fd.evaluations, fd.cases, fd.as_list(), rule="distinct seeded molecule pairs")


# ======================================================================================================================
# lemmas over spec terms (tag L)
# ======================================================================================================================
def lemmas(ctx, certified):
    Q, V, W, T = real_matrix("q", 3, 3), real_matrix("v", 3, 3), real_matrix("w", 3, 3), real_matrix("t", 3, 3)
    s = reals("s", 3)
    a, b = reals("pa", 3), reals("pb", 3)
    order = [s[0] >= s[1], s[1] >= s[2], s[2] >= 0]

    def sym_facts(M, kind):
        if kind == "MtM":
            return [sum(M[k][i] * M[k][j] for k in range(3)) == EYE(i, j) for i in range(3) for j in range(i, 3)]
        return [sum(M[i][k] * M[j][k] for k in range(3)) == EYE(i, j) for i in range(3) for j in range(i, 3)]

    # ---- per point: |aQ - b|^2 == |a|^2 + |b|^2 - 2 (aQ).b  for Q Q^T == 1   (summing over the points gives the RMSD/trace relation)
    QQt = sym_facts(Q, "MMt")
    aQ = [sum(a[i] * Q[i][j] for i in range(3)) for j in range(3)]
    lhs = sum((aQ[j] - b[j]) * (aQ[j] - b[j]) for j in range(3))
    rhs = sum(x * x for x in a) + sum(x * x for x in b) - 2 * sum(aQ[j] * b[j] for j in range(3))
    E = S.sym_hyp_matrix(QQt)
    c = S.Cert(S.P(lhs) - S.P(rhs)).add_matrix([[S.P(a[i] * a[j]) for j in range(3)] for i in range(3)], E)
    certified("lemma/rmsd_vs_trace", c, QQt, lhs == rhs, "for orthogonal Q and any points a, b: |aQ - b|^2 == |a|^2 + |b|^2 - 2 (aQ).b; summed over the points: "
              "sum|A Q - B|^2 == |A|^2 + |B|^2 - 2 trace(Q^T A^T B), so minimising the RMSD is maximising that trace", None, None, tag="L")

    # ---- trace(Q^T v S w) == sum_i (w Q^T v)_ii s_i
    Qp, Vp, Wp, Sp = S.pmat(Q), S.pmat(V), S.pmat(W), S.pdiag(s)
    Tp = S.pmul(S.pmul(Wp, S.pT(Qp)), Vp)
    lhs_p = S.ptrace(S.pmul(S.pT(Qp), S.pmul(S.pmul(Vp, Sp), Wp)))
    rhs_p = S.psum(Tp[i][i] * S.P(s[i]) for i in range(3))
    r = ctx.ground("lemma/trace_cyclic", (lhs_p - rhs_p).is_zero(), tag="L", clause="trace(Q^T v diag(s) w) == sum_i T_ii s_i with T = w Q^T v (polynomial identity, no hypotheses)",
                   witness={"difference_terms": len((lhs_p - rhs_p).t)})
    r.backend = "exact polynomial normal form"
    # ---- T = w Q^T v is orthogonal and det T == det w det Q det v
    EQ, EV, EW = S.sym_hyp_matrix(QQt), S.sym_hyp_matrix(sym_facts(V, "MtM")), S.sym_hyp_matrix(sym_facts(W, "MtM"))
    TtT = S.pmul(S.pT(Tp), Tp)
    QtV = S.pmul(S.pT(Qp), Vp)                  # T^T T - 1 = (Q^T v)^T (w^T w - 1) (Q^T v) + v^T (Q Q^T - 1) v + (v^T v - 1)
    ok = True
    nterms = 0
    for i in range(3):
        for j in range(i, 3):
            c = S.Cert(TtT[i][j] - S.P(EYE(i, j)))
            c.add_matrix([[QtV[k][i] * QtV[l][j] for l in range(3)] for k in range(3)], EW)
            c.add_matrix([[Vp[k][i] * Vp[l][j] for l in range(3)] for k in range(3)], EQ)
            c.add(S.ONE, EV[i][j])
            ok = ok and c.check()
            nterms += c.size()
    r = ctx.ground("lemma/image_orthogonal", ok, tag="L", clause="Q Q^T == v^T v == w^T w == 1 imply T^T T == 1 for T = w Q^T v", detail={"cofactor_terms": nterms},
                   witness={"certificate": "did not check"})
    r.backend = CERT_BACKEND
    dd = S.pdet3(Tp) - S.pdet3(Wp) * S.pdet3(Qp) * S.pdet3(Vp)
    r = ctx.ground("lemma/image_det", dd.is_zero(), tag="L", clause="det(w Q^T v) == det w * det Q * det v (polynomial identity); with det Q == 1 this is det v * det w == +-1 == sigma",
                   witness={"difference_terms": len(dd.t)})
    r.backend = "exact polynomial normal form"
    # ---- orthogonal T: -1 <= T_ii <= 1
    cols = [sum(T[k][i] * T[k][i] for k in range(3)) == 1 for i in range(3)]
    ctx.prove("lemma/diag_le_one", cols, conj([z3.And(T[i][i] <= 1, T[i][i] >= -1) for i in range(3)]), tag="L", clause="unit columns imply |T_ii| <= 1")
    # ---- improper orthogonal T: trace <= 1.  |axial vector|^2 == (3 + t)(1 - t) on the variety T T^T == 1, det T == -1
    Tq = S.pmat(T)
    TTt = sym_facts(T, "MMt")
    detf = det3(T) == -1
    Ep = S.sym_hyp_matrix(TTt)
    hdet = S.fact_poly(detf)                    # det T + 1
    t_p = S.ptrace(Tq)
    ax = [Tq[2][1] - Tq[1][2], Tq[0][2] - Tq[2][0], Tq[1][0] - Tq[0][1]]
    goal = S.psum(x * x for x in ax) - (S.P(3) + t_p) * (S.ONE - t_p)
    adj = S.pT(S.pcof3(Tq))                     # adj(T) T == det(T) 1 ; adj(T)(1 + E) == det(T) T^T
    c = S.Cert(goal)
    for i in range(3):
        c.add(S.ONE, Ep[i][i])                  # |T|_F^2 - 3 == trace E
    c.add(t_p.scale(2), hdet)                   # 2 (det T + 1) trace T
    c.add_matrix([[adj[l][k].scale(-2) for l in range(3)] for k in range(3)], Ep)   # -2 trace(adj(T) E)
    tt = T[0][0] + T[1][1] + T[2][2]
    axz = [T[2][1] - T[1][2], T[0][2] - T[2][0], T[1][0] - T[0][1]]
    ident = sum(x * x for x in axz) == (3 + tt) * (1 - tt)
    certified("lemma/improper_trace/identity", c, TTt + [detf], ident, "T T^T == 1 and det T == -1 imply |(T21-T12, T02-T20, T10-T01)|^2 == (3 + trace T)(1 - trace T)", None, None, tag="L")
    t, ax3 = z3.Real("tr"), reals("ax", 3)
    ctx.prove("lemma/improper_trace/sign", [sum(x * x for x in ax3) == (3 + t) * (1 - t), t >= -3], t <= 1, tag="L",
              clause="a sum of squares equal to (3 + t)(1 - t) with t >= -3 forces t <= 1 (instantiated with t = trace T >= -3 by diag_le_one)")
    # ---- the bounds
    x = reals("x", 3)
    ctx.prove("lemma/bound_proper", order + [x[i] <= 1 for i in range(3)], x[0] * s[0] + x[1] * s[1] + x[2] * s[2] <= s[0] + s[1] + s[2], tag="L",
              clause="det T == +1: sum_i T_ii s_i <= s0 + s1 + s2 from T_ii <= 1 and s_i >= 0")
    ctx.prove("lemma/bound_improper", order + [x[0] <= 1, x[1] <= 1, x[2] >= -1, x[0] + x[1] + x[2] <= 1], x[0] * s[0] + x[1] * s[1] + x[2] * s[2] <= s[0] + s[1] - s[2], tag="L",
              clause="det T == -1: sum_i T_ii s_i <= s0 + s1 - s2 from T_00, T_11 <= 1, T_22 >= -1, trace T <= 1 and s0 >= s1 >= s2 >= 0")


# ======================================================================================================================
# reorient_points / rmsd_points (modular: kabsch_rotation_matrix by contract)
# ======================================================================================================================
def helpers(ctx, certified, replay_for, f_reo, f_rms, thorough):
    numsrc = source.load_module(NUM)
    for N in ([3, 4, 5, 8] if thorough else [3, 4]):
        A, B = real_matrix("a", N, 3), real_matrix("b", N, 3)
        log = []
        I = ctx.interp(models=MODELS, contracts={NUM + ".kabsch_rotation_matrix": kabsch_contract(log)})
        sfx = f"/N{N}"

        def args_ok(entry):
            Aa, Ba = entry["A"], entry["B"]
            if not (isinstance(Aa, NDArr) and isinstance(Ba, NDArr) and Aa.shape == (N, 3) and Ba.shape == (N, 3)):
                return z3.BoolVal(False)
            return conj([to_real(Aa.data[n, i]) == A[n][i] for n in range(N) for i in range(3)] + [to_real(Ba.data[n, i]) == B[n][i] for n in range(N) for i in range(3)])

        def AR(R):
            return [[sum(A[n][i] * R[i, j] for i in range(3)) for j in range(3)] for n in range(N)]

        def ob_reorient():
            lab = "util.num.reorient_points/ensures/"

            def thunk(I2, _a, kw):
                del log[:]
                out = I2.call(I2.lookup_global(numsrc, "reorient_points"), [farr(A), farr(B)])
                return out, list(log)
            res = I.explore(thunk)
            rp = replay_for("reorient", "rmsd")
            for k, r in enumerate(res):
                ps = sfx + (f"/path{k}" if len(res) > 1 else "")
                out, lg = r.value if r.kind == "return" else (None, [])
                if r.kind != "return" or len(lg) != 1 or not isinstance(out, NDArr) or out.shape != (N, 3):
                    ctx.prove(lab + "returns" + ps, r.pc, z3.BoolVal(False), clause="returns an (N,3) array after one call of kabsch_rotation_matrix", replay=rp, fn=f_reo)
                    continue
                ctx.prove(lab + "kabsch_arguments" + ps, [], args_ok(lg[0]), split=False, clause="the rotation is kabsch_rotation_matrix(A, B), arguments in this order", replay=rp, fn=f_reo)
                spec = AR(lg[0]["R"])
                ctx.prove(lab + "rotated" + ps, [], conj([out.data[n, j] == spec[n][j] for n in range(N) for j in range(3)]), split=False,
                          clause="result == A . R (rows times the rotation)", replay=rp, fn=f_reo)
            ctx.safety("util.num.reorient_points" + sfx, res, replay=rp, fn=f_reo)
            if N == 3:
                def thunk2(I2, _a, kw):
                    return I2.call(I2.lookup_global(numsrc, "reorient_points"), [farr(A), farr(B)], {"method": "quaternion"})
                res2 = I.explore(thunk2)
                ok = len(res2) == 1 and res2[0].kind == "raise" and res2[0].value.exc_type == "NotImplementedError"
                ctx.prove(lab + "other_method_raises", [], z3.BoolVal(ok), clause="a method other than 'kabsch' raises NotImplementedError", replay=replay_for("method"), fn=f_reo)
        ctx.attempt("util.num.reorient_points/ensures" + sfx, ob_reorient, fn=f_reo)

        def ob_rmsd():
            lab = "util.num.rmsd_points/ensures/"

            def thunk(I2, _a, kw):
                del log[:]
                out = I2.call(I2.lookup_global(numsrc, "rmsd_points"), [farr(A), farr(B)])
                return out, list(log)
            res = I.explore(thunk)
            rp = replay_for("rmsd", "reorient")
            for k, r in enumerate(res):
                ps = sfx + (f"/path{k}" if len(res) > 1 else "")
                out, lg = r.value if r.kind == "return" else (None, [])
                if r.kind != "return" or len(lg) != 1 or not z3.is_expr(out):
                    ctx.prove(lab + "returns" + ps, r.pc, z3.BoolVal(False), clause="returns a scalar after one call of kabsch_rotation_matrix", replay=rp, fn=f_rms)
                    continue
                ctx.prove(lab + "kabsch_arguments" + ps, [], args_ok(lg[0]), split=False, clause="the deviation is measured after kabsch_rotation_matrix(A, B), arguments in this order", replay=rp, fn=f_rms)
                spec = AR(lg[0]["R"])
                ssq = sum((B[n][j] - spec[n][j]) * (B[n][j] - spec[n][j]) for n in range(N) for j in range(3))
                certified(lab + "value" + ps, root_cert(out, N, ssq, r.pc), r.pc, out * out * N == ssq, "rmsd^2 * N == sum_n |B_n - A_n . R|^2", rp, f_rms)
                ctx.prove(lab + "nonnegative" + ps, r.pc[-3:], out >= 0, clause="rmsd >= 0 (the non-negative root)", replay=rp, fn=f_rms)
            sqrt_safety(ctx, "util.num.rmsd_points" + sfx, res, rp, f_rms)

            def thunk0(I2, _a, kw):
                del log[:]
                out = I2.call(I2.lookup_global(numsrc, "rmsd_points"), [farr(A), farr(B)], {"reorient": None})
                return out, list(log)
            res0 = I.explore(thunk0)
            rp0 = replay_for("rmsd_plain")
            for k, r in enumerate(res0):
                ps = sfx + (f"/path{k}" if len(res0) > 1 else "")
                out, lg = r.value if r.kind == "return" else (None, [None])
                if r.kind != "return" or lg or not z3.is_expr(out):
                    ctx.prove(lab + "plain/returns" + ps, r.pc, z3.BoolVal(False), clause="reorient=None: no alignment, returns a scalar", replay=rp0, fn=f_rms)
                    continue
                ssq = sum((B[n][j] - A[n][j]) * (B[n][j] - A[n][j]) for n in range(N) for j in range(3))
                certified(lab + "plain/value" + ps, root_cert(out, N, ssq, r.pc), r.pc, out * out * N == ssq, "reorient=None: rmsd^2 * N == sum_n |B_n - A_n|^2", rp0, f_rms)
                ctx.prove(lab + "plain/nonnegative" + ps, r.pc[-3:], out >= 0, clause="reorient=None: rmsd >= 0", replay=rp0, fn=f_rms)
            sqrt_safety(ctx, "util.num.rmsd_points/plain" + sfx, res0, rp0, f_rms)
        ctx.attempt("util.num.rmsd_points/ensures" + sfx, ob_rmsd, fn=f_rms)


def root_cert(out, N, ssq, pc):
    """out^2 * N - ssq == q * (out^2 - radicand) for the defining equation of the square root found on the path (q a constant)."""
    from pyvc.cert import equalities_of
    try:
        po = S.P(out)
        goal = (po * po).scale(N) - S.P(ssq)
        key = tuple((po * po).t)[0]
        for l, r in equalities_of([c for c in pc if z3.is_expr(c)]):
            try:
                h = S.P(l) - S.P(r)
            except Exception:  # noqa
                continue
            if key in h.t:
                c = S.Cert(goal).add(S.Poly.const(N / h.t[key]), h)
                if c.check():
                    return c
    except Exception:  # noqa
        return None
    return None


def sqrt_safety(ctx, label, results, replay, fn):
    """Side conditions of the run; a 'sqrt-nonneg' radicand that is (1/N) * sum of squares is certified as such (exact identity)."""
    n = {}
    for res in results:
        for kind, pc, goal, note in getattr(res, "safety", []):
            n[kind] = n.get(kind, 0) + 1
            ident = f"{label}/safe/{kind}/{n[kind]}"
            done = False
            if kind == "sqrt-nonneg" and z3.is_expr(goal) and goal.decl().kind() in (z3.Z3_OP_GE, z3.Z3_OP_LE):
                try:
                    lhs, rhs = goal.arg(0), goal.arg(1)
                    rad = S.P(lhs) - S.P(rhs) if goal.decl().kind() == z3.Z3_OP_GE else S.P(rhs) - S.P(lhs)
                    done = sos_nonneg(ctx, ident, rad, f"{kind} {note}".strip(), fn)
                except Exception:  # noqa
                    done = False
            if not done:
                ctx.prove(ident, pc, goal, clause=f"{kind} {note}".strip(), replay=replay, fn=fn)


def sos_nonneg(ctx, ident, rad, clause, fn):
    """rad (a polynomial) is a positive multiple of a sum of squares of linear/bilinear forms found by completing the diagonal:
    here the radicand is (1/N) sum_k d_k^2 with d_k the cells of `diff`; we recover the d_k by grouping on the 'b' variables."""
    # the radicand of rmsd_points is sum_k (b_k - e_k)^2 / N: each b variable occurs in exactly one square
    bvars = sorted(v for v in rad.variables() if v.startswith("b"))
    if not bvars:
        return False
    from pyvc.cert import Poly
    total = Poly()
    lead = None
    for bv in bvars:
        sq = rad.t.get(((bv, 2),))
        if sq is None or sq <= 0:
            return False
        lead = sq if lead is None else lead
        # d = b + (linear coefficient of b)/(2 sq)
        lin = Poly({tuple(sorted((n_, e) for n_, e in m if n_ != bv)): c for m, c in rad.t.items() if dict(m).get(bv, 0) == 1})
        d = Poly.var(bv) + lin.scale(1 / (2 * sq))
        total = total + (d * d).scale(sq)
    if not (rad - total).is_zero():
        return False
    r = ctx.ground(ident, True, tag="P", clause=clause + " — radicand == c * sum_k d_k^2 with c > 0 (exact polynomial identity)", fn=fn,
                   detail={"squares": len(bvars), "c": str(lead)})
    r.backend = "sum-of-squares certificate (exact check)"
    return True


# ======================================================================================================================
# Dimer.calculate_transform
# ======================================================================================================================
def dimer(ctx, certified, replay_for, f_dim, thorough):
    lab = "core.dimer.Dimer.calculate_transform/ensures/"
    rp = replay_for("dimer", "dimer_raises", "dimer_none")
    for N, stale in ([(3, False), (4, False), (6, False), (3, True)] if thorough else [(3, False), (4, False), (3, True)]):
        log = []
        I = ctx.interp(models=MODELS, contracts={NUM + ".kabsch_rotation_matrix": kabsch_contract(log)})
        PA, PB = real_matrix("xa", N, 3), real_matrix("xb", N, 3)
        ZA, ZB = [z3.Int(f"za{i}") for i in range(N)], [z3.Int(f"zb{i}") for i in range(N)]
        sfx = f"/N{N}" + ("/recalculated_over_a_stored_transform" if stale else "")
        STALE = (farr(real_matrix("staleR", 3, 3)), farr(reals("stalet", 3)))

        def mk(I2, P, Z):
            els = [shell(I2, "chmpy.core.element", "Element", atomic_number=zz) for zz in Z]
            return shell(I2, "chmpy.core.molecule", "Molecule", positions=farr(P), elements=els, properties={})

        def ob(N=N, PA=PA, PB=PB, ZA=ZA, ZB=ZB, sfx=sfx, log=log, I=I, stale=stale, STALE=STALE):
            def thunk(I2, _a, kw):
                del log[:]
                extra = {"transform_ab": STALE} if stale else {}       # an arbitrary transform left by an earlier calculation: the result must not depend on it
                d = shell(I2, DIM, "Dimer", a=mk(I2, PA, ZA), b=mk(I2, PB, ZB), frac_shift=None, **extra)
                ret = I2.call(I2.getattr(d, "calculate_transform"), [])
                return d, ret, list(log)
            res = I.explore(thunk)
            same = conj([ZA[i] == ZB[i] for i in range(N)])
            ca = [sum(PA[n][j] for n in range(N)) / N for j in range(3)]
            cb = [sum(PB[n][j] for n in range(N)) / N for j in range(3)]
            seen = {"some": False, "none": False}
            for k, r in enumerate(res):
                ps = sfx + f"/path{k}"
                if r.kind != "return":
                    ctx.prove(lab + "returns" + ps, r.pc, z3.BoolVal(False), clause="returns normally", replay=rp, fn=f_dim)
                    continue
                d, ret, lg = r.value
                # the executor may run a branch twice (dry run of an if-merge, then the committed run): identical calls of the rotation routine are one call
                uniq = []
                for e_ in lg:
                    key_ = (str(e_["A"].data.tolist()) if isinstance(e_.get("A"), NDArr) else repr(e_.get("A")), str(e_["B"].data.tolist()) if isinstance(e_.get("B"), NDArr) else repr(e_.get("B")))
                    if key_ not in [k_ for k_, _ in uniq]:
                        uniq.append((key_, e_))
                lg = [e_ for _, e_ in uniq]
                t = d.fields.get("transform_ab", "missing")
                if t is None:
                    seen["none"] = True
                    ctx.prove(lab + "none_only_if_elements_differ" + ps, r.pc, z3.Not(same), clause="transform_ab is None only when the element lists differ", replay=rp, fn=f_dim)
                    continue
                if not (isinstance(t, tuple) and len(t) == 2 and len(lg) == 1 and isinstance(t[0], NDArr) and isinstance(t[1], NDArr)):
                    # with a transform left by an earlier calculation in place: if the very object that was stored comes back and no rotation was computed, the result
                    # depends on the history of the object -- that is the verdict, not a limitation of the symbolic run
                    kept_stale = bool(stale and isinstance(t, tuple) and len(t) == 2 and t[0] is STALE[0] and not lg)
                    if os.environ.get("C18DBG"):
                        print("C18DBG", type(t), (len(t), [type(x_).__name__ for x_ in t]) if isinstance(t, tuple) else t, len(lg))
                    ctx.prove(lab + "pair" + ps, r.pc, z3.BoolVal(False), clause="transform_ab == (R, v_ab) after one call of kabsch_rotation_matrix" +
                              (" (an earlier stored transform was returned unchanged, nothing was computed)" if kept_stale else ""), replay=rp, fn=f_dim,
                              **({"structural": False} if kept_stale else {"structural": True}))
                    continue
                seen["some"] = True
                R, v = t
                e = lg[0]
                ctx.prove(lab + "elements_equal" + ps, r.pc, same, clause="a transform is computed only for identical element lists", replay=rp, fn=f_dim)
                okA = isinstance(e["A"], NDArr) and e["A"].shape == (N, 3) and isinstance(e["B"], NDArr) and e["B"].shape == (N, 3)
                cl = ("R = kabsch_rotation_matrix(X, Y) with X^T Y == (positions_b - centroid_b)^T (positions_a - centroid_a): the rotation (a function of X^T Y only, see "
                      "kabsch_rotation_matrix/ensures/covariance) is the one between the two CENTRED molecules, b rotated onto a "
                      "(so x_b - c_b ~ R (x_a - c_a) for column vectors: R carries a to b)")
                if not okA:
                    ctx.prove(lab + "centred_covariance" + ps, r.pc, z3.BoolVal(False), clause=cl, replay=rp, fn=f_dim)
                else:
                    for i in range(3):
                        for j in range(3):
                            lhs = sum(to_real(e["A"].data[n, i]) * to_real(e["B"].data[n, j]) for n in range(N))
                            rhs = sum((PB[n][i] - cb[i]) * (PA[n][j] - ca[j]) for n in range(N))
                            try:
                                c0 = S.Cert(S.P(lhs) - S.P(rhs))          # no hypotheses: the difference must be the zero polynomial
                            except Exception:  # noqa
                                c0 = None
                            certified(lab + f"centred_covariance/c{3 * i + j}" + ps, c0, [], lhs == rhs, cl, rp, f_dim)
                ctx.prove(lab + "stored_rotation" + ps, [], conj([R.data[i, j] == e["R"][i, j] for i in range(3) for j in range(3)]), split=False,
                          clause="transform_ab[0] is that rotation, unchanged", replay=rp, fn=f_dim)
                ctx.prove(lab + "translation" + ps, [], conj([to_real(v.data[j]) == cb[j] - ca[j] for j in range(3)]), split=False,
                          clause="transform_ab[1] == centroid_b - centroid_a", replay=rp, fn=f_dim)
                same_ret = isinstance(ret, tuple) and len(ret) == 2 and ret[0] is R and ret[1] is v
                ctx.prove(lab + "returned" + ps, [], z3.BoolVal(bool(same_ret)), clause="the stored pair is also returned", replay=rp, fn=f_dim)
            ctx.prove(lab + "both_outcomes_reachable" + sfx, [], z3.BoolVal(seen["some"] and seen["none"]), clause="equal element lists reach the Kabsch call, unequal ones give None", replay=rp, fn=f_dim)
            ctx.safety("core.dimer.Dimer.calculate_transform" + sfx, res, replay=rp, fn=f_dim)
        ctx.attempt(lab + f"N{N}", ob, fn=f_dim)

    # different sizes -> None
    def ob_sizes():
        log = []
        I = ctx.interp(models=MODELS, contracts={NUM + ".kabsch_rotation_matrix": kabsch_contract(log)})
        PA, PB = real_matrix("xa", 4, 3), real_matrix("xb", 3, 3)

        def thunk(I2, _a, kw):
            del log[:]
            els = lambda n: [shell(I2, "chmpy.core.element", "Element", atomic_number=6) for _ in range(n)]
            ma = shell(I2, "chmpy.core.molecule", "Molecule", positions=farr(PA), elements=els(4), properties={})
            mb = shell(I2, "chmpy.core.molecule", "Molecule", positions=farr(PB), elements=els(3), properties={})
            d = shell(I2, DIM, "Dimer", a=ma, b=mb, frac_shift=None)
            I2.call(I2.getattr(d, "calculate_transform"), [])
            return d, list(log)
        res = I.explore(thunk)
        ok = len(res) == 1 and res[0].kind == "return" and res[0].value[0].fields.get("transform_ab", 0) is None and not res[0].value[1]
        ctx.prove(lab + "different_sizes_none", [], z3.BoolVal(ok), clause="molecules of different size: transform_ab is None, no alignment attempted", replay=rp, fn=f_dim)
    ctx.attempt(lab + "different_sizes", ob_sizes, fn=f_dim)
