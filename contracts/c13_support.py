"""C13 — shared helpers: bounded certificate search, explicit certificates, exact rational evaluation, instance-guided refutation."""
import signal
import time
from fractions import Fraction

import z3

from pyvc import cert
from pyvc.values import to_real, z

CERT_BACKEND = "algebraic-certificate(exact check; cofactors constructed by the contract)"
FALLBACK = dict(timeout_ms=6000, cvc5_timeout_s=6)


class _Alarm(Exception):
    pass


class time_limit:
    """Bound the in-process certificate search (it can run away on a false goal): SIGALRM raises inside the search, ctx.prove then falls back to SMT."""

    def __init__(self, seconds):
        self.seconds = seconds

    def __enter__(self):
        def handler(signum, frame):
            raise _Alarm("certificate search time limit")
        self.old = signal.signal(signal.SIGALRM, handler)
        signal.setitimer(signal.ITIMER_REAL, self.seconds)

    def __exit__(self, *exc):
        signal.setitimer(signal.ITIMER_REAL, 0)
        signal.signal(signal.SIGALRM, self.old)
        return False


def prove_alg(ctx, ident, hyps, goal, budget_s=12.0, **kw):
    """ctx.prove(..., algebra=True) per conjunct under a shared wall-clock budget; once it is spent the remaining conjuncts go to the SMT back ends only."""
    goal = z(goal)
    parts = list(goal.children()) if z3.is_and(goal) and goal.num_args() > 1 else [goal]
    t_end = time.time() + budget_s
    out = []
    for k, g in enumerate(parts):
        name = f"{ident}/c{k}" if len(parts) > 1 else ident
        left = t_end - time.time()
        if left > 0.2:
            try:
                with time_limit(left):
                    out.append(ctx.prove(name, hyps, g, algebra=True, split=False, **kw))
                continue
            except _Alarm:
                # the record was created before the search started; find it and give it the SMT query
                rec = ctx.by_id.get(f"{ctx.prop}/{name}")
                if rec is not None:
                    ctx.records.remove(rec)
                    del ctx.by_id[rec.ident]
        kw2 = dict(kw)
        kw2.setdefault("timeout_ms", 8000)
        kw2.setdefault("cvc5_timeout_s", 8)
        out.append(ctx.prove(name, hyps, g, split=False, **kw2))
    return out


def pz(t):
    return cert.z3_to_poly(z3.simplify(z(to_real(t))))


def certified(ctx, ident, check, hyps, goal, clause, replay, fn, detail=None, env=None, facts=()):
    """An explicit certificate (check() -> bool, exact polynomial arithmetic); if it does not check, the solvers decide hyps |- goal (instance-guided when env is given)."""
    t0 = time.time()
    try:
        ok = bool(check())
    except Exception:  # noqa  (a term that is no longer polynomial after an edit of the source)
        ok = False
    if ok:
        r = ctx.ground(ident, True, clause=clause, tag="P", seconds=round(time.time() - t0, 3), fn=fn, detail=detail or {"certificate": "goal == sum_k q_k * h_k over Q, h_k hypotheses of the path"})
        r.backend = CERT_BACKEND
        return r
    if env is not None:
        return prove_i(ctx, ident, hyps, goal, env, facts, clause=clause, replay=replay, fn=fn, **FALLBACK)
    return ctx.prove(ident, hyps, goal, clause=clause, replay=replay, fn=fn, **FALLBACK)


def _rsqrt(q):
    import math
    q = Fraction(q)
    if q < 0:
        raise ValueError("sqrt of a negative number")
    n, d = math.isqrt(q.numerator), math.isqrt(q.denominator)
    if n * n != q.numerator or d * d != q.denominator:
        raise ValueError("irrational square root")
    return Fraction(n, d)


def eval_rat(t, env, memo=None):
    """Exact rational value of a term under env (constant name -> Fraction; 'py_cos(alpha)' style keys for trigonometric terms).  ValueError if not evaluable."""
    memo = {} if memo is None else memo
    t = z(to_real(t)) if not z3.is_expr(t) else t
    key = t.get_id()
    if key in memo:
        return memo[key]
    k = t.decl().kind()
    ch = t.children()
    if z3.is_rational_value(t):
        v = Fraction(t.numerator_as_long(), t.denominator_as_long())
    elif z3.is_int_value(t):
        v = Fraction(t.as_long())
    elif k == z3.Z3_OP_UNINTERPRETED and not ch:
        if t.decl().name() not in env:
            raise ValueError("free symbol " + t.decl().name())
        v = Fraction(env[t.decl().name()])
    elif k == z3.Z3_OP_UNINTERPRETED and t.decl().name() != "py_sqrt":
        nm = f"{t.decl().name()}({', '.join(str(c) for c in ch)})"          # value of an uninterpreted application, e.g. 'py_cos(alpha)', 'element_mass(m0z0)'
        if nm not in env:
            raise ValueError("free term " + nm)
        v = Fraction(env[nm])
    elif k == z3.Z3_OP_UNINTERPRETED and t.decl().name() == "py_sqrt" and len(ch) == 1:
        v = _rsqrt(eval_rat(ch[0], env, memo))
    elif k == z3.Z3_OP_ADD:
        v = sum((eval_rat(c, env, memo) for c in ch), Fraction(0))
    elif k == z3.Z3_OP_MUL:
        v = Fraction(1)
        for c in ch:
            v *= eval_rat(c, env, memo)
    elif k == z3.Z3_OP_SUB:
        v = eval_rat(ch[0], env, memo) - sum((eval_rat(c, env, memo) for c in ch[1:]), Fraction(0))
    elif k == z3.Z3_OP_UMINUS:
        v = -eval_rat(ch[0], env, memo)
    elif k == z3.Z3_OP_DIV:
        v = eval_rat(ch[0], env, memo) / eval_rat(ch[1], env, memo)
    elif k == z3.Z3_OP_TO_REAL:
        v = eval_rat(ch[0], env, memo)
    else:
        raise ValueError("unsupported term " + t.decl().name())
    memo[key] = v
    return v



SMT = dict(timeout_ms=10000, cvc5_timeout_s=10)


def holds_on_instance(g, env):
    """True / False if the (in)equality g can be evaluated exactly at the rational point env, None otherwise."""
    g = z(g)
    try:
        if z3.is_true(g):
            return True
        if z3.is_false(g):
            return False
        if z3.is_eq(g) and (z3.is_real(g.arg(0)) or z3.is_int(g.arg(0))):
            return eval_rat(g.arg(0), env) == eval_rat(g.arg(1), env)
        if z3.is_not(g) and z3.is_eq(g.arg(0)):
            r = holds_on_instance(g.arg(0), env)
            return None if r is None else not r
    except (ValueError, ZeroDivisionError, z3.Z3Exception):
        return None
    return None


def prove_i(ctx, ident, hyps, goal, env, facts, algebra=False, budget_s=12.0, max_refuted=2, **kw):
    """hyps |- goal, conjunct by conjunct.  A conjunct that evaluates to FALSE at the exact rational instance `env` is registered with the instance's defining `facts` as
    extra hypotheses: a counter-model of the instance is a counter-model of the obligation, and the solver finds it at once (the general query would often end `unknown`).
    A conjunct that holds at the instance is registered in full generality (certificate search under a wall-clock budget when algebra=True)."""
    goal = z(goal)
    parts = list(goal.children()) if z3.is_and(goal) and goal.num_args() > 1 else [goal]
    t_end = time.time() + budget_s
    out = []
    n_false = 0
    for k, g in enumerate(parts):
        name = f"{ident}/c{k}" if len(parts) > 1 else ident
        kw2 = dict(SMT)
        kw2.update(kw)
        if holds_on_instance(g, env) is False:
            n_false += 1
            if n_false > max_refuted:
                continue            # further conjuncts of the same clause that fail at the same instance add nothing to the report
            cl = kw2.pop("clause", "")
            out.append(ctx.prove(name, list(hyps) + list(facts), g, split=False, clause=cl + "  [false at the exact rational instance; its defining facts added as hypotheses for the counter-model]", **kw2))
        elif algebra:
            out += prove_alg(ctx, name, hyps, g, budget_s=max(0.3, t_end - time.time()), **kw2)
        else:
            out.append(ctx.prove(name, hyps, g, split=False, **kw2))
    return out
