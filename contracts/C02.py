"""C02 — every tabulated space-group setting is a closed, consistently identified group.

The property's domain is finite (530 settings) and is enumerated completely on every run: the real constructor, the real
reduce/expand functions and the real lookups are executed for every setting (tag G, exhaustive).  The group axioms are
checked in exact integer arithmetic on the operations as the library decodes them; that decoding is the positional digit
map proved for all codes in C11.  P obligations cover the code paths that do not depend on the table.
"""
import itertools
import json
import os
import time
from fractions import Fraction

import numpy as np
import z3

from pyvc.api import Interp, Obj, conj, source
from pyvc.values import z

SG = "chmpy.crystal.space_group"
SO = "chmpy.crystal.symmetry_operation"


def decode_exact(code):
    """Spec decode (positional digits; equals decode_symm_int by C11/decode_symm_int/ensures/spec)."""
    r = code % 19683
    t = code // 19683
    R = tuple(tuple((r // 3 ** (8 - 3 * i - j)) % 3 - 1 for j in range(3)) for i in range(3))
    T = tuple((t // 12 ** (2 - i)) % 12 for i in range(3))
    return R, T


def compose(a, b):
    (R1, t1), (R2, t2) = a, b
    R = tuple(tuple(sum(R1[i][k] * R2[k][j] for k in range(3)) for j in range(3)) for i in range(3))
    T = tuple((sum(R1[i][k] * t2[k] for k in range(3)) + t1[i]) % 12 for i in range(3))
    return R, T


IDENT = (((1, 0, 0), (0, 1, 0), (0, 0, 1)), (0, 0, 0))
MINUS = ((-1, 0, 0), (0, -1, 0), (0, 0, -1))


def build(ctx):
    ctx.level = "proof"
    ctx.explanation = ("G (exhaustive): all 530 (number, choice) settings of sgdata.json — construction, duplicate-freedom, identity, closure under composition "
                       "and inversion modulo the lattice, centrosymmetric flag, lookup from the full list and from the reduced (LATT + SYMM) description — by executing "
                       "the real SpaceGroup code on every setting and exact integer group arithmetic. P: table-independent code paths (number range check, "
                       "expand_latt range check, LATT value/sign as a function of centering and flag; expanded_symmetry_list on two symbolic operations for every lattice type, including WHEN the "
                       "identity is appended). G also: the reduced description in reversed / rotated order expands to the same set, and no query edits the operation list. "
                       "B: generic public-call contracts (arguments unchanged, repeatable, history independent).")
    ctx.assumptions += ["the operations of a setting are what decode_symm_int returns for the tabulated codes (proved for all codes in C11)",
                        "finite domain: the 530 rows of the bundled sgdata.json as loaded at run time"]
    import chmpy.crystal.space_group as sgm
    from chmpy.crystal.symmetry_operation import SymmetryOperation
    f_init = ctx.fn(SG, "SpaceGroup.__init__")
    f_latt = ctx.fn(SG, "SpaceGroup.latt")
    f_red = ctx.fn(SG, "SpaceGroup.reduced_symmetry_operations")
    f_from = ctx.fn(SG, "SpaceGroup.from_symmetry_operations")
    f_exp, f_redl = ctx.fn(SO, "expanded_symmetry_list"), ctx.fn(SO, "reduced_symmetry_list")
    settings = [(int(k), row.choice, row) for k, rows in sgm.SG_FROM_NUMBER.items() for row in rows]
    settings.sort(key=lambda s: (s[0], s[1]))
    ctx.notes.append(f"{len(settings)} settings enumerated")
    t0 = time.time()
    bad = {k: [] for k in ("count", "construct", "decode", "duplicates", "identity", "closure", "inverse", "centro", "sorted", "lookup_full", "lookup_reduced",
                           "default_choice", "ordered", "queries_pure")}
    if len(settings) != 530:
        bad["count"].append({"settings": len(settings)})
    ncomp = 0
    import chmpy.crystal.symmetry_operation as _somod_native
    for num, choice, row in settings:
        tag = f"{num}:{choice}"
        try:
            sg = sgm.SpaceGroup(num, choice=choice)
        except Exception as e:  # noqa
            bad["construct"].append({"setting": tag, "exception": repr(e)[:120]})
            continue
        codes = [int(s.integer_code) for s in sg.symmetry_operations]
        if codes != list(row.symops) or sg.international_tables_number != num or sg.choice != choice or sg.centrosymmetric != row.centrosymmetric:
            bad["construct"].append({"setting": tag, "exposes": {"number": sg.international_tables_number, "choice": sg.choice, "n_ops": len(codes)}})
        ops = [decode_exact(c) for c in codes]
        for s, (R, T) in zip(sg.symmetry_operations, ops):
            if not (np.array_equal(s.rotation, R) and np.allclose(np.asarray(s.translation) * 12, T, atol=1e-9)):
                bad["decode"].append({"setting": tag, "code": int(s.integer_code)})
                break
        opset = set(ops)
        if len(opset) != len(ops) or len(set(codes)) != len(codes):
            bad["duplicates"].append({"setting": tag})
        if IDENT not in opset or 16484 not in codes:
            bad["identity"].append({"setting": tag})
        for a in ops:
            for b in ops:
                ncomp += 1
                if compose(a, b) not in opset:
                    bad["closure"].append({"setting": tag, "a": a, "b": b, "product": compose(a, b)})
                    break
            else:
                continue
            break
        for a in ops:
            if not any(compose(a, b) == IDENT for b in ops):
                bad["inverse"].append({"setting": tag, "op": a})
                break
        has_inv = any(R == MINUS for R, _ in ops)
        if bool(row.centrosymmetric) != has_inv:
            bad["centro"].append({"setting": tag, "flag": row.centrosymmetric, "has_inversion": has_inv})
        if list(row.symops) != sorted(row.symops):
            bad["sorted"].append({"setting": tag})
        # ordered_symmetry_operations: identity first, same multiset
        try:
            oo = [int(s.integer_code) for s in sg.ordered_symmetry_operations()]
            if oo[0] != 16484 or sorted(oo) != sorted(codes):
                bad["ordered"].append({"setting": tag})
        except Exception as e:  # noqa
            bad["ordered"].append({"setting": tag, "exception": repr(e)[:100]})
        # lookups
        try:
            back = sgm.SpaceGroup.from_symmetry_operations([SymmetryOperation.from_integer_code(c) for c in codes])
            if back.international_tables_number != num or sorted(int(s.integer_code) for s in back.symmetry_operations) != sorted(codes):
                bad["lookup_full"].append({"setting": tag, "found": f"{back.international_tables_number}:{back.choice}"})
        except Exception as e:  # noqa
            bad["lookup_full"].append({"setting": tag, "exception": repr(e)[:100]})
        # the same list with the translations as a computation leaves them: an integer off, and a rounding error below the integer (numpy: -5e-17 % 1 == 1.0)
        try:
            noisy = [SymmetryOperation(np.array(s.rotation, dtype=float), np.asarray(s.translation, dtype=float) + sh_)
                     for s, sh_ in zip(sg.symmetry_operations, itertools.cycle([np.array([-5e-17, 1.0, -1e-16]), np.array([2.0, -5e-17, 0.0]), np.array([-1.0, 3e-17, -5e-17])]))]
            back = sgm.SpaceGroup.from_symmetry_operations(noisy)
            if back.international_tables_number != num or sorted(int(s.integer_code) for s in back.symmetry_operations) != sorted(codes):
                bad["lookup_full"].append({"setting": tag, "translations": "shifted by integers and by rounding errors of a few 1e-17", "found": f"{back.international_tables_number}:{back.choice}"})
        except Exception as e:  # noqa
            bad["lookup_full"].append({"setting": tag, "translations": "shifted by integers and by rounding errors of a few 1e-17", "exception": repr(e)[:100]})
        try:
            red = sg.reduced_symmetry_operations()
            latt = sg.latt
            # the reduced description is a set of generators: listed in another order (identity last) it expands to the same operation set, without duplicates
            for perm_name, lst in (("reversed", list(reversed(red))), ("rotated", list(red[1:]) + list(red[:1]))):
                full2 = _somod_native.expanded_symmetry_list([SymmetryOperation.from_integer_code(int(s.integer_code)) for s in lst], latt)
                c2 = [int(s.integer_code) for s in full2]
                if sorted(c2) != sorted(codes):
                    bad["lookup_reduced"].append({"setting": tag, "latt": latt, "reduced_list_order": perm_name, "expanded": len(c2), "distinct": len(set(c2)), "expected": len(codes)})
                    break
            back = sgm.SpaceGroup.from_symmetry_operations([SymmetryOperation.from_integer_code(int(s.integer_code)) for s in red], expand_latt=latt)
            if back.international_tables_number != num or sorted(int(s.integer_code) for s in back.symmetry_operations) != sorted(codes):
                bad["lookup_reduced"].append({"setting": tag, "latt": latt, "n_reduced": len(red), "found": f"{back.international_tables_number}:{back.choice}"})
        except Exception as e:  # noqa
            bad["lookup_reduced"].append({"setting": tag, "exception": repr(e)[:100]})
        # the queries above leave the setting as it was (the operation list is the group: a query must not edit it)
        try:
            after = [int(s.integer_code) for s in sg.symmetry_operations]
            for q_ in ("latt", "symbol", "crystal_system", "lattice_type", "laue_class", "cif_section", "sym", "symbol_unicode", "symops", "pg"):
                try:
                    getattr(sg, q_)
                except Exception:  # noqa -- whether a query is defined for this setting is not the point here
                    pass
            str(sg), repr(sg), len(sg), hash(sg), sg == sg
            sg.has_hexagonal_rhombohedral_choices(), sg.ordered_symmetry_operations(), sg.reduced_symmetry_operations(), sg.apply_all_symops(np.array([[0.1, 0.2, 0.3]]))
            again = [int(s.integer_code) for s in sg.symmetry_operations]
            if after != codes or again != codes:
                bad["queries_pure"].append({"setting": tag, "operations_before": len(codes), "after_the_queries": len(again)})
        except Exception as e:  # noqa
            bad["queries_pure"].append({"setting": tag, "exception": repr(e)[:100]})
    # default-choice redirection
    for num in range(1, 231):
        try:
            sg = sgm.SpaceGroup(num)
            want = sgm.SG_DEFAULT_SETTING_CHOICE.get(num, sgm.SG_FROM_NUMBER[str(num)][0].choice)
            if sg.choice != want or sg.international_tables_number != num:
                bad["default_choice"].append({"number": num, "choice": sg.choice, "expected": want})
        except Exception as e:  # noqa
            bad["default_choice"].append({"number": num, "exception": repr(e)[:100]})
    dt = time.time() - t0
    ctx.notes.append(f"{ncomp} compositions evaluated")
    clauses = {
        "count": "the table holds 530 settings",
        "construct": "SpaceGroup(number, choice) succeeds for every tabulated (number, choice) and exposes that row (codes, number, choice, flag)",
        "decode": "the constructed operations are the positional decoding of the tabulated codes",
        "duplicates": "operation list is duplicate-free",
        "identity": "operation list contains the identity",
        "closure": "closed under composition modulo lattice translations",
        "inverse": "every operation has its inverse in the list modulo lattice translations",
        "centro": "centrosymmetric flag <=> some operation has rotation -1",
        "sorted": "tabulated code lists are sorted (the lookup key is the sorted tuple)",
        "ordered": "ordered_symmetry_operations puts the identity first and keeps the multiset",
        "lookup_full": "from_symmetry_operations(full list) returns a setting with the same number and operation set",
        "lookup_reduced": "from_symmetry_operations(reduced list, expand_latt=latt) returns a setting with the same number and operation set",
        "queries_pure": "ordered_symmetry_operations, reduced_symmetry_operations, latt, symbol, len, str and the other queries leave symmetry_operations unchanged",
        "default_choice": "SpaceGroup(n) selects the documented default choice for each of the 230 numbers",
    }
    fnmap = {"construct": f_init, "lookup_full": f_from, "lookup_reduced": f_red, "default_choice": f_init}
    for k, cl in clauses.items():
        ctx.ground(f"space_group.settings/{k}", not bad[k], clause=cl + f" (all {len(settings)} settings)", detail={"failing": len(bad[k]), "first": bad[k][:4]},
                   witness=bad[k][:3], seconds=round(dt / len(clauses), 3), fn=fnmap.get(k))

    # ---------------------------------------------------------------- P: table-independent paths
    I = ctx.interp()
    mod = source.load_module(SG)
    SGcls = I.class_of(mod, "SpaceGroup")
    n = z3.Int("n")

    def ob_range():
        def thunk(I2, a, kw):
            return I2.instantiate(SGcls, [n], {})
        # only the range check is table independent: outside 1..230 the constructor must raise ValueError before touching the table
        res = I.explore(thunk, pre=[z3.Or(n < 1, n > 230)])
        ok = all(r.kind == "raise" and r.value.exc_type == "ValueError" for r in res) and len(res) > 0

        def replay(m):
            import chmpy.crystal.space_group as s2
            k = int(m.get("n", 0))
            try:
                s2.SpaceGroup(k)
                return {"native_inputs": {"number": k}, "reproduced": True, "observed": "constructed"}
            except ValueError:
                return {"native_inputs": {"number": k}, "reproduced": False, "observed": "ValueError"}
            except Exception as e:  # noqa
                return {"native_inputs": {"number": k}, "reproduced": True, "observed": repr(e)}
        for k, r in enumerate(res):
            ctx.prove(f"space_group.SpaceGroup.__init__/ensures/rejects_out_of_range/path{k}", r.pc,
                      z3.BoolVal(r.kind == "raise" and r.value.exc_type == "ValueError"), clause="numbers outside 1..230 raise ValueError", replay=replay, fn=f_init)
        if not res:
            ctx.undecided("space_group.SpaceGroup.__init__/ensures/rejects_out_of_range", "no feasible path")
    ctx.attempt("space_group.SpaceGroup.__init__/ensures/rejects_out_of_range", ob_range)

    # latt: value and sign as a function of (centering, centrosymmetric, inversion at origin present)
    def ob_latt():
        from pyvc.symex import FuncVal
        want = {"primitive": 1, "body": 2, "rcenter": 3, "face": 4, "aface": 5, "bface": 6, "cface": 7}
        so_mod = source.load_module(SO)
        SOcls = I.class_of(so_mod, "SymmetryOperation")
        for centering, val in want.items():
            for centro in (True, False):
                for inv_at_origin in (True, False):
                    if inv_at_origin and not centro:
                        continue

                    def thunk(I2, a, kw, centering=centering, centro=centro, inv_at_origin=inv_at_origin):
                        ident = I2.call(I2.getattr(SOcls, "from_integer_code"), [16484])
                        ops = [ident]
                        if centro:
                            code = 3198 if inv_at_origin else 3198 + 19683 * (6 * 144 + 6 * 12 + 6)    # -x,-y,-z  /  1/2-x,1/2-y,1/2-z
                            ops.append(I2.call(I2.getattr(SOcls, "from_integer_code"), [code]))
                        sg = Obj(SGcls, {"centering": centering, "centrosymmetric": centro, "symmetry_operations": ops})
                        return I2.getattr(sg, "latt")
                    res = I.explore(thunk)
                    expect = val if (centro and inv_at_origin) else -val

                    def replay(m, centering=centering, centro=centro, inv_at_origin=inv_at_origin, expect=None):
                        import chmpy.crystal.space_group as s2
                        for k, rows in s2.SG_FROM_NUMBER.items():
                            for row in rows:
                                if row.centering == centering and bool(row.centrosymmetric) == centro and ((3198 in row.symops) == inv_at_origin):
                                    sg = s2.SpaceGroup(int(k), choice=row.choice)
                                    want = ({"primitive": 1, "body": 2, "rcenter": 3, "face": 4, "aface": 5, "bface": 6, "cface": 7}[centering]
                                            * (1 if (centro and inv_at_origin) else -1))
                                    if sg.latt != want:
                                        return {"native_inputs": {"setting": f"{k}:{row.choice}"}, "reproduced": True, "observed": {"latt": sg.latt, "expected": want}}
                        return {"native_inputs": "no tabulated setting of this kind gives a different LATT", "reproduced": False}
                    ok = len(res) == 1 and res[0].kind == "return" and res[0].value == expect
                    ctx.prove(f"space_group.SpaceGroup.latt/ensures/{centering}/{'centro' if centro else 'acentric'}/{'origin' if inv_at_origin else 'off_origin'}",
                              [], z3.BoolVal(bool(ok)), clause=f"LATT = {expect}: SHELX lattice number of '{centering}', positive only when -x,-y,-z itself is an operation",
                              fn=f_latt, replay=replay)
    ctx.attempt("space_group.SpaceGroup.latt/ensures", ob_latt)

    # expand_latt range check
    e = z3.Int("expand_latt")

    def ob_expand_range():
        def thunk(I2, a, kw):
            return I2.call(I2.getattr(SGcls, "from_symmetry_operations"), [[]], {"expand_latt": e})
        res = I.explore(thunk, pre=[z3.Or(e <= -8, e >= 8)])
        for k, r in enumerate(res):
            ctx.prove(f"space_group.SpaceGroup.from_symmetry_operations/ensures/expand_latt_range/path{k}", r.pc,
                      z3.BoolVal(r.kind == "raise" and r.value.exc_type == "ValueError"), clause="expand_latt outside [-7,7] raises ValueError", fn=f_from)
    ctx.attempt("space_group.SpaceGroup.from_symmetry_operations/ensures/expand_latt_range", ob_expand_range)
    expand_obligations(ctx)
    engine_guard(ctx)


def expand_obligations(ctx):
    """P: expanded_symmetry_list on two symbolic operations, for every lattice type -7..7 (0 excluded): the result is, in order,
    each input operation followed by its centring translates (identity appended first if absent), then — for a positive
    lattice type — the inverses of all of those; nothing else."""
    from pyvc.api import Obj, farr, int_matrix, reals, source as _src
    from fractions import Fraction
    I = ctx.interp()
    somod = _src.load_module(SO)
    SOcls = I.class_of(somod, "SymmetryOperation")
    f_exp = ctx.fn(SO, "expanded_symmetry_list")
    LTT = {1: (), 2: ((Fraction(1, 2),) * 3,), 3: ((Fraction(2, 3), Fraction(1, 3), Fraction(1, 3)), (Fraction(1, 3), Fraction(2, 3), Fraction(2, 3))),
           4: ((0, Fraction(1, 2), Fraction(1, 2)), (Fraction(1, 2), 0, Fraction(1, 2)), (Fraction(1, 2), Fraction(1, 2), 0)),
           5: ((0, Fraction(1, 2), Fraction(1, 2)),), 6: ((Fraction(1, 2), 0, Fraction(1, 2)),), 7: ((Fraction(1, 2), Fraction(1, 2), 0),)}
    R = [int_matrix(f"a{k}_", 3, 3) for k in range(2)]
    T = [reals(f"b{k}_", 3) for k in range(2)]
    pre = [z3.And(R[k][i][j] >= -1, R[k][i][j] <= 1) for k in range(2) for i in range(3) for j in range(3)] + \
          [z3.And(T[k][i] >= 0, T[k][i] < 1) for k in range(2) for i in range(3)]
    frac = lambda x: x - z3.ToReal(z3.ToInt(x))

    def replay(m):
        from chmpy.crystal.symmetry_operation import SymmetryOperation, expanded_symmetry_list
        ops = [SymmetryOperation.from_string_code("-x,y,-z"), SymmetryOperation.from_string_code("x,y,z")]
        out = {}
        bad = False
        for lt in (1, 2, 3, 4, 5, 6, 7, -1, -2, -3, -4, -5, -6, -7):
            full = expanded_symmetry_list(list(ops), lt)
            want = len(ops) * (1 + len(LTT[abs(lt)])) * (2 if lt > 0 else 1)
            out[lt] = len(full)
            bad |= len(full) != want
        return {"native_inputs": "ops (-x,y,-z), (x,y,z); all lattice types", "reproduced": bad, "observed": out}
    for lt in (1, 2, 3, 4, 5, 6, 7, -1, -2, -3, -4, -5, -6, -7):
        def ob(lt=lt):
            def thunk(I2, a, kw):
                ops = [Obj(SOcls, {"rotation": farr(R[k]), "translation": farr(T[k])}) for k in range(2)]
                return I2.call(I2.lookup_global(somod, "expanded_symmetry_list"), [ops, lt])
            res = I.explore(thunk, pre=pre)
            for pk, r in enumerate(res):
                sfx = f"/path{pk}"
                ident = f"symmetry_operation.expanded_symmetry_list/ensures/contents/latt{lt}{sfx}"
                if r.kind != "return":
                    ctx.prove(ident, r.pc, z3.BoolVal(False), clause="returns normally", replay=replay, fn=f_exp)
                    continue
                full = r.value
                tr = LTT[abs(lt)]
                nin = (len(full) // (2 if lt > 0 else 1)) // (1 + len(tr))          # 2 inputs, or 3 when the identity was appended
                goals = [z3.BoolVal(nin in (2, 3) and len(full) == nin * (1 + len(tr)) * (2 if lt > 0 else 1))]
                # the identity is appended exactly when NEITHER input is the identity (an input list that already holds x,y,z -- in any position -- must not get a second one:
                # the expanded list would hold duplicates and the look-up by operation set would fail)
                is_id = [z3.And(*([R[k][i][j] == (1 if i == j else 0) for i in range(3) for j in range(3)] + [frac(T[k][i]) == 0 for i in range(3)])) for k in range(2)]
                # (membership is decided by the packed code, i.e. with the translation rounded to twelfths: "is the identity" for the list means rotation 1 and every
                # translation component within 1/24 of an integer)
                near_id = [z3.And(*([R[k][i][j] == (1 if i == j else 0) for i in range(3) for j in range(3)]
                                    + [z3.Or(frac(T[k][i]) <= z3.Q(1, 24), frac(T[k][i]) >= z3.Q(23, 24)) for i in range(3)])) for k in range(2)]
                if nin == 3:
                    goals.append(z3.And(z3.Not(is_id[0]), z3.Not(is_id[1])))
                elif nin == 2:
                    goals.append(z3.Or(near_id[0], near_id[1]))
                if nin in (2, 3):
                    base = []
                    for k in range(nin):
                        if k < 2:
                            Rk, Tk = [[z3.ToReal(R[k][i][j]) for j in range(3)] for i in range(3)], T[k]
                        else:
                            Rk, Tk = [[z3.RealVal(1 if i == j else 0) for j in range(3)] for i in range(3)], [z3.RealVal(0)] * 3
                        base.append((Rk, [frac(Tk[i]) for i in range(3)]))
                        for t in tr:
                            base.append((Rk, [frac(frac(Tk[i]) + z(t[i]) if not isinstance(t[i], int) else frac(Tk[i]) + t[i]) for i in range(3)]))
                    want = list(base)
                    if lt > 0:
                        want += [([[-Rk[i][j] for j in range(3)] for i in range(3)], [frac(-tk[i]) for i in range(3)]) for Rk, tk in base]
                    # the property speaks about operation SETS: within the block of one input operation the order of its centring
                    # translates is immaterial, so the block is compared as a set
                    bs = 1 + len(tr)

                    def same(got, w):
                        rot, tra = got.fields["rotation"].data, got.fields["translation"].data
                        return z3.And(*([z(rot[i, j]) == w[0][i][j] for i in range(3) for j in range(3)] + [z(tra[i]) == w[1][i] for i in range(3)]))
                    for b0 in range(0, len(want), bs):
                        gb, wb = full[b0:b0 + bs], want[b0:b0 + bs]
                        goals += [z3.Or(*[same(g_, w_) for g_ in gb]) for w_ in wb]
                        goals += [z3.Or(*[same(g_, w_) for w_ in wb]) for g_ in gb]
                ctx.prove(ident, r.pc, conj(goals), clause=f"lattice type {lt}: each input operation (identity appended if absent) followed by its centring translates"
                          + (", then the inverse of each of those" if lt > 0 else "") + "; rotations unchanged / negated, translations modulo 1", replay=replay, fn=f_exp)
        ctx.attempt(f"symmetry_operation.expanded_symmetry_list/ensures/contents/latt{lt}", ob, replay=replay, fn=f_exp)


def engine_guard(ctx):
    """CPython cross-check of the symbolic executor on the list expansion / reduction (concrete operations, one path, same operations in the same order)."""
    from pyvc.api import Obj, farr, source as _src
    from pyvc.crosscheck import crosscheck
    import chmpy.crystal.symmetry_operation as so
    I = ctx.interp()
    somod = _src.load_module(SO)
    SOcls = I.class_of(somod, "SymmetryOperation")

    def eng(op):
        return Obj(SOcls, {"rotation": farr(np.asarray(op.rotation, dtype=float).tolist()), "translation": farr(np.asarray(op.translation, dtype=float).tolist())})
    ops = [so.SymmetryOperation.from_string_code(s_) for s_ in ("x,y,z", "-x,y+1/2,-z", "-y,x-y,z+1/3", "x,-y,z+1/2")]
    cases = [(ops[:2], 1), (ops[:2], -1), (ops[1:3], 2), (ops[:1], 3), (ops[1:2], -4), (ops[:3], 7), ([ops[1], ops[3]], 5)]
    crosscheck(ctx, I, ctx.fn(SO, "expanded_symmetry_list"), lambda o, lt: so.expanded_symmetry_list(list(o), lt), cases,
               to_engine=lambda a: ([eng(o_) for o_ in a[0]], a[1]), fields=["rotation", "translation"])
    fulls = [(so.expanded_symmetry_list(list(o), lt), lt) for o, lt in cases[:5]]
    crosscheck(ctx, I, ctx.fn(SO, "reduced_symmetry_list"), lambda o, lt: so.reduced_symmetry_list(list(o), lt), fulls,
               to_engine=lambda a: ([eng(o_) for o_ in a[0]], a[1]), fields=["rotation", "translation"])
