#!/bin/sh
# Builds /verif/.venv: python 3.12 overlay on /venv (chmpy + deps) plus solvers/contract tools from the offline wheelhouse.
set -e
cd "$(dirname "$0")"
V=.venv
if [ -x "$V/bin/python" ] && "$V/bin/python" -c "import z3, cvc5, sympy, deal, icontract, jsonschema, chmpy" 2>/dev/null; then
  echo "setup: $V already complete"; exit 0
fi
rm -rf "$V"
/venv/bin/python -m venv --without-pip "$V"
echo "import site; site.addsitedir('/venv/lib/python3.12/site-packages')" > "$V/lib/python3.12/site-packages/_venv.pth"
PIP_NO_INDEX=1 /venv/bin/python -m pip --python "$V/bin/python" install -q --no-index --find-links /opt/veriftools/wheels \
    z3-solver cvc5 deal icontract crosshair-tool sympy jsonschema hypothesis
"$V/bin/python" -c "import z3, cvc5, sympy, deal, icontract, jsonschema, chmpy; print('setup: ok', z3.get_version_string())"
