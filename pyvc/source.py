"""Source front end: locate the real functions of /repo, parse them, fingerprint them.

Nothing from chmpy is imported here: the text under REPO/src/chmpy is read and parsed on every run,
so the obligations are always generated from the current working tree.
"""
import ast
import hashlib
import os

REPO = os.environ.get("CHMPY_VERIF_REPO", "/repo")
SRC_ROOT = os.path.join(REPO, "src")

_module_cache = {}


class ModuleSrc:
    def __init__(self, modname, path, text, tree):
        self.modname = modname
        self.path = path
        self.text = text
        self.tree = tree
        self.lines = text.splitlines()
        self.functions = {}
        self.classes = {}
        self.assigns = {}      # module-level name -> ast value node (last assignment wins)
        self.imports = {}      # local name -> dotted origin
        for node in tree.body:
            self._index(node)

    def _index(self, node):
        if isinstance(node, (ast.FunctionDef,)):
            self.functions[node.name] = node
        elif isinstance(node, ast.ClassDef):
            self.classes[node.name] = node
        elif isinstance(node, ast.Assign):
            for t in node.targets:
                if isinstance(t, ast.Name):
                    self.assigns[t.id] = node.value
                elif isinstance(t, (ast.Tuple, ast.List)) and all(isinstance(el, ast.Name) for el in t.elts):
                    # a, b, c = <expression>: name k is element k of the expression (no starred targets)
                    for k, el in enumerate(t.elts):
                        sub = ast.parse(f"list({ast.unparse(node.value)})[{k}]", mode="eval").body
                        self.assigns[el.id] = ast.fix_missing_locations(ast.copy_location(sub, node.value))
        elif isinstance(node, ast.AnnAssign) and node.value is not None and isinstance(node.target, ast.Name):
            self.assigns[node.target.id] = node.value
        elif isinstance(node, ast.Import):
            for a in node.names:
                self.imports[a.asname or a.name.split(".")[0]] = a.name if a.asname else a.name.split(".")[0]
        elif isinstance(node, ast.ImportFrom):
            base = node.module or ""
            if node.level:
                parts = self.modname.split(".")
                # a module's package is its name minus the last component (or itself for __init__)
                pkg = parts if self.path.endswith("__init__.py") else parts[:-1]
                pkg = pkg[: len(pkg) - (node.level - 1)]
                base = ".".join(pkg + ([node.module] if node.module else []))
            for a in node.names:
                self.imports[a.asname or a.name] = base + "." + a.name
        elif isinstance(node, (ast.If, ast.Try)):
            for sub in getattr(node, "body", []):
                self._index(sub)


def module_path(modname):
    rel = modname.replace(".", "/")
    for cand in (rel + ".py", rel + "/__init__.py"):
        p = os.path.join(SRC_ROOT, cand)
        if os.path.exists(p):
            return p
    raise FileNotFoundError(modname)


def load_module(modname):
    path = module_path(modname)
    key = (path, os.path.getmtime(path))
    if key not in _module_cache:
        text = open(path).read()
        _module_cache[key] = ModuleSrc(modname, path, text, ast.parse(text))
    return _module_cache[key]


class FnSrc:
    """A function (or method) of the real source."""

    def __init__(self, mod, node, cls=None):
        self.mod = mod
        self.node = node
        self.cls = cls
        self.qualname = mod.modname + "." + (cls.name + "." if cls else "") + node.name
        first = min([node.lineno] + [d.lineno for d in node.decorator_list])
        self.lines = (first, node.end_lineno)
        seg = "\n".join(mod.lines[first - 1 : node.end_lineno])
        self.sha256 = hashlib.sha256(seg.encode()).hexdigest()
        self.text = seg

    def describe(self):
        return {"qualname": self.qualname, "file": self.mod.path, "lines": list(self.lines), "sha256": self.sha256}


def get_function(modname, name, _depth=0):
    """name is 'func' or 'Class.method'.  A function that the module does not define itself but imports from another module of the package
    (it was moved and imported back) is followed to where it is defined; a class attribute `name = staticmethod(func)` / `name = func` is
    followed to the module-level function."""
    mod = load_module(modname)
    if "." in name:
        cname, mname = name.split(".", 1)
        if cname not in mod.classes and cname in mod.imports and _depth < 4:
            origin = mod.imports[cname]
            if origin.startswith("chmpy.") and "." in origin:
                return get_function(origin.rsplit(".", 1)[0], origin.rsplit(".", 1)[1] + "." + mname, _depth + 1)
        cls = mod.classes[cname]
        for n in cls.body:
            if isinstance(n, ast.FunctionDef) and n.name == mname:
                return FnSrc(mod, n, cls)
        for n in cls.body:
            if isinstance(n, ast.Assign) and any(isinstance(t, ast.Name) and t.id == mname for t in n.targets):
                v = n.value
                if isinstance(v, ast.Call) and isinstance(v.func, ast.Name) and v.func.id in ("staticmethod", "classmethod") and v.args:
                    v = v.args[0]
                if isinstance(v, ast.Name) and _depth < 4:
                    return get_function(modname, v.id, _depth + 1)
        raise KeyError(name)
    if name not in mod.functions and name in mod.imports and _depth < 4:
        origin = mod.imports[name]
        if origin.startswith("chmpy.") and "." in origin:
            try:
                return get_function(origin.rsplit(".", 1)[0], origin.rsplit(".", 1)[1], _depth + 1)
            except (KeyError, FileNotFoundError):
                pass
    return FnSrc(mod, mod.functions[name])


def class_methods(mod, cname):
    cls = mod.classes[cname]
    return {n.name: n for n in cls.body if isinstance(n, ast.FunctionDef)}
