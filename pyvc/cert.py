"""Algebraic certificates: goal in ideal(hyps), found by sympy, CHECKED independently.

A polynomial identity  goal == sum_i q_i * h_i  over Q is verified with the small exact polynomial arithmetic of this
file (dict monomial -> Fraction); sympy only proposes the cofactors q_i and is not trusted.  The z3 -> polynomial
converter below is part of the trusted base (it handles + - * constants, ToReal, division by constants).
"""
from fractions import Fraction
import time
import z3


class Poly:
    """Sparse multivariate polynomial over Q: {tuple(sorted (var, exp)) : Fraction}."""

    def __init__(self, terms=None):
        self.t = {k: v for k, v in (terms or {}).items() if v != 0}

    @staticmethod
    def const(c):
        return Poly({(): Fraction(c)})

    @staticmethod
    def var(name):
        return Poly({((name, 1),): Fraction(1)})

    def __add__(self, o):
        r = dict(self.t)
        for k, v in o.t.items():
            r[k] = r.get(k, 0) + v
        return Poly(r)

    def __neg__(self):
        return Poly({k: -v for k, v in self.t.items()})

    def __sub__(self, o):
        return self + (-o)

    def __mul__(self, o):
        r = {}
        for k1, v1 in self.t.items():
            for k2, v2 in o.t.items():
                d = dict(k1)
                for n, e in k2:
                    d[n] = d.get(n, 0) + e
                k = tuple(sorted(d.items()))
                r[k] = r.get(k, 0) + v1 * v2
        return Poly(r)

    def scale(self, c):
        return Poly({k: v * c for k, v in self.t.items()})

    def is_zero(self):
        return not self.t

    def variables(self):
        return sorted({n for k in self.t for n, _ in k})

    def is_const(self):
        return all(k == () for k in self.t)

    def const_value(self):
        return self.t.get((), Fraction(0))

    def __repr__(self):
        return " + ".join(f"{v}*{k}" for k, v in list(self.t.items())[:6]) or "0"


class NotPolynomial(Exception):
    pass


def z3_to_poly(e):
    """z3 arithmetic term -> Poly.  Uninterpreted constants and applications become variables named by their sexpr."""
    e = z3.simplify(e, som=False) if False else e
    if z3.is_int_value(e):
        return Poly.const(e.as_long())
    if z3.is_rational_value(e):
        return Poly.const(Fraction(e.numerator_as_long(), e.denominator_as_long()))
    k = e.decl().kind()
    ch = e.children()
    if k == z3.Z3_OP_ADD:
        r = Poly()
        for c in ch:
            r = r + z3_to_poly(c)
        return r
    if k == z3.Z3_OP_SUB:
        r = z3_to_poly(ch[0])
        for c in ch[1:]:
            r = r - z3_to_poly(c)
        return r
    if k == z3.Z3_OP_UMINUS:
        return -z3_to_poly(ch[0])
    if k == z3.Z3_OP_MUL:
        r = Poly.const(1)
        for c in ch:
            r = r * z3_to_poly(c)
        return r
    if k == z3.Z3_OP_TO_REAL:
        return z3_to_poly(ch[0])
    if k == z3.Z3_OP_DIV:
        d = z3_to_poly(ch[1])
        if d.is_const() and d.const_value() != 0:
            return z3_to_poly(ch[0]).scale(1 / d.const_value())
        raise NotPolynomial(f"division by non-constant {ch[1]}")
    if k == z3.Z3_OP_POWER:
        b = z3_to_poly(ch[0])
        ex = z3_to_poly(ch[1])
        if ex.is_const() and ex.const_value().denominator == 1 and ex.const_value() >= 0:
            r = Poly.const(1)
            for _ in range(int(ex.const_value())):
                r = r * b
            return r
        raise NotPolynomial("power")
    if k == z3.Z3_OP_UNINTERPRETED:
        if not ch:
            return Poly.var(e.decl().name())
        return Poly.var(e.sexpr())
    raise NotPolynomial(f"operator {e.decl().name()}")


def _to_sympy(p, syms):
    import sympy
    acc = sympy.Integer(0)
    for k, v in p.t.items():
        term = sympy.Rational(v.numerator, v.denominator)
        for n, ex in k:
            term = term * syms[n] ** ex
        acc += term
    return acc


def _from_sympy(expr, syms_inv, gens):
    import sympy
    if expr == 0:
        return Poly()
    P = sympy.Poly(expr, *gens, domain="QQ")
    r = {}
    for mon, coeff in P.terms():
        k = tuple(sorted((syms_inv[g], e) for g, e in zip(gens, mon) if e))
        r[k] = Fraction(int(coeff.p), int(coeff.q))
    return Poly(r)


def certify(goal, hyps, order=None):
    """Find q_i with goal == sum q_i*hyps[i]; verify with Poly arithmetic.

    Returns dict(ok, seconds, cofactor_terms, why).  goal and hyps are Poly (each hyp means hyp == 0).
    """
    import sympy
    t0 = time.time()
    names = sorted(set(goal.variables()) | {v for h in hyps for v in h.variables()})
    if order:
        names = [n for n in order if n in names] + [n for n in names if n not in order]
    syms = {n: sympy.Symbol(f"v{i}") for i, n in enumerate(names)}
    inv = {s: n for n, s in syms.items()}
    gens = [syms[n] for n in names]
    g = _to_sympy(goal, syms)
    hs = [_to_sympy(h, syms) for h in hyps]
    if g == 0:
        return {"ok": goal.is_zero(), "seconds": time.time() - t0, "cofactor_terms": 0, "why": "goal is the zero polynomial"}
    tries = [("reduced", hs)]
    why = ""
    for kind, basis in tries:
        try:
            qs, r = sympy.reduced(g, basis, *gens, domain="QQ")
        except Exception as e:  # noqa
            why = f"sympy failed: {e!r}"
            continue
        if r != 0:
            # second attempt: Groebner basis with change-of-basis tracked by re-reducing each basis element
            why = "remainder non-zero with plain division"
            continue
        qp = [_from_sympy(q, inv, gens) for q in qs]
        acc = Poly()
        for q, h in zip(qp, hyps):
            acc = acc + q * h
        ok = (goal - acc).is_zero()
        return {"ok": ok, "seconds": time.time() - t0, "cofactor_terms": sum(len(q.t) for q in qp),
                "why": "" if ok else "certificate failed the independent check"}
    return {"ok": False, "seconds": time.time() - t0, "cofactor_terms": 0, "why": why or "not in ideal"}


def _mono_div(m, lm):
    d = dict(m)
    for n, e in lm:
        if d.get(n, 0) < e:
            return None
        d[n] -= e
    return tuple(sorted((n, e) for n, e in d.items() if e))


def _mono_mul(a, b):
    d = dict(a)
    for n, e in b:
        d[n] = d.get(n, 0) + e
    return tuple(sorted(d.items()))


def certify_ansatz(goal, hyps, rounds=2, cap=6000):
    """Support-guided ansatz: cofactor monomials are quotients of (reachable) goal monomials by hypothesis monomials;
    the coefficients come from a least-squares solve in floats, are rationalised, and the resulting identity
    goal == sum q_i h_i is CHECKED exactly with Poly arithmetic (so the float step cannot make a wrong claim)."""
    import numpy as np
    t0 = time.time()
    if goal.is_zero():
        return {"ok": True, "seconds": 0.0, "cofactor_terms": 0, "why": "zero polynomial"}
    S = set(goal.t)
    cands = set()
    for _ in range(rounds):
        new = set()
        for i, h in enumerate(hyps):
            for lm in h.t:
                for m in S:
                    q = _mono_div(m, lm)
                    if q is not None and (i, q) not in cands:
                        cands.add((i, q))
                        for hm in h.t:
                            new.add(_mono_mul(q, hm))
        if len(cands) > cap:
            break
        if new <= S:
            break
        S |= new
    cands = sorted(cands)
    if len(cands) * max(1, len(S)) > 6_000_000:
        return {"ok": False, "seconds": round(time.time() - t0, 3), "cofactor_terms": 0, "why": "ansatz system too large (size cap)"}
    rows = {}
    for m in goal.t:
        rows.setdefault(m, len(rows))
    cols = []
    for (i, q) in cands:
        col = {}
        for hm, c in hyps[i].t.items():
            mm = _mono_mul(q, hm)
            rows.setdefault(mm, len(rows))
            col[mm] = col.get(mm, 0) + c
        cols.append(col)
    A = np.zeros((len(rows), len(cols)))
    b = np.zeros(len(rows))
    for m, c in goal.t.items():
        b[rows[m]] = float(c)
    for j, col in enumerate(cols):
        for mm, c in col.items():
            A[rows[mm], j] = float(c)
    if A.size == 0:
        return {"ok": False, "seconds": time.time() - t0, "cofactor_terms": 0, "why": "no candidate cofactors"}
    x, res, rank, sv = np.linalg.lstsq(A, b, rcond=None)
    if np.abs(A @ x - b).max() > 1e-7:
        return {"ok": False, "seconds": time.time() - t0, "cofactor_terms": 0, "why": "ansatz system has no solution (goal not in the span)",
                "residual": float(np.abs(A @ x - b).max())}
    qs = [dict() for _ in hyps]
    for (i, q), v in zip(cands, x):
        f = Fraction(float(v)).limit_denominator(5040)
        if f != 0:
            qs[i][q] = f
    acc = Poly()
    for qd, h in zip(qs, hyps):
        acc = acc + Poly(qd) * h
    ok = (goal - acc).is_zero()
    return {"ok": ok, "seconds": round(time.time() - t0, 3), "cofactor_terms": sum(len(q) for q in qs),
            "why": "" if ok else "rationalised cofactors failed the exact check", "unknowns": len(cands), "equations": len(rows)}


def relevant_hyps(goal, hyps):
    """Distinct hypotheses connected to the goal through shared variables (transitively)."""
    seen, uniq = set(), []
    for h in hyps:
        key = tuple(sorted(h.t.items()))
        nkey = tuple(sorted((-h).t.items()))
        if key in seen or nkey in seen or h.is_zero():
            continue
        seen.add(key)
        uniq.append(h)
    vars_ = set(goal.variables())
    chosen = []
    changed = True
    rest = list(uniq)
    while changed:
        changed = False
        for h in list(rest):
            hv = set(h.variables())
            if hv & vars_:
                chosen.append(h)
                rest.remove(h)
                vars_ |= hv
                changed = True
    return chosen


def _power_rule(h):
    """If h == c*v^k - p with v a variable that occurs nowhere else in h (k = 1 or 2): return (v, k, p/c... ) as rewrite v^k -> q."""
    cands = []
    for mono, coeff in h.t.items():
        if len(mono) == 1 and mono[0][1] in (1, 2):
            v, k = mono[0]
            rest = Poly({m: c for m, c in h.t.items() if m != mono})
            if v in rest.variables():
                continue
            # prefer eliminating derived symbols (function applications, fresh symbols) over plain parameters
            derived = v.startswith("(") or "!" in v
            cands.append((0 if derived else 1, -k, v, k, rest.scale(Fraction(-1) / coeff)))
    if not cands:
        return None
    cands.sort(key=lambda c: (c[0], c[1], c[2]))
    _, _, v, k, q = cands[0]
    return v, k, q


def substitute_power(goal, v, k, q):
    """Replace v^k by q everywhere in goal (exact)."""
    out = Poly()
    cache = {0: Poly.const(1)}
    for mono, coeff in goal.t.items():
        d = dict(mono)
        e = d.pop(v, 0)
        hi, lo = divmod(e, k)
        base = {tuple(sorted(list(d.items()) + ([(v, lo)] if lo else []))): coeff}
        term = Poly(base)
        if hi:
            if hi not in cache:
                pw = Poly.const(1)
                for _ in range(hi):
                    pw = pw * q
                cache[hi] = pw
            term = term * cache[hi]
        out = out + term
    return out


def reduce_by_rules(goal, hyps, limit=40):
    """Normal form of goal under the rewrite rules v^k -> q read off the hypotheses (each rule replaces equals by equals,
    so normal form 0 proves goal == 0 under the hypotheses; no search, no trusted helper)."""
    rules = []
    used = set()
    for h in hyps:
        r = _power_rule(h)
        if r and r[0] not in used:
            rules.append(r)
            used.add(r[0])
    g = goal
    steps = 0
    for _ in range(limit):
        changed = False
        for v, k, q in rules:
            if any(dict(m).get(v, 0) >= k for m in g.t):
                g = substitute_power(g, v, k, q)
                changed = True
                steps += 1
                if len(g.t) > 200000:
                    return g, steps
        if not changed or g.is_zero():
            break
    return g, steps


def prove_in_ideal(goal, hyps):
    hyps = relevant_hyps(goal, hyps)
    t0 = time.time()
    g, steps = reduce_by_rules(goal, hyps)
    if g.is_zero():
        return {"ok": True, "seconds": round(time.time() - t0, 3), "cofactor_terms": 0, "why": "", "method": f"rewriting to normal form 0 ({steps} substitutions v^k -> q from the hypotheses)"}
    c = certify_ansatz(goal, hyps, rounds=1)
    for rounds in (2, 3):
        if not c["ok"]:
            c = certify_ansatz(goal, hyps, rounds=rounds, cap=2500)
    if c["ok"]:
        c["method"] = "ansatz+exact-check"
        return c
    if len(hyps) > 8 or len(goal.t) > 300 or sum(len(h.t) for h in hyps) > 400:
        c["method"] = "ansatz"
        return c
    c2 = certify(goal, hyps)
    c2["method"] = "division+exact-check"
    if not c2["ok"]:
        c2["ansatz_why"] = c.get("why")
    return c2


def eval_poly(p, env):
    acc = Fraction(0)
    for k, v in p.t.items():
        term = v
        for n, e in k:
            term *= Fraction(env[n]) ** e
        acc += term
    return acc


# ---- rational functions ---------------------------------------------------------------------------------------------
class RatFun:
    def __init__(self, num, den=None):
        self.num = num
        self.den = den if den is not None else Poly.const(1)

    def __add__(self, o):
        if self.den.t == o.den.t:
            return RatFun(self.num + o.num, self.den)
        return RatFun(self.num * o.den + o.num * self.den, self.den * o.den)

    def __sub__(self, o):
        return self + RatFun(-o.num, o.den)

    def __mul__(self, o):
        return RatFun(self.num * o.num, self.den * o.den)

    def __truediv__(self, o):
        return RatFun(self.num * o.den, self.den * o.num)


def z3_to_ratfun(e):
    if z3.is_int_value(e):
        return RatFun(Poly.const(e.as_long()))
    if z3.is_rational_value(e):
        return RatFun(Poly.const(Fraction(e.numerator_as_long(), e.denominator_as_long())))
    k = e.decl().kind()
    ch = e.children()
    if k == z3.Z3_OP_ADD:
        r = z3_to_ratfun(ch[0])
        for c in ch[1:]:
            r = r + z3_to_ratfun(c)
        return r
    if k == z3.Z3_OP_SUB:
        r = z3_to_ratfun(ch[0])
        for c in ch[1:]:
            r = r - z3_to_ratfun(c)
        return r
    if k == z3.Z3_OP_UMINUS:
        x = z3_to_ratfun(ch[0])
        return RatFun(-x.num, x.den)
    if k == z3.Z3_OP_MUL:
        r = z3_to_ratfun(ch[0])
        for c in ch[1:]:
            r = r * z3_to_ratfun(c)
        return r
    if k == z3.Z3_OP_DIV:
        return z3_to_ratfun(ch[0]) / z3_to_ratfun(ch[1])
    if k == z3.Z3_OP_TO_REAL:
        return z3_to_ratfun(ch[0])
    if k == z3.Z3_OP_POWER:
        ex = z3_to_ratfun(ch[1])
        if ex.num.is_const() and ex.den.is_const():
            v = ex.num.const_value() / ex.den.const_value()
            if v.denominator == 1 and 0 <= v <= 8:
                b = z3_to_ratfun(ch[0])
                r = RatFun(Poly.const(1))
                for _ in range(int(v)):
                    r = r * b
                return r
        raise NotPolynomial("power")
    if k == z3.Z3_OP_UNINTERPRETED:
        return RatFun(Poly.var(e.decl().name() if not ch else e.sexpr()))
    raise NotPolynomial(f"operator {e.decl().name()}")


def equalities_of(hyps):
    """Top-level equalities among the hypotheses (descending into And), as (lhs, rhs) z3 pairs."""
    out = []
    stack = list(hyps)
    while stack:
        h = stack.pop()
        if not z3.is_expr(h):
            continue
        if z3.is_and(h):
            stack.extend(h.children())
        elif z3.is_eq(h) and (z3.is_real(h.arg(0)) or z3.is_int(h.arg(0))):
            out.append((h.arg(0), h.arg(1)))
    return out


def certify_equation(hyps, lhs, rhs):
    """lhs == rhs as rational functions modulo the equalities among hyps.  Denominators are assumed non-zero (the
    caller's division-safety obligations establish that separately)."""
    t0 = time.time()
    try:
        g = z3_to_ratfun(lhs) - z3_to_ratfun(rhs)
        hp = []
        for l, r in equalities_of(hyps):
            try:
                d = z3_to_ratfun(l) - z3_to_ratfun(r)
            except NotPolynomial:
                continue
            if not d.num.is_zero():
                hp.append(d.num)
    except NotPolynomial as e:
        return {"ok": False, "why": f"not rational: {e}", "seconds": time.time() - t0}
    if len(g.num.t) > 40000:
        return {"ok": False, "why": "numerator too large", "seconds": time.time() - t0}
    c = prove_in_ideal(g.num, hp) if not g.num.is_zero() else {"ok": True, "why": "numerator is identically zero", "cofactor_terms": 0, "method": "normal form"}
    c["seconds"] = round(time.time() - t0, 3)
    c["numerator_terms"] = len(g.num.t)
    return c
