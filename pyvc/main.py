"""Driver: ./check Cxx --tier quick|thorough | --replay file"""
import argparse
import importlib
import json
import os
import sys
import traceback


def main():
    ap = argparse.ArgumentParser()
    ap.add_argument("prop")
    ap.add_argument("--tier", default=os.environ.get("VERIF_TIER", "quick"), choices=["quick", "thorough"])
    ap.add_argument("--replay")
    a = ap.parse_args()
    seed = int(os.environ.get("VERIF_SEED", "0") or 0)
    from pyvc.checkctx import CheckContext
    try:
        mod = importlib.import_module(f"contracts.{a.prop}")
    except ModuleNotFoundError:
        print(f"no contracts for {a.prop}")
        sys.exit(3)
    if a.replay:
        doc = json.load(open(a.replay))
        rc = mod.replay(doc) if hasattr(mod, "replay") else generic_replay(mod, doc, a.prop, seed)
        sys.exit(rc)
    ctx = CheckContext(a.prop, a.tier, seed)
    try:
        mod.build(ctx)
        _public_calls(ctx)
        rc = ctx.finish()
    except Exception as e:
        traceback.print_exc()
        rc = 3
        # an exception raised INSIDE the code under test (innermost frame in the library's own source) while a run-time obligation was calling it on an input of
        # the property's domain is a failing input, not a checker crash; anything raised by the harness or the engine itself stays a checker error
        try:
            from pyvc import source
            from pyvc.checkctx import REPLAY_DIR
            frames = traceback.extract_tb(e.__traceback__)
            inner = frames[-1] if frames else None
            lib = os.path.join(source.SRC_ROOT, "chmpy") + os.sep
            if inner is not None and os.path.abspath(inner.filename).startswith(lib):
                caller = next((f for f in reversed(frames) if os.sep + "contracts" + os.sep in f.filename), None)
                os.makedirs(REPLAY_DIR, exist_ok=True)
                path = os.path.join(REPLAY_DIR, f"{a.prop}-{a.prop}_code_under_test_raised.json")
                json.dump({"property_id": a.prop, "obligation": f"{a.prop}/code_under_test/no_exception_on_check_inputs", "tag": "B",
                           "clause": "the functions under contract return on the inputs the check feeds them (inputs of the property's domain)",
                           "verdict": "refuted", "verifier_output": traceback.format_exc()[-3000:],
                           "raised": f"{type(e).__name__}: {e}"[:300], "raised_at": f"{inner.filename}:{inner.lineno} in {inner.name}",
                           "called_from": (f"{caller.filename}:{caller.lineno} in {caller.name}" if caller else None), "reproduced": False, "seed": seed}, open(path, "w"), indent=1)
                print(f"VIOLATION property={a.prop} replay={path} no-failing-input-found")
                rc = 1
        except Exception:  # noqa
            traceback.print_exc()
        if rc == 3:
            print(f"CHECKER-ERROR property={a.prop}")
    sys.exit(rc)


def _public_calls(ctx):
    from contracts import common_forms
    common_forms.public_calls(ctx)


def generic_replay(mod, doc, prop, seed):
    """Re-run the whole check and report whether the named obligation still fails."""
    from pyvc.checkctx import CheckContext
    ctx = CheckContext(prop, "quick", doc.get("seed", seed))
    mod.build(ctx)
    _public_calls(ctx)
    rc = ctx.finish()
    still = doc["obligation"] in ctx.violations
    print(f"replay: obligation {doc['obligation']} {'still fails' if still else 'no longer fails'}")
    return 1 if still else 0


if __name__ == "__main__":
    main()
