"""Driver: ./check Cxx --tier quick|thorough | --replay file"""
import argparse
import importlib
import json
import os
import sys
import traceback


def main():
    ap = argparse.ArgumentParser()
    ap.add_argument("prop")
    ap.add_argument("--tier", default=os.environ.get("VERIF_TIER", "quick"), choices=["quick", "thorough"])
    ap.add_argument("--replay")
    a = ap.parse_args()
    seed = int(os.environ.get("VERIF_SEED", "0") or 0)
    from pyvc.checkctx import CheckContext
    try:
        mod = importlib.import_module(f"contracts.{a.prop}")
    except ModuleNotFoundError:
        print(f"no contracts for {a.prop}")
        sys.exit(3)
    if a.replay:
        doc = json.load(open(a.replay))
        rc = mod.replay(doc) if hasattr(mod, "replay") else generic_replay(mod, doc, a.prop, seed)
        sys.exit(rc)
    ctx = CheckContext(a.prop, a.tier, seed)
    try:
        mod.build(ctx)
        rc = ctx.finish()
    except Exception:
        traceback.print_exc()
        print(f"CHECKER-ERROR property={a.prop}")
        rc = 3
    sys.exit(rc)


def generic_replay(mod, doc, prop, seed):
    """Re-run the whole check and report whether the named obligation still fails."""
    from pyvc.checkctx import CheckContext
    ctx = CheckContext(prop, "quick", doc.get("seed", seed))
    mod.build(ctx)
    rc = ctx.finish()
    still = doc["obligation"] in ctx.violations
    print(f"replay: obligation {doc['obligation']} {'still fails' if still else 'no longer fails'}")
    return 1 if still else 0


if __name__ == "__main__":
    main()
