"""Structured strings: a string built by concatenation / formatting is a list of typed segments.

  Lit(text)                       concrete text
  Fmt(value, spec)                a number rendered by format(value, spec); width is a linear term
  Sym(term, lang, minlen)         unknown text from a stated language (z3 String term)

Lengths and offsets are linear integer terms; a slice that aligns with segment boundaries *is* that
segment; float()/int() of a Fmt segment are resolved by the format/parse contract (assumed, id
'cpython.format-parse'): float(format(x, 'W.Pf')) == round(x * 10**P) / 10**P.
"""
from fractions import Fraction
import re as _re
import z3

from .values import (NDArr, PyRaise, Unsupported, b_and, b_ite, b_not, b_or, is_sym, num_binop, num_cmp, simp, to_frac,
                     z, to_real)


class Lit:
    def __init__(self, text):
        self.text = text

    def length(self):
        return len(self.text)

    def __repr__(self):
        return f"Lit({self.text!r})"


_SPEC = _re.compile(r"^(?P<fill>.)?(?P<align>[<>=^])?(?P<sign>[+\- ])?(?P<zero>0)?(?P<width>\d+)?(?:\.(?P<prec>\d+))?(?P<type>[dfFeEgGsn%])?$")


def parse_spec(spec):
    m = _re.match(r"^(?:(?P<fill>.)?(?P<align>[<>=^]))?(?P<sign>[+\- ])?(?P<zero>0)?(?P<width>\d+)?(?:\.(?P<prec>\d+))?(?P<type>[dfFeEgGsn%])?$", spec)
    if not m:
        raise Unsupported(f"format spec {spec!r}")
    d = m.groupdict()
    return {"fill": d["fill"] or " ", "align": d["align"], "sign": d["sign"] or "-", "zero": bool(d["zero"]),
            "width": int(d["width"]) if d["width"] else 0, "prec": int(d["prec"]) if d["prec"] is not None else None,
            "type": d["type"]}


class Fmt:
    """format(value, spec) for a symbolic number.  k = round(|value| * 10**P) (scaled integer magnitude)."""

    def __init__(self, I, value, spec):
        self.value = value
        self.spec = spec
        self.p = parse_spec(spec)
        t = self.p["type"]
        if t == "d" or (t is None and (is_sym(value) and z3.is_int(value))):
            self.kind = "d"
            self.prec = 0
            self.scaled = value               # signed integer
        elif t == "f":
            self.kind = "f"
            self.prec = self.p["prec"] if self.p["prec"] is not None else 6
            from .libmodels import round_half_even_int
            self.scaled = round_half_even_int(I, num_binop("*", to_real(value), 10 ** self.prec))   # signed scaled int
        else:
            raise Unsupported(f"format type {t!r} of a symbolic value")
        # number of digits of the integer part: symbolic nd >= 1 with 10**(nd-1) <= ipart < 10**nd (ipart=0 -> nd=1)
        self.I = I
        self._len = None

    def natural_len(self):
        """Length without padding: sign + digits(int part) [+ '.' + P]."""
        I = self.I
        mag = z3.If(z(self.scaled) >= 0, z(self.scaled), -z(self.scaled))
        ipart = mag / (10 ** self.prec) if self.prec else mag
        nd = I.fresh("int", "nd")
        # digits: nd = d  <=>  10**(d-1) <= ipart < 10**d   (d = 1 also covers ipart = 0); d up to 18 modelled
        cases = []
        for d in range(1, 19):
            lo = 0 if d == 1 else 10 ** (d - 1)
            cases.append(z3.And(nd == d, ipart >= lo, ipart < 10 ** d))
        I.assume(z3.Or(*cases))
        neg = z(self.scaled) < 0
        if self.kind == "f":
            # a negative value that rounds to zero still prints '-0.000'
            neg = to_real(self.value) < 0 if is_sym(self.value) else (self.value < 0)
        sign = self.p["sign"]
        signlen = z3.If(z(neg), 1, 1 if sign in ("+", " ") else 0)
        return nd + signlen + ((1 + self.prec) if self.kind == "f" and self.prec > 0 else 0)

    def length(self):
        if self._len is None:
            n = self.natural_len_cached()
            w = self.p["width"]
            if getattr(self, "_stripped", False):
                # without padding; a space sign on a non-negative number is stripped too
                if self.p["sign"] == " ":
                    neg = (to_real(self.value) < 0) if is_sym(self.value) else (self.value < 0)
                    n = n - z3.If(z(neg), 0, 1)
                self._len = simp(n)
            else:
                self._len = simp(z3.If(n >= w, n, z3.IntVal(w))) if w else simp(n)
        return self._len

    def starts_with_blank(self, I):
        """Is the rendered text known to start with a blank (space sign on a non-negative value, or padding)?"""
        if self.p["sign"] == " ":
            neg = (to_real(self.value) < 0) if is_sym(self.value) else (self.value < 0)
            if I_valid(I, b_not(neg)):
                return True
        w = self.p["width"]
        if w and I_valid(I, num_cmp("<", self.natural_len_cached(), w)):
            return True
        return False

    def natural_len_cached(self):
        if getattr(self, "_nat", None) is None:
            self._nat = self.natural_len()
        return self._nat

    def stripped(self):
        """The same number with its padding/space-sign removed (what str.split()/strip() leave)."""
        f = Fmt.__new__(Fmt)
        f.__dict__.update(self.__dict__)
        f._stripped = True
        f._len = None
        return f

    def parsed_value(self):
        """float(text) / int(text) of this segment under the format/parse contract."""
        if self.kind == "d":
            return self.scaled
        return num_binop("/", to_real(self.scaled), 10 ** self.prec)

    def __repr__(self):
        return f"Fmt({self.value}, {self.spec!r})"


class Sym:
    def __init__(self, term, lang="any", length=None):
        self.term = term
        self.lang = lang
        self._length = length

    def length(self):
        return self._length if self._length is not None else z3.Length(self.term)

    def __repr__(self):
        return f"Sym({self.term}, {self.lang})"


class SStr:
    def __init__(self, segs):
        out = []
        for s in segs:
            if isinstance(s, Lit):
                if not s.text:
                    continue
                if out and isinstance(out[-1], Lit):
                    out[-1] = Lit(out[-1].text + s.text)
                    continue
            out.append(s)
        self.segs = out

    # -- construction ---------------------------------------------------------------------------
    @staticmethod
    def concat(parts):
        segs = []
        for p in parts:
            if isinstance(p, str):
                segs.append(Lit(p))
            elif isinstance(p, SStr):
                segs.extend(p.segs)
            elif isinstance(p, (Lit, Fmt, Sym)):
                segs.append(p)
            elif is_sym(p) and z3.is_string(p):
                segs.append(Sym(p))
            else:
                raise Unsupported(f"string concatenation with {type(p).__name__}")
        r = SStr(segs)
        c = r.concrete_or_self()
        return c

    def concrete_or_self(self):
        if all(isinstance(s, Lit) for s in self.segs):
            return "".join(s.text for s in self.segs)
        return self

    def concrete(self):
        c = self.concrete_or_self()
        if not isinstance(c, str):
            raise Unsupported("symbolic string where a concrete one is needed")
        return c

    def length(self):
        acc = 0
        for s in self.segs:
            acc = num_binop("+", acc, s.length())
        return simp(acc) if is_sym(acc) else acc

    def to_z3(self, I):
        parts = []
        for s in self.segs:
            if isinstance(s, Lit):
                parts.append(z3.StringVal(s.text))
            elif isinstance(s, Sym):
                parts.append(s.term)
            else:
                raise Unsupported("Fmt segment in a z3 string")
        return z3.Concat(*parts) if len(parts) > 1 else parts[0]

    def __repr__(self):
        return "SStr" + repr(self.segs)

    # -- operations used through the interpreter -------------------------------------------------------
    @staticmethod
    def wrap(v):
        if isinstance(v, SStr):
            return v
        if isinstance(v, str):
            return SStr([Lit(v)])
        if is_sym(v) and z3.is_string(v):
            return SStr([Sym(v)])
        raise Unsupported(f"not a string: {type(v).__name__}")

    @staticmethod
    def compare(I, op, l, r):
        if op not in ("==", "!="):
            raise Unsupported("ordering of symbolic strings")
        if not isinstance(l, (str, SStr)) or not isinstance(r, (str, SStr)):
            if (is_sym(l) and z3.is_string(l)) or (is_sym(r) and z3.is_string(r)):
                eq = SStr.wrap(l).to_z3(I) == SStr.wrap(r).to_z3(I)
                return eq if op == "==" else z3.Not(eq)
            return op == "!="
        eq = SStr.wrap(l).equals(I, SStr.wrap(r))
        return eq if op == "==" else b_not(eq)

    def equals(self, I, other):
        oc = other.concrete_or_self()
        sc = self.concrete_or_self()
        if isinstance(sc, str) and isinstance(oc, str):
            return sc == oc
        if isinstance(oc, str) and self.cannot_equal(oc):
            return False
        if isinstance(sc, str) and other.cannot_equal(sc):
            return False
        if any(isinstance(s, Fmt) for s in self.segs + other.segs):
            # decide by length when possible, else unsupported
            raise Unsupported("equality of formatted-number strings")
        return self.to_z3(I) == other.to_z3(I)

    def cannot_equal(self, c):
        """Structural refutation of self == c for a concrete c (prefix literals and first-character classes)."""
        pos = 0
        for seg in self.segs:
            if isinstance(seg, Lit):
                if c[pos:pos + len(seg.text)] != seg.text:
                    return True
                pos += len(seg.text)
            elif isinstance(seg, Sym) and seg.lang == "digits+":
                if pos >= len(c) or not c[pos].isdigit():
                    return True
                return False     # rest undetermined
            else:
                return False
        return pos != len(c)

    @staticmethod
    def contains(I, container, item):
        if isinstance(container, str) and isinstance(item, str):
            return item in container
        c, it = SStr.wrap(container), SStr.wrap(item)
        itc = it.concrete_or_self()
        if isinstance(itc, str) and any(isinstance(s, Fmt) for s in c.segs):
            return _sym_contains_lit(I, c, itc)
        if any(isinstance(s, Fmt) for s in c.segs + it.segs):
            raise Unsupported("'in' on formatted-number strings")
        return z3.Contains(c.to_z3(I), it.to_z3(I))

    @staticmethod
    def subscript(I, base, idx):
        if isinstance(base, str):
            if isinstance(idx, slice):
                if any(is_sym(x) for x in (idx.start, idx.stop, idx.step)):
                    raise Unsupported("symbolic slice of a concrete string")
                return base[idx]
            if is_sym(idx):
                n = len(base)
                inr = b_and(num_cmp(">=", idx, -n), num_cmp("<", idx, n))
                if not I.decide(inr):
                    raise PyRaise("IndexError")
                pos = simp(z3.If(idx < 0, idx + n, idx))
                return SStr([Sym(z3.SubString(z3.StringVal(base), pos, 1))])
            if not -len(base) <= idx < len(base):
                raise PyRaise("IndexError")
            return base[idx]
        return base.slice(I, idx)

    def slice(self, I, idx):
        """Slice with concrete bounds: succeeds when the bounds align with segment boundaries under the current
        path condition (checked with the solver); otherwise falls back to z3 strings when there is no Fmt."""
        if not isinstance(idx, slice):
            idx = slice(idx, idx + 1 if idx != -1 else None)
            single = True
        if idx.step not in (None, 1):
            raise Unsupported("stepped slice of a structured string")
        total = self.length()
        lo = 0 if idx.start is None else idx.start
        hi = total if idx.stop is None else idx.stop
        if (not is_sym(lo) and lo < 0) or (not is_sym(hi) and hi < 0):
            lo = num_binop("+", total, lo) if (not is_sym(lo) and lo < 0) else lo
            hi = num_binop("+", total, hi) if (not is_sym(hi) and hi < 0) else hi
        # walk the segments, tracking the offset term
        off = 0
        out = []
        started = False
        for s in self.segs:
            ln = s.length()
            end = num_binop("+", off, ln)
            if not started:
                if I_valid(I, num_cmp("==", off, lo)):
                    started = True
                elif isinstance(s, Lit) and I_valid(I, b_and(num_cmp("<=", off, lo), num_cmp("<", lo, end))):
                    # starts inside a literal
                    k = simp_int(I, num_binop("-", lo, off))
                    if k is None:
                        raise Unsupported("slice start at symbolic offset inside a literal")
                    rest = Lit(s.text[k:])
                    if I_valid(I, num_cmp("<=", hi, end)):
                        k2 = simp_int(I, num_binop("-", hi, off))
                        if k2 is None:
                            raise Unsupported("slice end at symbolic offset inside a literal")
                        return SStr.concat([Lit(s.text[k:k2])])
                    out.append(rest)
                    started = True
                    off = end
                    continue
                elif I_valid(I, num_cmp("<=", end, lo)):
                    off = end
                    continue
                else:
                    raise MisalignedSlice(self, lo, hi, off, s, list(I.pc), b_or(num_cmp("==", off, lo), num_cmp("<=", end, lo)))
            # started: does this segment fit entirely?
            if I_valid(I, num_cmp("<=", end, hi)):
                out.append(s)
                off = end
                if I_valid(I, num_cmp("==", end, hi)):
                    return SStr.concat(out)
                continue
            if I_valid(I, num_cmp("<=", hi, off)):
                return SStr.concat(out)
            if isinstance(s, Lit):
                k2 = simp_int(I, num_binop("-", hi, off))
                if k2 is None:
                    raise Unsupported("slice end at symbolic offset inside a literal")
                out.append(Lit(s.text[:k2]))
                return SStr.concat(out)
            raise MisalignedSlice(self, lo, hi, off, s, list(I.pc), b_or(num_cmp("<=", end, hi), num_cmp("<=", hi, off)))
        return SStr.concat(out)


class MisalignedSlice(Unsupported):
    """A slice cuts through a formatted field: reported by the column obligations, not silently modelled."""

    def __init__(self, s, lo, hi, off, seg, pc=None, cond=None):
        super().__init__(f"slice [{lo}:{hi}] cuts segment {seg!r} starting at offset {off}")
        self.lo, self.hi, self.off, self.seg = lo, hi, off, seg
        self.pc = pc            # path condition at the slice
        self.cond = cond        # alignment condition that could not be established (field starts at lo or ends before it)


def I_valid(I, cond):
    """Is cond implied by the current path condition?"""
    cond = simp(cond) if is_sym(cond) else cond
    if not is_sym(cond):
        return bool(cond)
    s = z3.Solver()
    s.set("timeout", 3000)
    for c in I.pc:
        s.add(z(c))
    s.add(z3.Not(cond))
    return s.check() == z3.unsat


def simp_int(I, term):
    term = simp(term) if is_sym(term) else term
    if not is_sym(term):
        return int(term)
    s = z3.Solver()
    s.set("timeout", 3000)
    for c in I.pc:
        s.add(z(c))
    if s.check() != z3.sat:
        return None
    v = s.model().eval(term, model_completion=True)
    if not z3.is_int_value(v):
        return None
    k = v.as_long()
    return k if I_valid(I, term == k) else None


# ---- formatting ------------------------------------------------------------------------------------------
def fmt_value(I, val, spec, conv=None):
    from .libmodels import SymTwelfth
    from .symex import Obj, FuncVal
    if isinstance(val, (str, SStr)):
        if spec:
            if isinstance(val, str):
                return format(val, spec)
            raise Unsupported("format spec on symbolic string")
        return val
    if isinstance(val, Obj):
        name = "__repr__" if conv == "r" else "__str__"
        m = I.find_method(val.cls, name) or I.find_method(val.cls, "__repr__")
        if m:
            return I.call_function(FuncVal(m[0].mod, m[1], m[0], bound=val), [], {})
        raise Unsupported("str() of object without __str__/__repr__")
    if isinstance(val, SymTwelfth):
        return twelfth_str(I, val)
    if val is None:
        return format("None", spec)
    if not is_sym(val):
        if isinstance(val, bool):
            return format(str(val), spec)
        if isinstance(val, int):
            return format(val, spec)
        if type(val).__name__ == "RatObj":
            return format(str(Fraction(val)), spec) if spec else str(Fraction(val))
        if isinstance(val, Fraction):
            if spec and spec[-1] in "fFeEgG":
                return format(float(val), spec) if False else format_fraction(val, spec)
            if not spec:
                # str(float): only exact for values whose repr is short; use Python's float repr
                return repr(float(val)) if val.denominator != 1 or True else str(val)
            return format_fraction(val, spec)
        if isinstance(val, (list, tuple, dict)):
            raise Unsupported("str() of a container")
        raise Unsupported(f"format of {type(val).__name__}")
    if z3.is_string(val):
        return SStr([Sym(val)])
    if not spec:
        if z3.is_int(val):
            return SStr([Fmt(I, val, "d")])
        raise Unsupported("str() of a symbolic float")
    return SStr([Fmt(I, val, spec)])


def format_fraction(val, spec):
    """Exact format(x, 'W.Pf') for a rational x (round-half-even on the exact value: CPython formats the binary
    double, which agrees except at exact decimal ties of non-representable values)."""
    p = parse_spec(spec)
    if p["type"] not in ("f", "F"):
        return format(float(val), spec)
    prec = p["prec"] if p["prec"] is not None else 6
    scaled = val * 10 ** prec
    k = round(abs(scaled))
    digits = str(k).rjust(prec + 1, "0")
    body = digits[:-prec] + "." + digits[-prec:] if prec else digits
    sign = "-" if val < 0 else ("+" if p["sign"] == "+" else (" " if p["sign"] == " " else ""))
    s = sign + body
    if p["width"] and len(s) < p["width"]:
        al = p["align"] or ">"
        if p["zero"] and not p["align"]:
            s = sign + body.rjust(p["width"] - len(sign), "0")
        elif al == ">":
            s = s.rjust(p["width"], p["fill"])
        elif al == "<":
            s = s.ljust(p["width"], p["fill"])
        else:
            s = s.center(p["width"], p["fill"])
    return s


def twelfth_str(I, t):
    """str(Fraction(k, 12)) in lowest terms, by cases on k mod 12 (k symbolic)."""
    raise Unsupported("str of symbolic twelfth (handled by enumeration in the contract)")


def percent_format(I, fmt, args):
    if not isinstance(args, tuple):
        args = (args,)
    if all(not is_sym(a) and not isinstance(a, SStr) for a in args):
        conv = tuple(float(a) if isinstance(a, Fraction) else a for a in args)
        return fmt % conv
    raise Unsupported("%-format with symbolic arguments")


# ---- parsing ----------------------------------------------------------------------------------------------
def _single_fmt(s):
    """SStr consisting of one Fmt segment, optionally surrounded by blank literals."""
    if isinstance(s, SStr):
        core = [x for x in s.segs if not (isinstance(x, Lit) and x.text.strip() == "")]
        if len(core) == 1 and isinstance(core[0], Fmt):
            return core[0]
    return None


def parse_float(I, s):
    if isinstance(s, str):
        try:
            return Fraction(s.strip().replace("_", "")) if _re.fullmatch(r"\s*[+-]?(\d+\.?\d*|\.\d+)([eE][+-]?\d+)?\s*", s) else _pyfloat(s)
        except (ValueError, ZeroDivisionError):
            raise PyRaise("ValueError", f"could not convert string to float: {s!r}")
    f = _single_fmt(s)
    if f is not None:
        I.used_models.add("cpython.format-parse")
        return to_real(f.parsed_value())
    raise Unsupported(f"float() of {s!r}")


def _pyfloat(s):
    try:
        return Fraction(repr(float(s)))
    except (ValueError, OverflowError):
        raise PyRaise("ValueError", f"could not convert string to float: {s!r}")


def parse_int(I, s):
    if isinstance(s, str):
        try:
            return int(s)
        except ValueError:
            raise PyRaise("ValueError", f"invalid literal for int(): {s!r}")
    f = _single_fmt(s)
    if f is not None and f.kind == "d":
        I.used_models.add("cpython.format-parse")
        return f.parsed_value()
    if f is not None:
        raise PyRaise("ValueError", "int() of a decimal string")
    raise Unsupported(f"int() of {s!r}")


def parse_fraction(I, s):
    if isinstance(s, str):
        try:
            return Fraction(s)
        except (ValueError, ZeroDivisionError):
            raise PyRaise("ValueError")
    raise Unsupported("Fraction() of a symbolic string")


# ---- str methods ----------------------------------------------------------------------------------------------
def _concrete_method(name):
    def fn(I, s, *a, **k):
        if isinstance(s, SStr):
            c = s.concrete_or_self()
            if not isinstance(c, str):
                h = SYMBOLIC_METHODS.get(name)
                if h:
                    return h(I, s, *a, **k)
                raise Unsupported(f"str.{name} on a symbolic string")
            s = c
        if name == "format":
            return str_format(I, s, list(a), k)          # structured-string arguments stay structured (same as an f-string)
        a = [x.concrete() if isinstance(x, SStr) else x for x in a]
        if name == "join":
            items = I.iterate(a[0])
            if all(isinstance(x, str) for x in items):
                return s.join(items)
            parts = []
            for i, x in enumerate(items):
                if i:
                    parts.append(s)
                parts.append(x)
            return SStr.concat(parts)
        if name == "format":
            return str_format(I, s, a, k)
        if any(is_sym(x) for x in a):
            raise Unsupported(f"str.{name} with symbolic argument")
        try:
            r = getattr(s, name)(*a, **k)
        except ValueError:
            raise PyRaise("ValueError")
        return r
    return fn


def str_format(I, s, args, kwargs):
    """'...{}..{:spec}'.format(...) -> structured string."""
    import string
    parts = []
    auto = 0
    for lit, field, spec, conv in string.Formatter().parse(s):
        if lit:
            parts.append(lit)
        if field is None:
            continue
        if field == "":
            val = args[auto]
            auto += 1
        elif field.isdigit():
            val = args[int(field)]
        else:
            head = _re.split(r"[.\[]", field)[0]
            if head != field:
                raise Unsupported("attribute/index in format field")
            val = kwargs[field]
        parts.append(fmt_value(I, val, spec or "", conv))
    return SStr.concat(parts)


def _fresh_any(I, hint="s"):
    return Sym(I.fresh("str", hint), "any")


def _sym_strip(I, s, chars=None):
    """Over-approximating strip(): literal ends are stripped exactly, a non-blank-class end is unchanged, an unconstrained
    symbolic end becomes a fresh unconstrained string (sound for proofs: every behaviour is included)."""
    segs = list(s.segs)
    if chars is not None:
        raise Unsupported("strip(chars) on structured string")
    # left end
    while segs and isinstance(segs[0], Lit):
        t = segs[0].text.lstrip()
        if t:
            segs[0] = Lit(t)
            break
        segs.pop(0)
    if segs and isinstance(segs[0], Sym) and segs[0].lang not in ("digits+", "letters+", "noblank+"):
        segs[0] = _fresh_any(I, "lstrip")
    if segs and isinstance(segs[0], Fmt):
        if len(segs) == 1:
            return SStr([segs[0].stripped()])
        segs[0] = _LeftStripped(segs[0]) if False else segs[0]
        raise Unsupported("strip of a formatted field followed by other text")
    while segs and isinstance(segs[-1], Lit):
        t = segs[-1].text.rstrip()
        if t:
            segs[-1] = Lit(t)
            break
        segs.pop()
    if segs and isinstance(segs[-1], Sym) and segs[-1].lang not in ("digits+", "letters+", "noblank+"):
        segs[-1] = _fresh_any(I, "rstrip")
    return SStr.concat(segs) if segs else ""


def _sym_lstrip(I, s, chars=None):
    """lstrip() (blanks) of a structured string: the left end exactly as in strip(), the right end untouched."""
    segs = list(s.segs)
    if chars is not None:
        raise Unsupported("lstrip(chars) on structured string")
    while segs and isinstance(segs[0], Lit):
        t = segs[0].text.lstrip()
        if t:
            segs[0] = Lit(t)
            break
        segs.pop(0)
    if segs and isinstance(segs[0], Sym) and segs[0].lang not in ("digits+", "letters+", "noblank+"):
        segs[0] = _fresh_any(I, "lstrip")
    if segs and isinstance(segs[0], Fmt):
        raise Unsupported("lstrip of a formatted field")
    return SStr.concat(segs) if segs else ""


def _case_map(I, s, how):
    out = []
    first = True
    for seg in s.segs:
        if isinstance(seg, Lit):
            if how == "capitalize":
                t = (seg.text[0].upper() + seg.text[1:].lower()) if first else seg.text.lower()
                if first and len(seg.text[0].upper()) != 1:
                    raise Unsupported("capitalize of a multi-character upper-casing")
            else:
                t = getattr(seg.text, how)()
            out.append(Lit(t))
        elif isinstance(seg, Sym) and seg.lang == "digits+":
            out.append(seg)
        elif isinstance(seg, Sym):
            if first and how == "capitalize":
                raise Unsupported("capitalize with a symbolic first character")
            out.append(_fresh_any(I, how))
        else:
            out.append(seg)
        first = False
    return SStr.concat(out)


def _sym_isdigit(I, s):
    for seg in s.segs:
        if isinstance(seg, Lit) and not seg.text.isdigit():
            return False
        if isinstance(seg, Fmt):
            raise Unsupported("isdigit of a formatted field")
    if all((isinstance(x, Lit)) or (isinstance(x, Sym) and x.lang == "digits+") for x in s.segs):
        return True
    raise Unsupported("isdigit of an unconstrained symbolic string")


def _sym_startswith(I, s, prefix):
    if isinstance(prefix, tuple):
        return b_or(*[_sym_startswith(I, s, p) for p in prefix])
    first = s.segs[0]
    if isinstance(first, Fmt):
        if prefix and prefix[0] not in NUMERIC_CHARS:
            return False
        raise Unsupported("startswith with a numeric prefix on a formatted field")
    if isinstance(first, Lit) and len(first.text) >= len(prefix):
        return first.text.startswith(prefix)
    if isinstance(first, Lit) and not prefix.startswith(first.text):
        return False
    if any(isinstance(x, Fmt) for x in s.segs):
        raise Unsupported("startswith across a formatted field")
    return z3.PrefixOf(z3.StringVal(prefix), s.to_z3(I))


NUMERIC_CHARS = set("0123456789 .-+")


def _lit_runs(s):
    """Maximal runs of literal text between non-literal segments: list of ('lit', text) / ('seg', segment)."""
    out = []
    for seg in s.segs:
        if isinstance(seg, Lit):
            out.append(("lit", seg.text))
        else:
            out.append(("seg", seg))
    return out


def _sym_split(I, s, sep=None, maxsplit=-1):
    """split() of a structured string.  Separators are found in literal text only: a Fmt field (a rendered number) cannot
    contain a separator that has a non-numeric character; for whitespace splitting a Fmt is one token, possibly glued to
    adjacent literal text unless that text provides the blank (otherwise the split is outside the subset)."""
    if maxsplit != -1:
        raise Unsupported("split with maxsplit on a structured string")
    if sep is not None:
        if isinstance(sep, SStr):
            sep = sep.concrete()
        if all(ch in NUMERIC_CHARS for ch in sep):
            raise Unsupported("split separator that could occur inside a formatted number")
        for seg in s.segs:
            if isinstance(seg, Sym) and seg.lang == "any":
                raise Unsupported("split of an unconstrained symbolic segment")
        pieces = [[]]
        for kind, v in _lit_runs(s):
            if kind == "lit":
                parts = v.split(sep)
                pieces[-1].append(parts[0])
                for p_ in parts[1:]:
                    pieces.append([p_])
            else:
                pieces[-1].append(v)
        return [SStr.concat(p_) for p_ in pieces]
    # whitespace splitting
    tokens = []
    cur = []
    cur_open = False     # a token is in progress and its last character is non-blank
    for kind, v in _lit_runs(s):
        if kind == "lit":
            if not v:
                continue
            starts_blank = v[0].isspace()
            ends_blank = v[-1].isspace()
            words = v.split()
            if not words:
                if cur:
                    tokens.append(cur)
                    cur = []
                continue
            if starts_blank and cur:
                tokens.append(cur)
                cur = []
            for wi, w in enumerate(words):
                if wi > 0 and cur:
                    tokens.append(cur)
                    cur = []
                cur.append(w)
            if ends_blank:
                tokens.append(cur)
                cur = []
        else:
            if isinstance(v, Sym) and v.lang not in ("digits+", "letters+", "noblank+"):
                raise Unsupported("whitespace split of an unconstrained symbolic segment")
            if isinstance(v, Fmt):
                if cur:
                    # literal text glued to the number unless the number is known to start with a blank
                    if not v.starts_with_blank(I):
                        # not provably separated: becomes the obligation "the field never fills its width" (decided by the solver)
                        w_ = v.p["width"]
                        raise MisalignedSlice(s, "field start", "preceding text", None, v, list(I.pc),
                                              num_cmp("<", v.natural_len_cached(), w_) if w_ else False)
                    tokens.append(cur)
                    cur = []
                cur.append(v.stripped())
            else:
                cur.append(v)
    if cur:
        tokens.append(cur)
    return [SStr.concat(t) for t in tokens]


def _sym_splitlines(I, s, keepends=False):
    if keepends:
        raise Unsupported("splitlines(keepends=True)")
    for seg in s.segs:
        if isinstance(seg, Sym) and seg.lang == "any":
            raise Unsupported("splitlines of an unconstrained symbolic segment")
    pieces = [[]]
    for kind, v in _lit_runs(s):
        if kind == "lit":
            parts = v.splitlines(True)
            for p_ in parts:
                body = p_.rstrip("\r\n\x0b\x0c\x1c\x1d\x1e\x85\u2028\u2029")
                pieces[-1].append(body)
                if body != p_:
                    pieces.append([])
        else:
            pieces[-1].append(v)
    out = [SStr.concat(p_) for p_ in pieces]
    if out and isinstance(out[-1], str) and out[-1] == "" and not pieces[-1] or (out and out[-1] == ""):
        out.pop()
    return out


def _sym_contains_lit(I, s, item):
    """item in s for a pattern with at least one character that cannot occur in a rendered number."""
    if all(ch in NUMERIC_CHARS for ch in item):
        raise Unsupported("'in' with a pattern that could occur inside a formatted number")
    for seg in s.segs:
        if isinstance(seg, Sym) and seg.lang == "any":
            raise Unsupported("'in' on an unconstrained symbolic segment")
    # a match may span literal + numeric text only through characters of NUMERIC_CHARS; require the distinguishing character
    # to be found in literal text together with all its non-numeric neighbours
    core = item.strip("0123456789 .-+")
    return any(core in v for kind, v in _lit_runs(s) if kind == "lit") if core == item else _contains_exact(s, item)


def _contains_exact(s, item):
    raise Unsupported("'in' with a pattern that has numeric characters at its ends")


def _sym_find(I, s, sub):
    first = s.segs[0]
    if isinstance(first, Lit) and sub in first.text:
        return first.text.find(sub)
    raise Unsupported("find on a structured string")


def _sym_endswith(I, s, suffix):
    last = s.segs[-1]
    if isinstance(last, Lit) and len(last.text) >= len(suffix):
        return last.text.endswith(suffix)
    raise Unsupported("endswith across a non-literal segment")


SYMBOLIC_METHODS = {"split": _sym_split, "splitlines": _sym_splitlines, "find": _sym_find, "endswith": _sym_endswith,
                    "strip": _sym_strip, "lstrip": _sym_lstrip, "startswith": _sym_startswith, "isdigit": _sym_isdigit,
                    "lower": lambda I, s: _case_map(I, s, "lower"), "upper": lambda I, s: _case_map(I, s, "upper"),
                    "capitalize": lambda I, s: _case_map(I, s, "capitalize")}

STR_METHODS = {n: _concrete_method(n) for n in (
    "strip", "lstrip", "rstrip", "lower", "upper", "capitalize", "title", "split", "rsplit", "splitlines", "join", "replace",
    "startswith", "endswith", "isdigit", "isalpha", "isnumeric", "isspace", "isupper", "islower", "format", "find", "rfind", "index",
    "count", "ljust", "rjust", "center", "zfill", "partition", "rpartition", "encode", "isalnum", "swapcase", "casefold",
    "removeprefix", "removesuffix", "expandtabs")}
