"""Back ends: discharge obligations (hyps |- goal) with z3, cvc5 on z3's unknowns; 16-process pool.

An obligation is shipped to a worker as SMT-LIB2 text of  hyps AND NOT goal ; unsat = proved.
Verdicts: 'proved' | 'refuted' (with model) | 'unknown'.
"""
import multiprocessing as mp
import os
import re
import subprocess
import tempfile
import time
from fractions import Fraction

import z3

from .values import z

Z3_TIMEOUT_MS = int(os.environ.get("PYVC_Z3_TIMEOUT_MS", "60000"))
CVC5_TIMEOUT_S = int(os.environ.get("PYVC_CVC5_TIMEOUT_S", "60"))
CVC5_BIN = "/usr/bin/cvc5"


def to_smt2(hyps, goal):
    s = z3.Solver()
    for h in hyps:
        s.add(z(h))
    s.add(z3.Not(z(goal)))
    return s.to_smt2()


def _model_to_dict(m):
    out = {}
    for d in m.decls():
        if d.arity() != 0:
            continue
        v = m[d]
        out[d.name()] = _val(v)
    return out


def _val(v):
    if z3.is_int_value(v):
        return v.as_long()
    if z3.is_rational_value(v):
        return str(Fraction(v.numerator_as_long(), v.denominator_as_long()))
    if z3.is_algebraic_value(v):
        return v.approx(20).as_decimal(20).rstrip("?")
    if z3.is_true(v):
        return True
    if z3.is_false(v):
        return False
    if z3.is_string_value(v):
        return {"str": v.as_string()}
    if z3.is_bv_value(v):
        return v.as_long()
    return str(v)


def _z3_check(smt2, timeout_ms, tactic=None):
    ctx = z3.Context()
    t0 = time.time()
    try:
        fs = z3.parse_smt2_string(smt2, ctx=ctx)
        if tactic:
            s = z3.Tactic(tactic, ctx=ctx).solver()
        else:
            s = z3.Solver(ctx=ctx)
        s.set("timeout", timeout_ms)
        s.add(fs)
        r = s.check()
        dt = time.time() - t0
        if r == z3.unsat:
            return "proved", None, dt, ""
        if r == z3.sat:
            return "refuted", _model_to_dict(s.model()), dt, ""
        return "unknown", None, dt, s.reason_unknown()
    except z3.Z3Exception as e:
        return "unknown", None, time.time() - t0, f"z3 error: {e}"


def _cvc5_check(smt2, timeout_s, strings=False):
    t0 = time.time()
    text = "(set-logic ALL)\n(set-option :produce-models true)\n" + smt2.replace("(check-sat)", "") + "\n(check-sat)\n"
    with tempfile.NamedTemporaryFile("w", suffix=".smt2", delete=False, dir=os.environ.get("PYVC_TMP", None)) as f:
        f.write(text)
        path = f.name
    try:
        args = [CVC5_BIN, "--tlimit=%d" % (timeout_s * 1000), "--nl-ext-tplanes"]
        if strings:
            args.append("--strings-exp")
        p = subprocess.run(args + [path], capture_output=True, text=True, timeout=timeout_s + 10)
        out = p.stdout.strip().splitlines()
        dt = time.time() - t0
        if out and out[0] == "unsat":
            return "proved", None, dt, ""
        if out and out[0] == "sat":
            return "refuted", {}, dt, "cvc5 model not extracted"
        return "unknown", None, dt, (p.stdout + p.stderr)[:200]
    except subprocess.TimeoutExpired:
        return "unknown", None, time.time() - t0, "cvc5 timeout"
    finally:
        os.unlink(path)


def _work(job):
    ident, smt2, opts = job
    timeout = opts.get("timeout_ms", Z3_TIMEOUT_MS)
    verdict, model, dt, why = _z3_check(smt2, timeout, opts.get("tactic"))
    backend = "z3"
    tried = [("z3", verdict, round(dt, 3), why)]
    if verdict == "unknown" and opts.get("tactic2"):
        verdict, model, dt2, why = _z3_check(smt2, timeout, opts["tactic2"])
        tried.append(("z3:" + opts["tactic2"], verdict, round(dt2, 3), why))
        dt += dt2
    if verdict == "unknown" and os.path.exists(CVC5_BIN) and not opts.get("no_cvc5"):
        v2, m2, dt2, why2 = _cvc5_check(smt2, opts.get("cvc5_timeout_s", CVC5_TIMEOUT_S), strings="String" in smt2)
        tried.append(("cvc5", v2, round(dt2, 3), why2))
        if v2 != "unknown":
            verdict, model, backend, why = v2, m2, "cvc5", why2
        dt += dt2
    return ident, verdict, model, backend, round(dt, 3), why, tried


def discharge(jobs, procs=None):
    """jobs: list of (ident, smt2, opts).  Returns dict ident -> (verdict, model, backend, seconds, why, tried)."""
    if not jobs:
        return {}
    procs = procs or min(16, max(1, (os.cpu_count() or 4)))
    out = {}
    if len(jobs) == 1 or procs == 1:
        for j in jobs:
            r = _work(j)
            out[r[0]] = r[1:]
        return out
    ctx = mp.get_context("fork")
    with ctx.Pool(min(procs, len(jobs))) as pool:
        for r in pool.imap_unordered(_work, jobs, chunksize=1):
            out[r[0]] = r[1:]
    return out


def parse_model_value(v):
    """Model value (as produced by _val) -> Python int / Fraction / bool / str."""
    if isinstance(v, bool) or isinstance(v, int):
        return v
    if isinstance(v, dict) and "str" in v:
        return v["str"]
    if isinstance(v, str):
        try:
            return Fraction(v)
        except ValueError:
            try:
                return Fraction(v.rstrip("?"))
            except ValueError:
                return v
    return v
