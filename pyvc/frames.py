"""Syntactic frame obligations (tag F): assigns/reads inference over the AST of the real functions.

map_loop: a `for` loop is a *map* when every iteration is independent of the others: the only loop-carried state is a
set of named accumulators that are only appended to; every other name stored in the body is (re)defined in the iteration
before it is read.  For such a loop, result[i] depends on item[i] only, so a per-item contract lifts to all lengths.
"""
import ast


def loops_of(fn_node):
    return [n for n in ast.walk(fn_node) if isinstance(n, (ast.For, ast.While))]


def _names_stored(target):
    out = []
    for n in ast.walk(target):
        if isinstance(n, ast.Name):
            out.append(n.id)
    return out


class _Order(ast.NodeVisitor):
    """Linear (source-order) list of name events in a statement list: ('load'|'store'|'aug', name, node)."""

    def __init__(self):
        self.events = []

    def visit_Assign(self, node):
        self.visit(node.value)
        for t in node.targets:
            self._target(t)

    def visit_AnnAssign(self, node):
        if node.value is not None:
            self.visit(node.value)
        self._target(node.target)

    def visit_AugAssign(self, node):
        self.visit(node.value)
        if isinstance(node.target, ast.Name):
            self.events.append(("aug", node.target.id, node))
        else:
            self.visit(node.target)

    def visit_For(self, node):
        self.visit(node.iter)
        self._target(node.target)
        for s in node.body + node.orelse:
            self.visit(s)

    def visit_comprehension(self, node):
        self.visit(node.iter)
        self._target(node.target)
        for c in node.ifs:
            self.visit(c)

    def _comp(self, node):
        for g in node.generators:
            self.visit(g)
        for f in ("elt", "key", "value"):
            if hasattr(node, f):
                self.visit(getattr(node, f))

    visit_ListComp = visit_SetComp = visit_GeneratorExp = visit_DictComp = _comp

    def visit_Lambda(self, node):
        for a in node.args.args:
            self.events.append(("store", a.arg, node))
        self.visit(node.body)

    def _target(self, t):
        if isinstance(t, ast.Name):
            self.events.append(("store", t.id, t))
        elif isinstance(t, (ast.Tuple, ast.List)):
            for e in t.elts:
                self._target(e)
        else:
            self.visit(t)     # attribute / subscript store: its pieces are loads; recorded by visit_Attribute/Subscript

    def visit_Name(self, node):
        self.events.append(("load" if isinstance(node.ctx, ast.Load) else "store", node.id, node))


def map_loop(fn_node, ordinal, accumulators, local_ok=()):
    """Check that loop number `ordinal` (ast.walk order among For/While) of fn_node is a map over its iterable.

    Returns (ok, detail dict).  accumulators: names that may be appended to.  local_ok: names that may be read without
    being stored first in the iteration (read-only context such as parameters is detected automatically: names never
    stored in the body are read-only).
    """
    loops = loops_of(fn_node)
    if ordinal >= len(loops) or not isinstance(loops[ordinal], ast.For):
        return False, {"error": f"loop {ordinal} is not a for loop"}
    loop = loops[ordinal]
    o = _Order()
    for s in loop.body:
        o.visit(s)
    target_names = set(_names_stored(loop.target))
    stored = {n for k, n, _ in o.events if k in ("store", "aug")}
    problems = []
    first = {}
    for k, n, node in o.events:
        if n not in first:
            first[n] = k
    for n in sorted(stored - target_names):
        if n in accumulators:
            problems.append(f"accumulator {n} is re-bound inside the loop")
        elif first[n] != "store":
            problems.append(f"{n} is read (or augmented) before it is assigned in the iteration: loop-carried state")
    # accumulators only in append/extend form
    for node in ast.walk(ast.Module(body=loop.body, type_ignores=[])):
        if isinstance(node, ast.Name) and node.id in accumulators:
            ok = False
            for parent in ast.walk(ast.Module(body=loop.body, type_ignores=[])):
                if isinstance(parent, ast.Call) and isinstance(parent.func, ast.Attribute) and parent.func.attr in ("append",):
                    base = parent.func.value
                    while isinstance(base, ast.Subscript):
                        base = base.value
                    if base is node:
                        ok = True
                if isinstance(parent, ast.AugAssign) and parent.target is node and isinstance(parent.op, ast.Add):
                    ok = True
            if not ok:
                problems.append(f"accumulator {node.id} is used other than by append at line {node.lineno}")
    # stores through attributes / subscripts of non-accumulators
    for node in ast.walk(ast.Module(body=loop.body, type_ignores=[])):
        if isinstance(node, (ast.Assign, ast.AugAssign)):
            tg = node.targets if isinstance(node, ast.Assign) else [node.target]
            for t in tg:
                for el in (t.elts if isinstance(t, (ast.Tuple, ast.List)) else [t]):
                    if isinstance(el, (ast.Attribute, ast.Subscript)):
                        root = el
                        while isinstance(root, (ast.Attribute, ast.Subscript)):
                            root = root.value
                        rid = root.id if isinstance(root, ast.Name) else None
                        if rid not in stored or first.get(rid) != "store":
                            if rid not in accumulators:
                                problems.append(f"store into {ast.unparse(el)} (not iteration-local) at line {node.lineno}")
    # break / continue: only `continue`, or a leading guard `if <cond on target>: break`
    for node in ast.walk(ast.Module(body=loop.body, type_ignores=[])):
        if isinstance(node, ast.Break):
            guard = loop.body[0]
            ok = isinstance(guard, ast.If) and len(guard.body) == 1 and guard.body[0] is node and not guard.orelse
            if not ok:
                problems.append("break other than as the leading guard of the body")
    return not problems, {"loop_line": loop.lineno, "iterates": ast.unparse(loop.iter), "target": ast.unparse(loop.target),
                          "accumulators": sorted(accumulators), "iteration_locals": sorted(stored - target_names - set(accumulators)),
                          "problems": problems}
