"""Syntactic frame obligations (tag F): assigns/reads inference over the AST of the real functions.

map_loop: a `for` loop is a *map* when every iteration is independent of the others: the only loop-carried state is a
set of named accumulators that are only appended to; every other name stored in the body is (re)defined in the iteration
before it is read.  For such a loop, result[i] depends on item[i] only, so a per-item contract lifts to all lengths.
"""
import ast


def loops_of(fn_node):
    return [n for n in ast.walk(fn_node) if isinstance(n, (ast.For, ast.While))]


def _names_stored(target):
    out = []
    for n in ast.walk(target):
        if isinstance(n, ast.Name):
            out.append(n.id)
    return out


class _Order(ast.NodeVisitor):
    """Linear (source-order) list of name events in a statement list: ('load'|'store'|'aug', name, node)."""

    def __init__(self):
        self.events = []

    def visit_Assign(self, node):
        self.visit(node.value)
        for t in node.targets:
            self._target(t)

    def visit_AnnAssign(self, node):
        if node.value is not None:
            self.visit(node.value)
        self._target(node.target)

    def visit_AugAssign(self, node):
        self.visit(node.value)
        if isinstance(node.target, ast.Name):
            self.events.append(("aug", node.target.id, node))
        else:
            self.visit(node.target)

    def visit_For(self, node):
        self.visit(node.iter)
        self._target(node.target)
        for s in node.body + node.orelse:
            self.visit(s)

    def visit_comprehension(self, node):
        self.visit(node.iter)
        self._target(node.target)
        for c in node.ifs:
            self.visit(c)

    def _comp(self, node):
        for g in node.generators:
            self.visit(g)
        for f in ("elt", "key", "value"):
            if hasattr(node, f):
                self.visit(getattr(node, f))

    visit_ListComp = visit_SetComp = visit_GeneratorExp = visit_DictComp = _comp

    def _scoped(self, node, params, body, name=None):
        """A nested function / lambda: its parameters and the names it stores are its own; only its free-variable loads are events of the
        enclosing statement list (approximation: recorded where the function is defined)."""
        for d in getattr(node.args, "defaults", []) + [d for d in getattr(node.args, "kw_defaults", []) if d is not None]:
            self.visit(d)
        inner = _Order()
        for b in body:
            inner.visit(b)
        own = set(params) | {n for k, n, _ in inner.events if k in ("store", "aug")}
        for k, n, nd in inner.events:
            if n not in own:
                self.events.append((k, n, nd))
        if name:
            self.events.append(("store", name, node))

    def visit_Lambda(self, node):
        a = node.args
        params = [x.arg for x in a.posonlyargs + a.args + a.kwonlyargs] + [x.arg for x in (a.vararg, a.kwarg) if x]
        self._scoped(node, params, [node.body])

    def visit_FunctionDef(self, node):
        a = node.args
        params = [x.arg for x in a.posonlyargs + a.args + a.kwonlyargs] + [x.arg for x in (a.vararg, a.kwarg) if x]
        for d in node.decorator_list:
            self.visit(d)
        self._scoped(node, params, node.body, name=node.name)

    def _target(self, t):
        if isinstance(t, ast.Name):
            self.events.append(("store", t.id, t))
        elif isinstance(t, (ast.Tuple, ast.List)):
            for e in t.elts:
                self._target(e)
        else:
            self.visit(t)     # attribute / subscript store: its pieces are loads; recorded by visit_Attribute/Subscript

    def visit_Name(self, node):
        self.events.append(("load" if isinstance(node.ctx, ast.Load) else "store", node.id, node))


def map_loop(fn_node, ordinal, accumulators, local_ok=()):
    """Check that loop number `ordinal` (ast.walk order among For/While) of fn_node is a map over its iterable.

    Returns (ok, detail dict).  accumulators: names that may be appended to.  local_ok: names that may be read without
    being stored first in the iteration (read-only context such as parameters is detected automatically: names never
    stored in the body are read-only).
    """
    loops = loops_of(fn_node)
    if ordinal >= len(loops) or not isinstance(loops[ordinal], ast.For):
        return False, {"error": f"loop {ordinal} is not a for loop"}
    loop = loops[ordinal]
    o = _Order()
    for s in loop.body:
        o.visit(s)
    target_names = set(_names_stored(loop.target))
    stored = {n for k, n, _ in o.events if k in ("store", "aug")}
    problems = []
    first = {}
    for k, n, node in o.events:
        if n not in first:
            first[n] = k
    for n in sorted(stored - target_names):
        if n in accumulators:
            problems.append(f"accumulator {n} is re-bound inside the loop")
        elif first[n] != "store":
            problems.append(f"{n} is read (or augmented) before it is assigned in the iteration: loop-carried state")
    # accumulators only in append/extend form
    for node in ast.walk(ast.Module(body=loop.body, type_ignores=[])):
        if isinstance(node, ast.Name) and node.id in accumulators:
            ok = False
            for parent in ast.walk(ast.Module(body=loop.body, type_ignores=[])):
                if isinstance(parent, ast.Call) and isinstance(parent.func, ast.Attribute) and parent.func.attr in ("append", "extend"):
                    base = parent.func.value
                    while isinstance(base, ast.Subscript):
                        base = base.value
                    if base is node:
                        ok = True
                if isinstance(parent, ast.AugAssign) and parent.target is node and isinstance(parent.op, ast.Add):
                    ok = True
            if not ok:
                problems.append(f"accumulator {node.id} is used other than by append at line {node.lineno}")
    # stores through attributes / subscripts of non-accumulators
    for node in ast.walk(ast.Module(body=loop.body, type_ignores=[])):
        if isinstance(node, (ast.Assign, ast.AugAssign)):
            tg = node.targets if isinstance(node, ast.Assign) else [node.target]
            for t in tg:
                for el in (t.elts if isinstance(t, (ast.Tuple, ast.List)) else [t]):
                    if isinstance(el, (ast.Attribute, ast.Subscript)):
                        root = el
                        while isinstance(root, (ast.Attribute, ast.Subscript)):
                            root = root.value
                        rid = root.id if isinstance(root, ast.Name) else None
                        if rid not in stored or first.get(rid) != "store":
                            if rid not in accumulators:
                                problems.append(f"store into {ast.unparse(el)} (not iteration-local) at line {node.lineno}")
    # break / continue: only `continue`, or a leading guard `if <cond on target>: break`
    for node in ast.walk(ast.Module(body=loop.body, type_ignores=[])):
        if isinstance(node, ast.Break):
            guard = loop.body[0]
            ok = isinstance(guard, ast.If) and len(guard.body) == 1 and guard.body[0] is node and not guard.orelse
            if not ok:
                problems.append("break other than as the leading guard of the body")
    return not problems, {"loop_line": loop.lineno, "iterates": ast.unparse(loop.iter), "target": ast.unparse(loop.target),
                          "accumulators": sorted(accumulators), "iteration_locals": sorted(stored - target_names - set(accumulators)),
                          "problems": problems}


# =====================================================================================================================
# Class-level frame inference: assigns(m) for the methods of a class, with aliases and transitive self-calls.
INPLACE_METHODS = {"sort", "fill", "resize", "append", "update", "pop", "clear", "extend", "remove", "insert", "translate", "rotate",
                   "transform", "setdefault", "popitem", "reverse", "itemset", "put", "partition", "setfield", "byteswap"}


class MethodInfo:
    def __init__(self, name):
        self.name = name
        self.writes = {}        # path -> first line
        self.self_calls = {}    # method name -> [lines]
        self.memo_sets = {}     # field -> line
        self.memo_dels = {}     # field -> line
        self.memo_guards = set()
        self.component_calls = {}   # (path of the receiver, method name) -> [lines]   for calls  self.<component>.<method>(...)
        self.component_reads = {}   # (path of the receiver, attribute) -> [lines]     for loads  self.<component>.<attribute>  (properties of the component run code)
        self.decorators = []
        self.returns = []


class ClassFrames:
    def __init__(self, mod, clsname):
        self.mod = mod
        self.cls = mod.classes[clsname]
        self.methods = {}
        self.props = set()
        for n in self.cls.body:
            if isinstance(n, ast.FunctionDef):
                decos = [ast.unparse(d) for d in n.decorator_list]
                if any(d.endswith(".setter") for d in decos):
                    continue
                self.methods[n.name] = n
                if "property" in decos:
                    self.props.add(n.name)
        # alias properties: `return self.<path>`
        self.alias_props = {}
        for name in self.props:
            body = [s for s in self.methods[name].body if not (isinstance(s, ast.Expr) and isinstance(s.value, ast.Constant))]
            if len(body) == 1 and isinstance(body[0], ast.Return) and body[0].value is not None:
                p = self._path(body[0].value, {})
                if p and p.startswith("self."):
                    self.alias_props[name] = p
        self.info = {name: self._analyze(name) for name in self.methods}

    # ---- path of an expression rooted at self (through local aliases) ----------------------------------------
    def _path(self, e, aliases):
        if isinstance(e, ast.Name):
            if e.id == "self":
                return "self"
            return aliases.get(e.id)
        if isinstance(e, ast.Attribute):
            b = self._path(e.value, aliases)
            if b is None:
                return None
            if b == "self" and e.attr in getattr(self, "alias_props", {}):
                return self.alias_props[e.attr]
            return b + "." + e.attr
        if isinstance(e, ast.Subscript):
            b = self._path(e.value, aliases)
            if b is None:
                return None
            if isinstance(e.slice, ast.Constant) and isinstance(e.slice.value, str):
                return f"{b}[{e.slice.value}]"
            return b        # element/slice of the object at b: same object for frame purposes
        if isinstance(e, ast.IfExp):
            return self._path(e.body, aliases) or self._path(e.orelse, aliases)       # may-alias: either branch
        if isinstance(e, ast.BoolOp):
            for v in e.values:
                p_ = self._path(v, aliases)
                if p_:
                    return p_
            return None
        if isinstance(e, ast.NamedExpr):
            return self._path(e.value, aliases)
        if isinstance(e, ast.Call):
            f = e.func
            # numpy wrappers that return their argument itself (or a view of it) when it already is a suitable array
            fname = ast.unparse(f).split(".")[-1]
            if fname in ("asarray", "asanyarray", "ascontiguousarray", "asfortranarray", "atleast_1d", "atleast_2d", "atleast_3d", "ravel", "squeeze",
                         "reshape", "transpose", "swapaxes", "broadcast_to", "diagonal", "real", "imag") and e.args \
                    and not (isinstance(f, ast.Attribute) and self._path(f.value, aliases)):
                p_ = self._path(e.args[0], aliases)
                if p_:
                    return p_
            if isinstance(f, ast.Name) and f.id == "getattr" and len(e.args) >= 2 and isinstance(e.args[1], ast.Constant):
                b = self._path(e.args[0], aliases)
                return None if b is None else b + "." + str(e.args[1].value)
            if isinstance(f, ast.Name) and f.id in ("enumerate", "sorted", "list", "tuple", "reversed", "zip", "iter") and e.args:
                return self._path(e.args[0], aliases)      # elements alias the elements of the argument
            if isinstance(f, ast.Attribute):
                b = self._path(f.value, aliases)
                if b == "self" and f.attr in self.memo_fillers():
                    return "self." + self.memo_fillers()[f.attr]
                if b is not None and f.attr in ("get", "values", "items", "keys", "view", "reshape", "ravel", "T", "squeeze"):
                    if f.attr == "get" and e.args and isinstance(e.args[0], ast.Constant) and isinstance(e.args[0].value, str):
                        return f"{b}[{e.args[0].value}]"
                    return b
        return None

    def memo_fillers(self):
        """method name -> memo field it fills (setattr(self, '<_field>', ...) and returns it)."""
        if not hasattr(self, "_fillers"):
            self._fillers = {}
            for name, node in self.methods.items():
                for n in ast.walk(node):
                    if isinstance(n, ast.Call) and isinstance(n.func, ast.Name) and n.func.id == "setattr" and len(n.args) == 3 \
                            and isinstance(n.args[0], ast.Name) and n.args[0].id == "self" and isinstance(n.args[1], ast.Constant) \
                            and str(n.args[1].value).startswith("_"):
                        self._fillers[name] = n.args[1].value
                    if isinstance(n, ast.Assign):
                        for t in n.targets:
                            if isinstance(t, ast.Attribute) and isinstance(t.value, ast.Name) and t.value.id == "self" and t.attr.startswith("_") \
                                    and name not in ("__init__",) and any(isinstance(g, ast.Call) and ast.unparse(g.func) == "hasattr" and len(g.args) == 2
                                                                          and isinstance(g.args[1], ast.Constant) and g.args[1].value == t.attr for g in ast.walk(node)) \
                                    and not isinstance(n.value, ast.Constant):          # a constant stored behind a hasattr guard is a flag ("already warned"), not a memo
                                self._fillers.setdefault(name, t.attr)
        return self._fillers

    def _analyze(self, name):
        node = self.methods[name]
        info = MethodInfo(name)
        info.decorators = [ast.unparse(d) for d in node.decorator_list]
        if not node.args.args or node.args.args[0].arg != "self":
            return info
        aliases = {}

        def note_write(p, line, how):
            if p and p.startswith("self") and p != "self":
                info.writes.setdefault(p, (line, how))

        # statements nested in a compound statement execute conditionally: a rebinding there must not end an alias established before it
        conditional = set()
        for st in ast.walk(node):
            if isinstance(st, (ast.If, ast.For, ast.While, ast.Try, ast.With)) and st is not node:
                for sub in ast.walk(st):
                    if sub is not st:
                        conditional.add(id(sub))

        def bind(target, path, at=None):
            if isinstance(target, ast.Name):
                if path:
                    aliases[target.id] = path
                elif at is None or id(at) not in conditional:
                    aliases.pop(target.id, None)
            elif isinstance(target, (ast.Tuple, ast.List)):
                for el in target.elts:
                    bind(el, path, at)

        def const_strs(e):
            if isinstance(e, (ast.Tuple, ast.List, ast.Set)) and e.elts and all(isinstance(x, ast.Constant) and isinstance(x.value, str) for x in e.elts):
                return [x.value for x in e.elts]
            return None

        # names bound exactly once to a constant tuple/list of strings: locals of this method, class attributes, module globals
        named_consts, counts = {}, {}
        scopes = [("local", list(ast.walk(node))), ("class", list(self.cls.body)), ("module", list(getattr(getattr(self.mod, "tree", None), "body", []) or []))]
        for scope, stmts in scopes:
            for st in stmts:
                if isinstance(st, ast.Assign) and len(st.targets) == 1 and isinstance(st.targets[0], ast.Name):
                    key = (scope, st.targets[0].id)
                    counts[key] = counts.get(key, 0) + 1
                    v = const_strs(st.value)
                    if v is not None:
                        named_consts[key] = v

        def resolve_iter(e):
            v = const_strs(e)
            if v is not None:
                return v
            if isinstance(e, ast.Name):
                for scope in ("local", "module"):
                    if counts.get((scope, e.id)) == 1 and (scope, e.id) in named_consts:
                        return named_consts[(scope, e.id)]
                    if counts.get((scope, e.id)):
                        return None
            if isinstance(e, ast.Attribute) and isinstance(e.value, ast.Name) and e.value.id in ("self", "cls", self.cls.name):
                if counts.get(("class", e.attr)) == 1 and ("class", e.attr) in named_consts:
                    return named_consts[("class", e.attr)]
            return None
        const_iters = {}
        for st in ast.walk(node):
            if isinstance(st, ast.For) and isinstance(st.target, ast.Name):
                v = resolve_iter(st.iter)
                if v is not None:
                    const_iters[st.target.id] = v
        # a linear pass in source order is enough for the alias approximation (aliases only grow)
        for n in sorted((x for x in ast.walk(node) if hasattr(x, "lineno")), key=lambda x: (x.lineno, x.col_offset)):
            if isinstance(n, ast.Assign):
                p = self._path(n.value, aliases)
                for t in n.targets:
                    if isinstance(t, (ast.Name, ast.Tuple, ast.List)):
                        bind(t, p if (p and p != "self") else None, n)
                    else:
                        note_write(self._path(t, aliases), n.lineno, "store")
                        if isinstance(t, ast.Attribute) and isinstance(t.value, ast.Name) and t.value.id == "self" and t.attr.startswith("_"):
                            info.memo_sets.setdefault(t.attr, n.lineno)        # plain store into a private attribute (same role as setattr(self, '_x', v))
            elif isinstance(n, ast.AugAssign):
                if isinstance(n.target, ast.Name):
                    p = aliases.get(n.target.id)
                    if p:
                        note_write(p, n.lineno, "augmented assignment (in place for arrays/lists)")
                else:
                    note_write(self._path(n.target, aliases), n.lineno, "augmented store")
            elif isinstance(n, ast.AnnAssign) and n.value is not None:
                if not isinstance(n.target, ast.Name):
                    note_write(self._path(n.target, aliases), n.lineno, "store")
            elif isinstance(n, ast.For):
                bind(n.target, self._path(n.iter, aliases))
            elif isinstance(n, ast.comprehension):
                bind(n.target, self._path(n.iter, aliases))
            elif isinstance(n, ast.Delete):
                for t in n.targets:
                    p = self._path(t, aliases)
                    if p and p.startswith("self._"):
                        info.memo_dels[p[5:]] = n.lineno
                    note_write(p, n.lineno, "del")
            elif isinstance(n, ast.Call):
                f = n.func
                if isinstance(f, ast.Name) and f.id in ("setattr", "delattr") and n.args and self._path(n.args[0], aliases) == "self":
                    if isinstance(n.args[1], ast.Constant):
                        flds = [n.args[1].value]
                    elif isinstance(n.args[1], ast.Name) and n.args[1].id in const_iters:
                        flds = const_iters[n.args[1].id]
                    else:
                        flds = ["?"]
                    for fld in flds:
                        if f.id == "setattr":
                            info.memo_sets[fld] = n.lineno
                        else:
                            info.memo_dels[fld] = n.lineno
                        note_write("self." + str(fld), n.lineno, f.id)
                elif isinstance(f, ast.Name) and f.id == "hasattr" and len(n.args) == 2 and self._path(n.args[0], aliases) == "self" \
                        and isinstance(n.args[1], ast.Constant):
                    info.memo_guards.add(n.args[1].value)
                elif isinstance(f, ast.Attribute):
                    b = self._path(f.value, aliases)
                    if b == "self" and f.attr in self.methods and f.attr not in self.props:
                        info.self_calls.setdefault(f.attr, []).append(n.lineno)
                    elif b and b.startswith("self.") and b.count(".") == 1 and "[" not in b and f.attr not in INPLACE_METHODS:
                        info.component_calls.setdefault((b, f.attr), []).append(n.lineno)
                    elif b and b != "self" and f.attr in INPLACE_METHODS:
                        if f.attr == "pop" and b.startswith("self.__dict__"):
                            if n.args and isinstance(n.args[0], ast.Constant):
                                info.memo_dels[n.args[0].value] = n.lineno
                        note_write(b, n.lineno, f".{f.attr}() in place")
                    for kw in n.keywords:
                        if kw.arg == "out":
                            note_write(self._path(kw.value, aliases), n.lineno, "out= argument")
            elif isinstance(n, ast.Attribute) and isinstance(n.ctx, ast.Load):
                b = self._path(n.value, aliases)
                if b and b.startswith("self.") and b.count(".") == 1 and "[" not in b:
                    info.component_reads.setdefault((b, n.attr), []).append(n.lineno)
                if b == "self" and n.attr in self.props and n.attr not in self.alias_props:
                    info.self_calls.setdefault(n.attr, []).append(n.lineno)
        return info

    def closure_writes(self, name, seen=None):
        """Transitive writes of method `name` through self-calls: path -> (method, line, how)."""
        seen = seen if seen is not None else set()
        if name in seen or name not in self.info:
            return {}
        seen.add(name)
        out = {p: (name,) + v for p, v in self.info[name].writes.items()}
        for callee in self.info[name].self_calls:
            for p, v in self.closure_writes(callee, seen).items():
                out.setdefault(p, v)
        return out

    def closure_calls(self, name, seen=None):
        seen = seen if seen is not None else set()
        if name in seen or name not in self.info:
            return set()
        seen.add(name)
        out = set(self.info[name].self_calls)
        for c in list(out):
            out |= self.closure_calls(c, seen)
        return out
