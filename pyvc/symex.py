"""pyvc symbolic executor: runs the AST of real chmpy functions over symbolic values.

Exploration is by re-execution with a decision oracle (one run = one path); simple `if` statements and
conditional expressions are merged with ite instead of forked.  Every implicit failure (index out of range,
missing key, division by zero) is either a raising path (faithful Python semantics) or a named safety
obligation.  Calls are modular when the callee has a contract, inlined when it is a small chmpy helper,
library models (assumed contracts, each with a stable id) otherwise.
"""
import ast
import itertools
from fractions import Fraction

import numpy as np
import z3

from . import source
from .values import (Cx, NDArr, PyRaise, Unsupported, b_and, b_ite, b_not, b_or, is_sym, num_binop, num_cmp, simp,
                     to_frac, z, obj_array, coerce_cell, arr_kind_of, elementwise, to_real, trunc_to_int)

MAX_PATHS = 512


# ------------------------------------------------------------------------------------------------
class Obj:
    """Instance of an interpreted class: concrete field names, symbolic field values."""

    def __init__(self, cls, fields=None):
        self.cls = cls
        self.fields = dict(fields or {})

    def __repr__(self):
        return f"<Obj {self.cls.name if self.cls else '?'} {sorted(self.fields)}>"


class ClassVal:
    def __init__(self, mod, node):
        self.mod = mod
        self.node = node
        self.name = node.name
        self.methods = {}
        self.props = {}
        self.statics = set()
        self.classmethods = set()
        self.attrs = {}
        for n in node.body:
            if isinstance(n, ast.FunctionDef):
                decos = [ast.unparse(d) for d in n.decorator_list]
                if "property" in decos:
                    self.props[n.name] = n
                elif any(d.endswith(".setter") for d in decos):
                    continue
                else:
                    self.methods[n.name] = n
                    if "staticmethod" in decos:
                        self.statics.add(n.name)
                    if "classmethod" in decos:
                        self.classmethods.add(n.name)
            elif isinstance(n, ast.Assign) and isinstance(n.targets[0], ast.Name):
                self.attrs[n.targets[0].id] = n.value
        # `name = property(getter)` in the class body, getter being a function defined in the same body: the same thing as the decorator spelling
        for aname, val in list(self.attrs.items()):
            if isinstance(val, ast.Call) and isinstance(val.func, ast.Name) and val.func.id == "property" and len(val.args) == 1 and not val.keywords \
                    and isinstance(val.args[0], ast.Name) and val.args[0].id in self.methods:
                self.props[aname] = self.methods[val.args[0].id]
                del self.attrs[aname]


class FuncVal:
    def __init__(self, mod, node, cls=None, bound=None, closure=None):
        self.mod = mod
        self.node = node
        self.cls = cls
        self.bound = bound
        self.closure = closure
        self.name = getattr(node, "name", "<lambda>")

    @property
    def qualname(self):
        return self.mod.modname + "." + (self.cls.name + "." if self.cls else "") + self.name


class ModelFn:
    """Library model: an assumed contract on a dependency, with a stable id reported in the evidence."""

    def __init__(self, ident, fn, pure=True):
        self.ident = ident
        self.fn = fn


class ModRef:
    def __init__(self, dotted):
        self.dotted = dotted

    def __repr__(self):
        return f"<module {self.dotted}>"


class BoundModel:
    def __init__(self, ident, fn, recv):
        self.ident, self.fn, self.recv = ident, fn, recv


class GenIter:
    """The values of a generator FUNCTION, materialised eagerly (the engine runs the body to its end and records every `yield`), with a read position: next() takes
    one, a for loop / list() takes the rest.  Assumes the generator is pure and finite -- the interleaving of its body with the consumer's code is not modelled."""

    def __init__(self, items):
        self.items = list(items)
        self.pos = 0

    def take(self):
        if self.pos >= len(self.items):
            raise PyRaise("StopIteration", "")
        self.pos += 1
        return self.items[self.pos - 1]

    def rest(self):
        out = self.items[self.pos:]
        self.pos = len(self.items)
        return out


def _has_yield(node):
    cached = getattr(node, "_pyvc_has_yield", None)
    if cached is None:
        def walk(n):
            for ch in ast.iter_child_nodes(n):
                if isinstance(ch, (ast.FunctionDef, ast.AsyncFunctionDef, ast.Lambda, ast.ClassDef)):
                    continue
                if isinstance(ch, (ast.Yield, ast.YieldFrom)) or walk(ch):
                    return True
            return False
        cached = walk(node)
        try:
            node._pyvc_has_yield = cached
        except Exception:  # noqa
            pass
    return cached


class _Return(Exception):
    def __init__(self, value):
        self.value = value


class _Break(Exception):
    pass


class _Continue(Exception):
    pass


class _PathEnd(Exception):
    """Path ended by the loop rule (body of an arbitrary iteration finished) or infeasible."""

    def __init__(self, why):
        self.why = why


class _NeedFork(Exception):
    pass


class Contract:
    """Sidecar contract of one function.

    requires(args...) -> Bool term/py bool ; ensures(result, args...) -> Bool ; result(interp, args) builds the
    havoc'd result.  raises: optional callable(args)->Bool term saying when the call raises (exc type).
    """

    def __init__(self, requires=None, ensures=None, result=None, label=None):
        self.requires = requires
        self.ensures = ensures
        self.result = result
        self.label = label


class LoopInv:
    """Invariant for the k-th symbolic loop of a function: inv(env) -> Bool; modifies: names havoc'd."""

    def __init__(self, inv, modifies, havoc=None):
        self.inv = inv
        self.modifies = modifies
        self.havoc = havoc


class PathResult:
    def __init__(self, pc, kind, value, env, decisions):
        self.pc = pc          # list of Bool terms (path condition incl. definitions of fresh symbols)
        self.kind = kind      # 'return' | 'raise' | 'loop-end'
        self.value = value
        self.env = env
        self.decisions = decisions

    def cond(self):
        return z3.And(*[z(c) for c in self.pc]) if self.pc else z3.BoolVal(True)


class Oblig:
    def __init__(self, ident, hyps, goal, tag="P", meta=None):
        self.ident = ident
        self.hyps = list(hyps)
        self.goal = goal
        self.tag = tag
        self.meta = meta or {}


# ------------------------------------------------------------------------------------------------
class Interp:
    def __init__(self, models=None, contracts=None, loop_invs=None, inline_depth=12, safety=("index", "key", "div"),
                 feasibility_timeout_ms=1500):
        from . import libmodels
        self.models = dict(libmodels.MODELS)
        if models:
            self.models.update(models)
        self.contracts = contracts or {}
        self.loop_invs = loop_invs or {}
        self.safety = set(safety)
        self.inline_depth = inline_depth
        self.feas_timeout = feasibility_timeout_ms
        self.used_models = set()
        self.unmodelled = set()
        self.safety_obligs = []
        self.module_globals = {}
        self.fresh_count = 0
        self._classes = {}
        self.functions_seen = {}

    # ---- run control ------------------------------------------------------------------------
    def run(self, fn, args, kwargs=None, pre=(), label=None):
        """Explore all paths of FnSrc/FuncVal `fn` on the given (symbolic) arguments -> list[PathResult]."""
        if isinstance(fn, source.FnSrc):
            cls = self.class_of(fn.mod, fn.cls.name) if fn.cls else None
            fv = FuncVal(fn.mod, fn.node, cls)
            self.functions_seen[fn.qualname] = fn
        else:
            fv = fn

        def thunk(I, a, kw):
            return I.call_function(fv, a, kw)
        return self.explore(thunk, args, kwargs, pre)

    def explore(self, thunk, args=(), kwargs=None, pre=()):
        """Run thunk(I, cloned_args, cloned_kwargs) once per feasible path.  `pre`: Bool terms assumed at entry."""
        results = []
        stack = [[]]
        while stack:
            prefix = stack.pop()
            if len(results) > MAX_PATHS:
                raise Unsupported(f"path cap {MAX_PATHS} exceeded")
            self.decisions = list(prefix)
            self.dpos = 0
            self.pc = list(pre)
            self.fresh_count = 0
            self.depth = 0
            self.no_fork = 0
            self.new_alts = []
            self.cur_safety = []
            memo = {}
            a = [self.clone(x, memo) for x in args]
            kw = {k: self.clone(v, memo) for k, v in (kwargs or {}).items()}
            res = None
            try:
                val = thunk(self, a, kw)
                res = PathResult(list(self.pc), "return", val, {"args": a}, list(self.decisions))
            except PyRaise as e:
                res = PathResult(list(self.pc), "raise", e, {"args": a}, list(self.decisions))
            except _PathEnd as e:
                if e.why != "infeasible":
                    res = PathResult(list(self.pc), "loop-end", None, {"args": a}, list(self.decisions))
            if res is not None:
                res.safety = list(self.cur_safety)
                results.append(res)
            stack.extend(self.new_alts)
        return results

    def fresh(self, sort, hint="v"):
        self.fresh_count += 1
        name = f"{hint}!{self.fresh_count}"
        if sort == "int":
            return z3.Int(name)
        if sort == "real":
            return z3.Real(name)
        if sort == "bool":
            return z3.Bool(name)
        if sort == "str":
            return z3.String(name)
        if isinstance(sort, z3.SortRef):
            return z3.Const(name, sort)
        raise ValueError(sort)

    def assume(self, cond):
        cond = simp(cond) if is_sym(cond) else cond
        if cond is True:
            return
        if cond is False:
            raise _PathEnd("infeasible")
        self.pc.append(cond)

    def feasible(self, extra):
        s = z3.Solver()
        s.set("timeout", self.feas_timeout)
        for c in self.pc:
            s.add(z(c))
        s.add(z(extra))
        return s.check() != z3.unsat

    def decide(self, cond):
        """Branch on a Bool term: returns the Python truth value chosen for this path."""
        cond = simp(cond) if is_sym(cond) else cond
        if isinstance(cond, (bool, int)) and not is_sym(cond):
            return bool(cond)
        if getattr(self, "no_fork", 0):
            raise _NeedFork()
        if self.dpos < len(self.decisions):
            d = self.decisions[self.dpos]
            self.dpos += 1
        else:
            t_ok = self.feasible(cond)
            f_ok = self.feasible(z3.Not(cond))
            if t_ok and f_ok:
                self.new_alts.append(self.decisions[: self.dpos] + [False])
                d = True
            elif t_ok:
                d = True
            elif f_ok:
                d = False
            else:
                raise _PathEnd("infeasible")
            self.decisions.append(d)
            self.dpos += 1
        self.pc.append(cond if d else simp(z3.Not(cond)))
        return d

    def choose(self, n):
        """n-way non-deterministic choice (loop rule)."""
        if self.dpos < len(self.decisions):
            d = self.decisions[self.dpos]
            self.dpos += 1
            return d
        for k in range(1, n):
            self.new_alts.append(self.decisions[: self.dpos] + [k])
        self.decisions.append(0)
        self.dpos += 1
        return 0

    def oblige(self, kind, goal, note=""):
        goal = simp(goal) if is_sym(goal) else goal
        if goal is True:
            return
        self.cur_safety.append((kind, list(self.pc), goal, note))

    # ---- cloning ------------------------------------------------------------------------------
    def clone(self, v, memo):
        if id(v) in memo:
            return memo[id(v)]
        if isinstance(v, NDArr):
            r = NDArr(v.data.copy(), v.kind)
        elif isinstance(v, Obj):
            r = Obj(v.cls)
            memo[id(v)] = r
            r.fields = {k: self.clone(x, memo) for k, x in v.fields.items()}
            return r
        elif isinstance(v, list):
            r = []
            memo[id(v)] = r
            r.extend(self.clone(x, memo) for x in v)
            return r
        elif isinstance(v, dict):
            r = {}
            memo[id(v)] = r
            for k, x in v.items():
                r[k] = self.clone(x, memo)
            return r
        elif isinstance(v, tuple) and any(isinstance(x, (NDArr, Obj, list, dict)) for x in v):
            r = tuple(self.clone(x, memo) for x in v)
        else:
            return v
        memo[id(v)] = r
        return r

    # ---- classes / module globals ----------------------------------------------------------------
    def class_of(self, mod, name):
        key = (mod.modname, name)
        if key not in self._classes:
            self._classes[key] = ClassVal(mod, mod.classes[name])
        return self._classes[key]

    def lookup_global(self, mod, name):
        key = (mod.modname, name)
        if key in self.module_globals:
            return self.module_globals[key]
        if name in mod.functions:
            v = FuncVal(mod, mod.functions[name])
        elif name in mod.classes:
            v = self.class_of(mod, name)
        elif name in mod.assigns:
            # module-level constant: evaluated concretely by this interpreter, once
            saved = (getattr(self, "pc", None), getattr(self, "no_fork", 0))
            fr = Frame(mod, {}, None)
            v = self.eval(mod.assigns[name], fr)
        elif name in mod.imports:
            dotted = mod.imports[name]
            v = self.resolve_import(dotted)
        elif name == "__name__":
            v = mod.modname
        else:
            v = self.builtin(name)
        self.module_globals[key] = v
        return v

    def resolve_import(self, dotted):
        if dotted in self.models:
            return self.models[dotted]
        if dotted.startswith("chmpy"):
            # chmpy.x.y.name -> function/class `name` of module chmpy.x.y, or module itself
            try:
                source.module_path(dotted)
                return ModRef(dotted)
            except FileNotFoundError:
                pass
            modname, _, attr = dotted.rpartition(".")
            try:
                m = source.load_module(modname)
            except FileNotFoundError:
                return ModRef(dotted)
            if m.imports.get(attr) == dotted and attr not in m.functions and attr not in m.classes and attr not in m.assigns:
                return ModRef(dotted)          # `from . import _ext`: a (compiled) submodule of the package, known only by its dotted name
            return self.lookup_global(m, attr)
        return ModRef(dotted)

    def builtin(self, name):
        key = "builtins." + name
        if key in self.models:
            return self.models[key]
        raise Unsupported(f"unknown name {name}")

    # ---- function calls -------------------------------------------------------------------------
    def bind_args(self, node, args, kwargs, fr_mod, closure):
        a = node.args
        names = [x.arg for x in a.posonlyargs + a.args]
        env = dict(closure or {})
        defaults = a.defaults
        nd = len(defaults)
        if len(args) > len(names) and not a.vararg:
            raise PyRaise("TypeError", "too many arguments")
        for i, n in enumerate(names):
            if i < len(args):
                env[n] = args[i]
            elif n in kwargs:
                env[n] = kwargs.pop(n)
            else:
                di = i - (len(names) - nd)
                if di < 0:
                    raise PyRaise("TypeError", f"missing argument {n}")
                env[n] = self.eval(defaults[di], Frame(fr_mod, {}, None))
        if a.vararg:
            env[a.vararg.arg] = tuple(args[len(names):])
        for k, n in enumerate(a.kwonlyargs):
            if n.arg in kwargs:
                env[n.arg] = kwargs.pop(n.arg)
            elif a.kw_defaults[k] is not None:
                env[n.arg] = self.eval(a.kw_defaults[k], Frame(fr_mod, {}, None))
            else:
                raise PyRaise("TypeError", f"missing kw argument {n.arg}")
        if a.kwarg:
            env[a.kwarg.arg] = dict(kwargs)
        elif kwargs:
            raise PyRaise("TypeError", f"unexpected keyword {sorted(kwargs)}")
        return env

    def call_function(self, fv, args, kwargs):
        kwargs = dict(kwargs or {})
        if fv.bound is not None:
            args = [fv.bound] + list(args)
        qn = fv.qualname
        if qn in self.contracts and self.depth > 0:
            # a sidecar contract is written against the callee's parameter ORDER, not its parameter names: keyword arguments that name the next positional
            # parameters of the real signature are handed over positionally (a call site switching to keyword arguments is not a behaviour change)
            c_ = self.contracts[qn]
            fits = True
            if kwargs and c_.result is not None:
                import inspect
                try:
                    inspect.signature(c_.result).bind(self, *args, **kwargs)
                except TypeError:
                    fits = False
                except ValueError:
                    fits = True
            if kwargs and not fits and isinstance(fv.node, (ast.FunctionDef, ast.Lambda)):
                params = [a_.arg for a_ in list(fv.node.args.posonlyargs) + list(fv.node.args.args)]
                args = list(args)
                for name in params[len(args):]:
                    if name not in kwargs:
                        break
                    args.append(kwargs.pop(name))
            return self.call_contract(self.contracts[qn], qn, args, kwargs)
        if self.depth > self.inline_depth:
            raise Unsupported(f"inline depth exceeded at {qn}")
        if isinstance(fv.node, ast.Lambda):
            env = self.bind_args(fv.node, list(args), kwargs, fv.mod, fv.closure)
            fr = Frame(fv.mod, env, fv.cls)
            return self.eval(fv.node.body, fr)
        env = self.bind_args(fv.node, list(args), kwargs, fv.mod, fv.closure)
        fr = Frame(fv.mod, env, fv.cls, fname=qn)
        gen = _has_yield(fv.node)
        if gen:
            fr.yields = []
        self.depth += 1
        try:
            self.exec_block(fv.node.body, fr)
            return GenIter(fr.yields) if gen else None
        except _Return as r:
            return GenIter(fr.yields) if gen else r.value
        finally:
            self.depth -= 1

    def call_contract(self, c, qn, args, kwargs):
        if c.requires is not None:
            self.oblige("requires:" + qn, c.requires(*args, **kwargs))
        res = c.result(self, *args, **kwargs) if c.result else None
        if c.ensures is not None:
            self.assume(c.ensures(res, *args, **kwargs))
        return res

    def call(self, f, args, kwargs=None):
        kwargs = kwargs or {}
        if isinstance(f, FuncVal):
            return self.call_function(f, args, kwargs)
        if isinstance(f, ModelFn):
            self.used_models.add(f.ident)
            return f.fn(self, *args, **kwargs)
        if isinstance(f, BoundModel):
            self.used_models.add(f.ident)
            return f.fn(self, f.recv, *args, **kwargs)
        if isinstance(f, ClassVal):
            return self.instantiate(f, args, kwargs)
        if isinstance(f, Obj):
            m = self.find_method(f.cls, "__call__")
            if m:
                return self.call_function(FuncVal(m[0].mod, m[1], m[0], bound=f), args, kwargs)
        if callable(f) and getattr(f, "_pyvc_native", False):
            return f(*args, **kwargs)
        raise Unsupported(f"call of {f!r}")

    def instantiate(self, cls, args, kwargs):
        o = Obj(cls)
        init = self.find_method(cls, "__init__")
        if init is not None:
            self.call_function(FuncVal(init[0].mod, init[1], init[0], bound=o), args, kwargs)
        elif args or kwargs:
            raise PyRaise("TypeError", "object() takes no arguments")
        return o

    def bases(self, cls):
        out = []
        for b in cls.node.bases:
            if isinstance(b, ast.Name) and b.id in cls.mod.classes:
                out.append(self.class_of(cls.mod, b.id))
            elif isinstance(b, ast.Name) and b.id in cls.mod.imports:
                v = self.resolve_import(cls.mod.imports[b.id])
                if isinstance(v, ClassVal):
                    out.append(v)
        return out

    def find_method(self, cls, name):
        if name in cls.methods:
            return cls, cls.methods[name]
        for b in self.bases(cls):
            r = self.find_method(b, name)
            if r:
                return r
        return None

    def find_prop(self, cls, name):
        if name in cls.props:
            return cls, cls.props[name]
        for b in self.bases(cls):
            r = self.find_prop(b, name)
            if r:
                return r
        return None

    # ---- statements -----------------------------------------------------------------------------
    def exec_block(self, stmts, fr):
        for s in stmts:
            self.exec_stmt(s, fr)

    def exec_stmt(self, s, fr):
        m = getattr(self, "x_" + type(s).__name__, None)
        if m is None:
            raise Unsupported(f"statement {type(s).__name__} at {fr.mod.modname}:{s.lineno}")
        return m(s, fr)

    def x_Expr(self, s, fr):
        if isinstance(s.value, ast.Constant):
            return
        self.eval(s.value, fr)

    def x_Pass(self, s, fr):
        pass

    def x_Import(self, s, fr):
        for a in s.names:
            fr.env[a.asname or a.name.split(".")[0]] = self.resolve_import(a.name if a.asname else a.name.split(".")[0])

    def x_ImportFrom(self, s, fr):
        base = s.module or ""
        if s.level:
            parts = fr.mod.modname.split(".")
            pkg = parts if fr.mod.path.endswith("__init__.py") else parts[:-1]
            pkg = pkg[: len(pkg) - (s.level - 1)]
            base = ".".join(pkg + ([s.module] if s.module else []))
        for a in s.names:
            fr.env[a.asname or a.name] = self.resolve_import(base + "." + a.name)

    def x_Global(self, s, fr):
        fr.globals_decl.update(s.names)

    def x_Assign(self, s, fr):
        v = self.eval(s.value, fr)
        for t in s.targets:
            self.assign(t, v, fr)

    def x_AnnAssign(self, s, fr):
        if s.value is not None:
            self.assign(s.target, self.eval(s.value, fr), fr)

    def x_AugAssign(self, s, fr):
        cur = self.eval(s.target, fr)
        v = self.eval(s.value, fr)
        op = OPS[type(s.op)]
        if isinstance(cur, list) and op == "+":
            cur.extend(self.iterate(v))
            return
        if isinstance(cur, NDArr) and isinstance(s.target, (ast.Name, ast.Attribute)):
            # in-place numpy update keeps identity (obj.attr += v updates the array object held by the attribute: every alias sees it)
            r = self.binop(op, cur, v)
            cur.data[...] = np.frompyfunc(lambda x: coerce_cell(x, cur.kind), 1, 1)(r.data if isinstance(r, NDArr) else r)
            return
        self.assign(s.target, self.binop(op, cur, v), fr)

    def x_Return(self, s, fr):
        raise _Return(self.eval(s.value, fr) if s.value is not None else None)

    def x_Raise(self, s, fr):
        if s.exc is None:
            raise PyRaise(getattr(fr, "handling", "Exception"))
        e = s.exc
        if isinstance(e, ast.Call):
            name = ast.unparse(e.func)
        else:
            name = ast.unparse(e)
        raise PyRaise(name.split(".")[-1], "")

    def x_Assert(self, s, fr):
        c = self.truth(self.eval(s.test, fr))
        if not self.decide(c):
            raise PyRaise("AssertionError")

    def x_Delete(self, s, fr):
        for t in s.targets:
            if isinstance(t, ast.Name):
                fr.env.pop(t.id, None)
            elif isinstance(t, ast.Subscript):
                base = self.eval(t.value, fr)
                key = self.eval(t.slice, fr)
                if isinstance(base, dict):
                    if key not in base:
                        raise PyRaise("KeyError")
                    del base[key]
                elif isinstance(base, list):
                    del base[key]
                else:
                    raise Unsupported("del subscript")
            elif isinstance(t, ast.Attribute):
                base = self.eval(t.value, fr)
                if isinstance(base, Obj):
                    if t.attr not in base.fields:
                        raise PyRaise("AttributeError")
                    del base.fields[t.attr]
                else:
                    raise Unsupported("del attribute")

    def x_With(self, s, fr):
        for it in s.items:
            v = self.eval(it.context_expr, fr)
            if it.optional_vars is not None:
                self.assign(it.optional_vars, v, fr)
        self.exec_block(s.body, fr)

    def x_Try(self, s, fr):
        try:
            self.exec_block(s.body, fr)
        except PyRaise as e:
            for h in s.handlers:
                names = []
                if h.type is None:
                    names = None
                elif isinstance(h.type, ast.Tuple):
                    names = [ast.unparse(x).split(".")[-1] for x in h.type.elts]
                else:
                    names = [ast.unparse(h.type).split(".")[-1]]
                if names is None or e.exc_type in names or "Exception" in names or "BaseException" in names or \
                        (e.exc_type in ("IndexError", "KeyError") and "LookupError" in names):
                    if h.name:
                        fr.env[h.name] = e
                    old = getattr(fr, "handling", None)
                    fr.handling = e.exc_type
                    try:
                        self.exec_block(h.body, fr)
                    finally:
                        fr.handling = old
                    break
            else:
                self.exec_block(s.finalbody, fr)
                raise
        else:
            self.exec_block(s.orelse, fr)
        self.exec_block(s.finalbody, fr)

    def x_FunctionDef(self, s, fr):
        fr.env[s.name] = FuncVal(fr.mod, s, None, closure=fr.env)

    def x_Match(self, s, fr):
        """`match subject:` with literal / None / wildcard / capture patterns (and guards): the first case whose pattern matches is run, like the equivalent if/elif chain."""
        subj = self.eval(s.subject, fr)
        for case in s.cases:
            p = case.pattern
            if isinstance(p, ast.MatchSingleton):
                cond = (subj is p.value) if not is_sym(subj) else (False if p.value is None else self.truth(self.compare("==", subj, p.value)))
            elif isinstance(p, ast.MatchValue):
                cond = self.truth(self.compare("==", subj, self.eval(p.value, fr)))
            elif isinstance(p, ast.MatchAs) and p.pattern is None:
                if p.name is not None:
                    fr.env[p.name] = subj
                cond = True
            else:
                raise Unsupported(f"match pattern {type(p).__name__} at {fr.mod.modname}:{s.lineno}")
            cond = simp(cond) if is_sym(cond) else cond
            if (self.decide(cond) if is_sym(cond) else cond):
                if case.guard is not None:
                    g = self.truth(self.eval(case.guard, fr))
                    if not (self.decide(g) if is_sym(g) else g):
                        continue
                self.exec_block(case.body, fr)
                return

    def x_If(self, s, fr):
        c = self.truth(self.eval(s.test, fr))
        c = simp(c) if is_sym(c) else c
        if not is_sym(c):
            self.exec_block(s.body if c else s.orelse, fr)
            return
        if self._mergeable(s.body) and self._mergeable(s.orelse):
            if self.try_merge_if(c, s, fr):
                return
        if self.decide(c):
            self.exec_block(s.body, fr)
        else:
            self.exec_block(s.orelse, fr)

    def _mergeable(self, stmts):
        for st in stmts:
            for n in ast.walk(st):
                if isinstance(n, (ast.Return, ast.Raise, ast.Break, ast.Continue, ast.For, ast.While, ast.Try, ast.With,
                                  ast.Delete, ast.Assert)):
                    return False
        return True

    def try_merge_if(self, c, s, fr):
        """Execute both branches without forking and join the environments with ite."""
        saved_env = fr.env
        saved_pc = list(self.pc)
        saved_fc = self.fresh_count
        saved_saf = list(self.cur_safety)
        outs = []
        self.no_fork = getattr(self, "no_fork", 0) + 1
        try:
            for cond, body in ((c, s.body), (simp(z3.Not(c)), s.orelse)):
                memo = {}
                fr.env = {k: self.clone(v, memo) for k, v in saved_env.items()}
                self.pc = saved_pc + [cond]
                try:
                    self.exec_block(body, fr)
                except (_NeedFork, PyRaise, _PathEnd, Unsupported):
                    fr.env = saved_env
                    self.pc = saved_pc
                    self.fresh_count = saved_fc
                    self.cur_safety = saved_saf
                    return False
                outs.append((fr.env, self.pc[len(saved_pc) + 1:]))
        finally:
            self.no_fork -= 1
        (e1, p1), (e2, p2) = outs
        merged = {}
        ok = True
        # phase 1: can every variable be joined?  (nothing of the original state is touched: a join written into an original array and then
        # abandoned would leave a half-merged state behind for the forked paths)
        for k in set(e1) | set(e2):
            if k not in e1 or k not in e2:
                ok = False
                break
            if self.merge_val(c, e1[k], e2[k], saved_env.get(k), commit=False) is _NOMERGE:
                ok = False
                break
        # phase 2: commit (arrays, lists and objects that existed before keep their identity: the join is written into them)
        if ok:
            for k in set(e1) | set(e2):
                mv = self.merge_val(c, e1[k], e2[k], saved_env.get(k))
                if mv is _NOMERGE:
                    ok = False
                    break
                merged[k] = mv
        if not ok:
            fr.env = saved_env
            self.pc = saved_pc
            self.fresh_count = saved_fc
            self.cur_safety = saved_saf
            return False
        fr.env = saved_env
        for k in list(saved_env):
            if k not in merged:
                del saved_env[k]
        for k, v in merged.items():
            if isinstance(v, _InPlace):
                continue
            saved_env[k] = v
        self.pc = saved_pc + [z3.Implies(c, z(x)) for x in p1] + [z3.Implies(z3.Not(c), z(x)) for x in p2]
        return True

    def merge_val(self, c, a, b, orig, commit=True):
        """Join of the two branch values under condition c.  With commit=False nothing that existed before the branches is written (dry run: can it be joined?)."""
        if a is b:
            return a
        if isinstance(a, NDArr) and isinstance(b, NDArr):
            if a.shape != b.shape:
                return _NOMERGE
            d = elementwise(lambda x, y: x if (x is y) else self._merge_scalar(c, x, y), a, b)
            if any(v is _NOMERGE for v in d.reshape(-1)):
                return _NOMERGE
            if isinstance(orig, NDArr) and orig.shape == a.shape:
                if commit:
                    orig.data[...] = d
                    orig.kind = a.kind
                return orig
            return NDArr(d, a.kind)
        if isinstance(a, (NDArr, Obj, list, dict)) or isinstance(b, (NDArr, Obj, list, dict)):
            if isinstance(a, list) and isinstance(b, list) and len(a) == len(b) and isinstance(orig, list):
                vals = [self.merge_val(c, x, y, None, commit) for x, y in zip(a, b)]
                if any(v is _NOMERGE for v in vals):
                    return _NOMERGE
                if commit:
                    orig[:] = vals
                return orig
            if isinstance(a, Obj) and isinstance(b, Obj) and isinstance(orig, Obj) and set(a.fields) == set(b.fields):
                vals = {k: self.merge_val(c, a.fields[k], b.fields[k], orig.fields.get(k), commit) for k in a.fields}
                if any(v is _NOMERGE for v in vals.values()):
                    return _NOMERGE
                if commit:
                    orig.fields.clear()
                    orig.fields.update(vals)
                return orig
            return _NOMERGE
        if isinstance(a, tuple) and isinstance(b, tuple) and len(a) == len(b):
            vals = tuple(self.merge_val(c, x, y, None) for x, y in zip(a, b))
            return _NOMERGE if any(v is _NOMERGE for v in vals) else vals
        return self._merge_scalar(c, a, b)

    def _merge_scalar(self, c, a, b):
        try:
            if a is None and b is None:
                return None
            if not is_sym(a) and not is_sym(b):
                if type(a) is type(b) and a == b:
                    return a
            if isinstance(a, (FuncVal, ModelFn, ClassVal, ModRef)) or isinstance(b, (FuncVal, ModelFn, ClassVal, ModRef)):
                return a if a is b else _NOMERGE
            if a is None or b is None:
                return _NOMERGE
            from .strings import SStr
            if isinstance(a, (SStr, str, bytes)) or isinstance(b, (SStr, str, bytes)):
                return _NOMERGE
            return b_ite(c, a, b)
        except (Unsupported, z3.Z3Exception, TypeError):
            return _NOMERGE

    def x_For(self, s, fr):
        it = self.eval(s.iter, fr)
        items = self.iterate(it, symbolic_ok=True)
        if items is None:
            return self.symbolic_loop(s, fr, it)
        broke = False
        for item in items:
            self.assign(s.target, item, fr)
            try:
                self.exec_block(s.body, fr)
            except _Break:
                broke = True
                break
            except _Continue:
                continue
        if not broke:
            self.exec_block(s.orelse, fr)

    def x_While(self, s, fr):
        n = 0
        key = (fr.fname, "while", self._loop_ordinal(fr, s))
        if key in self.loop_invs:
            return self.invariant_loop(s, fr, self.loop_invs[key], key)
        while True:
            c = self.truth(self.eval(s.test, fr))
            if not self.decide(c):
                break
            n += 1
            if n > 4096:
                raise Unsupported("while loop needs an invariant (no concrete bound)")
            try:
                self.exec_block(s.body, fr)
            except _Break:
                return
            except _Continue:
                continue
        self.exec_block(s.orelse, fr)

    def _loop_ordinal(self, fr, node):
        fn = fr.fnode
        if fn is None:
            return 0
        k = 0
        for n in ast.walk(fn):
            if isinstance(n, (ast.For, ast.While)):
                if n is node:
                    return k
                k += 1
        return -1

    def symbolic_loop(self, s, fr, it):
        key = (fr.fname, "for", self._loop_ordinal(fr, s))
        if key not in self.loop_invs:
            raise Unsupported(f"loop over a symbolic iterable without invariant: {key}")
        return self.invariant_loop(s, fr, self.loop_invs[key], key, iterable=it)

    def invariant_loop(self, s, fr, li, key, iterable=None):
        """Classical rule: assert I on entry; havoc; {I and guard} body {I}; continue with I and not guard."""
        tag = f"{key[0]}/loop{key[2]}"
        self.oblige(f"inv-entry:{tag}", li.inv(self, fr.env, None))
        # havoc
        idx = None
        for name in li.modifies:
            fr.env[name] = li.havoc(self, name, fr.env) if li.havoc else self.fresh("int", name)
        if iterable is not None:
            # for x in range(lo, hi): index variable is symbolic k with lo <= k <= hi
            if not isinstance(iterable, SymRange):
                raise Unsupported("symbolic for-loop over non-range")
            idx = self.fresh("int", "k")
            self.assume(b_and(num_cmp("<=", iterable.lo, idx), num_cmp("<=", idx, iterable.hi)))
        self.assume(li.inv(self, fr.env, idx))
        which = self.choose(2)
        if which == 0:
            # arbitrary iteration
            if iterable is not None:
                self.assume(num_cmp("<", idx, iterable.hi))
                self.assign(s.target, idx, fr)
            else:
                c = self.truth(self.eval(s.test, fr))
                self.assume(c)
            try:
                self.exec_block(s.body, fr)
            except _Continue:
                pass
            except _Break:
                raise Unsupported("break inside invariant loop")
            nxt = num_binop("+", idx, 1) if idx is not None else None
            self.oblige(f"inv-preserved:{tag}", li.inv(self, fr.env, nxt))
            raise _PathEnd("loop-body")
        else:
            if iterable is not None:
                self.assume(num_cmp("==", idx, iterable.hi))
            else:
                c = self.truth(self.eval(s.test, fr))
                self.assume(b_not(c))
            self.exec_block(s.orelse, fr)

    def x_Break(self, s, fr):
        raise _Break()

    def x_Continue(self, s, fr):
        raise _Continue()

    # ---- assignment targets -----------------------------------------------------------------------
    def assign(self, t, v, fr):
        if isinstance(t, ast.Name):
            if t.id in fr.globals_decl:
                self.module_globals[(fr.mod.modname, t.id)] = v
            else:
                fr.env[t.id] = v
        elif isinstance(t, (ast.Tuple, ast.List)):
            items = self.iterate(v)
            stars = [k for k, e in enumerate(t.elts) if isinstance(e, ast.Starred)]
            if stars:
                k = stars[0]
                after = len(t.elts) - k - 1
                if len(items) < len(t.elts) - 1:
                    raise PyRaise("ValueError", "not enough values to unpack")
                for e, x in zip(t.elts[:k], items[:k]):
                    self.assign(e, x, fr)
                self.assign(t.elts[k].value, list(items[k:len(items) - after]), fr)
                for e, x in zip(t.elts[k + 1:], items[len(items) - after:] if after else []):
                    self.assign(e, x, fr)
                return
            if len(items) != len(t.elts):
                raise PyRaise("ValueError", "unpack")
            for e, x in zip(t.elts, items):
                self.assign(e, x, fr)
        elif isinstance(t, ast.Attribute):
            base = self.eval(t.value, fr)
            if isinstance(base, Obj):
                base.fields[t.attr] = v
            else:
                raise Unsupported(f"attribute store on {type(base).__name__}")
        elif isinstance(t, ast.Subscript):
            base = self.eval(t.value, fr)
            idx = self.eval_index(t.slice, fr)
            self.store(base, idx, v)
        else:
            raise Unsupported(f"assignment target {type(t).__name__}")

    def store(self, base, idx, v):
        if isinstance(base, NDArr):
            cidx = self.concrete_index(base, idx)
            if cidx is None:
                raise Unsupported("store at symbolic index into static array")
            if isinstance(v, NDArr):
                base.data[cidx] = np.frompyfunc(lambda x: coerce_cell(x, base.kind), 1, 1)(v.data)
            elif isinstance(v, (list, tuple)):
                base.data[cidx] = np.frompyfunc(lambda x: coerce_cell(x, base.kind), 1, 1)(obj_array(v))
            else:
                tgt = base.data[cidx]
                if isinstance(tgt, np.ndarray):
                    cell = coerce_cell(v, base.kind)
                    for sub in np.ndindex(*tgt.shape):
                        tgt[sub] = cell
                else:
                    base.data[cidx] = coerce_cell(v, base.kind)
        elif isinstance(base, list):
            if is_sym(idx):
                raise Unsupported("store at symbolic index into list")
            if isinstance(idx, slice):
                base[idx] = self.iterate(v)
            else:
                if not -len(base) <= idx < len(base):
                    raise PyRaise("IndexError")
                base[idx] = v
        elif isinstance(base, dict):
            if is_sym(idx):
                raise Unsupported("store at symbolic key")
            base[self.hashable(idx)] = v
        else:
            raise Unsupported(f"subscript store on {type(base).__name__}")

    def hashable(self, k):
        if isinstance(k, list):
            return tuple(k)
        return k

    # ---- expressions --------------------------------------------------------------------------------
    def eval(self, e, fr):
        m = getattr(self, "e_" + type(e).__name__, None)
        if m is None:
            raise Unsupported(f"expression {type(e).__name__} at {fr.mod.modname}:{getattr(e, 'lineno', '?')}")
        return m(e, fr)

    def e_Constant(self, e, fr):
        v = e.value
        if isinstance(v, float):
            # exact decimal of the literal as written
            seg = ast.get_source_segment(fr.mod.text, e) if hasattr(e, "lineno") else None
            try:
                return Fraction(seg) if seg and "_" not in seg else Fraction(repr(v))
            except (ValueError, TypeError):
                return Fraction(repr(v))
        if isinstance(v, complex):
            raise Unsupported("complex literal")
        return v

    def e_Name(self, e, fr):
        if e.id in fr.env and e.id not in fr.globals_decl:
            return fr.env[e.id]
        return self.lookup_global(fr.mod, e.id)

    def e_Tuple(self, e, fr):
        return tuple(self._elts(e.elts, fr))

    def e_List(self, e, fr):
        return list(self._elts(e.elts, fr))

    def _elts(self, elts, fr):
        out = []
        for x in elts:
            if isinstance(x, ast.Starred):
                out.extend(self.iterate(self.eval(x.value, fr)))
            else:
                out.append(self.eval(x, fr))
        return out

    def e_Set(self, e, fr):
        return set(self._elts(e.elts, fr))

    def e_Dict(self, e, fr):
        d = {}
        for k, v in zip(e.keys, e.values):
            if k is None:
                d.update(self.eval(v, fr))
            else:
                d[self.hashable(self.eval(k, fr))] = self.eval(v, fr)
        return d

    def e_JoinedStr(self, e, fr):
        from .strings import SStr, fmt_value
        parts = []
        for v in e.values:
            if isinstance(v, ast.Constant):
                parts.append(v.value)
            else:
                val = self.eval(v.value, fr)
                spec = ""
                if v.format_spec is not None:
                    sp = self.eval(v.format_spec, fr)
                    spec = sp if isinstance(sp, str) else sp.concrete()
                conv = {-1: None, 115: "s", 114: "r", 97: "a"}[v.conversion]
                parts.append(fmt_value(self, val, spec, conv))
        return SStr.concat(parts)

    def e_FormattedValue(self, e, fr):
        raise Unsupported("bare FormattedValue")

    def e_UnaryOp(self, e, fr):
        v = self.eval(e.operand, fr)
        if isinstance(e.op, ast.Not):
            return b_not(self.truth(v))
        if isinstance(e.op, ast.USub):
            from .libmodels import InfVal
            if isinstance(v, InfVal):
                return InfVal(-v.sign)
            if isinstance(v, NDArr):
                return NDArr(elementwise(lambda x: num_binop("-", 0, x), v), v.kind)
            return num_binop("-", 0, v) if not (is_sym(v) and z3.is_real(v)) else -v
        if isinstance(e.op, ast.UAdd):
            return v
        if isinstance(e.op, ast.Invert):
            if is_sym(v) and z3.is_bv(v):
                return ~v
            if isinstance(v, int):
                return ~v
        raise Unsupported("unary op")

    def e_BinOp(self, e, fr):
        l = self.eval(e.left, fr)
        r = self.eval(e.right, fr)
        return self.binop(OPS[type(e.op)], l, r)

    def binop(self, op, l, r):
        from .strings import SStr
        if isinstance(l, Obj):
            meth = {"+": "__add__", "-": "__sub__", "*": "__mul__", "<": "__lt__"}.get(op)
            m = self.find_method(l.cls, meth) if meth else None
            if m:
                return self.call_function(FuncVal(m[0].mod, m[1], m[0], bound=l), [r], {})
        if isinstance(l, NDArr) or isinstance(r, NDArr):
            if op == "@":
                return self.call(self.models["numpy.dot"], [l, r])
            if isinstance(l, (list, tuple)):
                l = NDArr(obj_array(l))
            if isinstance(r, (list, tuple)):
                r = NDArr(obj_array(r))
            try:
                d = elementwise(lambda x, y: self.scalar_binop(op, x, y), l, r)
            except ValueError:
                raise PyRaise("ValueError", "operands could not be broadcast together")
            if any(isinstance(a, NDArr) and a.kind == "c" for a in (l, r)) or any(isinstance(a, Cx) for a in (l, r)):
                return NDArr(d, "c")
            kind = "f" if (op == "/" or any(isinstance(a, NDArr) and a.kind == "f" for a in (l, r)) or
                           any((is_sym(a) and z3.is_real(a)) or isinstance(a, Fraction) for a in (l, r) if not isinstance(a, NDArr))) else "i"
            return NDArr(d, kind)
        if isinstance(l, (str, SStr)) or isinstance(r, (str, SStr)):
            if op == "+":
                return SStr.concat([l, r])
            if op == "%" and isinstance(l, str):
                from .strings import percent_format
                return percent_format(self, l, r)
            if op == "*" and isinstance(l, str) and isinstance(r, int):
                return l * r
            raise Unsupported(f"string operator {op}")
        if isinstance(l, (list, tuple)) and isinstance(r, (list, tuple)) and op == "+":
            return l + type(l)(r) if isinstance(l, tuple) else l + list(r)
        if isinstance(l, (list, tuple)) and isinstance(r, int) and op == "*":
            return l * r
        if isinstance(l, Obj):
            meth = {"+": "__add__", "-": "__sub__", "*": "__mul__", "<": "__lt__"}.get(op)
            m = self.find_method(l.cls, meth) if meth else None
            if m:
                return self.call_function(FuncVal(m[0].mod, m[1], m[0], bound=l), [r], {})
        if isinstance(l, set) and isinstance(r, set):
            return {"|": l | r, "&": l & r, "-": l - r}[op]
        return self.scalar_binop(op, l, r)

    def scalar_binop(self, op, l, r):
        if op in ("/", "//", "%") and "div" in self.safety:
            if is_sym(r):
                self.oblige("div-nonzero", num_cmp("!=", r, 0))
            elif to_frac(r) == 0:
                raise PyRaise("ZeroDivisionError")
        return num_binop(op, l, r)

    def e_BoolOp(self, e, fr):
        is_and = isinstance(e.op, ast.And)
        acc = []
        last = None
        for i, sub in enumerate(e.values):
            v = self.eval(sub, fr)
            last = v
            t = self.truth(v)
            t = simp(t) if is_sym(t) else t
            if not is_sym(t):
                if is_and and not t:
                    return v if not acc else False
                if (not is_and) and t:
                    return v if not acc else True
                continue
            acc.append(t)
        if not acc:
            return last
        return b_and(*acc) if is_and else b_or(*acc)

    def e_Compare(self, e, fr):
        left = self.eval(e.left, fr)
        res = []
        for op, rn in zip(e.ops, e.comparators):
            right = self.eval(rn, fr)
            res.append(self.compare(op, left, right))
            left = right
        if len(res) == 1:
            return res[0]
        if any(isinstance(r, NDArr) for r in res):
            raise Unsupported("chained array comparison")
        return b_and(*res)

    def compare(self, op, l, r):
        from .strings import SStr
        if isinstance(op, (ast.Is, ast.IsNot)):
            if l is None or r is None:
                same = l is None and r is None
            else:
                same = l is r
            return same if isinstance(op, ast.Is) else not same
        if isinstance(op, (ast.In, ast.NotIn)):
            res = self.contains(r, l)
            return res if isinstance(op, ast.In) else b_not(res)
        sym = CMP[type(op)]
        if isinstance(l, NDArr) or isinstance(r, NDArr):
            if isinstance(l, (list, tuple)):
                l = NDArr(obj_array(l))
            if isinstance(r, (list, tuple)):
                r = NDArr(obj_array(r))
            try:
                return NDArr(elementwise(lambda x, y: self.compare(op, x, y), l, r), "b")
            except ValueError:
                raise PyRaise("ValueError", "operands could not be broadcast together")
        if isinstance(l, SStr) or isinstance(r, SStr):
            return SStr.compare(self, sym, l, r)
        if isinstance(l, Obj) and sym in ("==", "!=", "<"):
            name = {"==": "__eq__", "!=": "__ne__", "<": "__lt__"}[sym]
            m = self.find_method(l.cls, name)
            if m:
                return self.call_function(FuncVal(m[0].mod, m[1], m[0], bound=l), [r], {})
            if sym == "!=":
                m = self.find_method(l.cls, "__eq__")
                if m:
                    return b_not(self.truth(self.call_function(FuncVal(m[0].mod, m[1], m[0], bound=l), [r], {})))
            return (l is r) if sym == "==" else (l is not r)
        if l is None or r is None:
            if sym == "==":
                return l is None and r is None
            if sym == "!=":
                return not (l is None and r is None)
            raise PyRaise("TypeError")
        if isinstance(l, (tuple, list)) and isinstance(r, (tuple, list)):
            if sym in ("==", "!="):
                if len(l) != len(r) or type(l) is not type(r):
                    return sym == "!="
                eq = b_and(*[self.compare(ast.Eq(), a, b) for a, b in zip(l, r)])
                return eq if sym == "==" else b_not(eq)
            if not any(is_sym(x) for x in itertools.chain(l, r)):
                return {"<": l < r, "<=": l <= r, ">": l > r, ">=": l >= r}[sym]
            raise Unsupported("ordering of symbolic sequences")
        if isinstance(l, str) and isinstance(r, str):
            return {"==": l == r, "!=": l != r, "<": l < r, "<=": l <= r, ">": l > r, ">=": l >= r}[sym]
        if isinstance(l, (dict, set)) or isinstance(r, (dict, set)):
            return {"==": l == r, "!=": l != r}[sym]
        if (isinstance(l, str) and not is_sym(r)) or (isinstance(r, str) and not is_sym(l)):
            return {"==": False, "!=": True}.get(sym, None) if sym in ("==", "!=") else self._type_error()
        if isinstance(l, (ClassVal, FuncVal, ModRef, ModelFn)) or isinstance(r, (ClassVal, FuncVal, ModRef, ModelFn)):
            return (l is r) if sym == "==" else (l is not r)
        return num_cmp(sym, l, r)

    def _type_error(self):
        raise PyRaise("TypeError")

    def contains(self, container, item):
        from .strings import SStr
        if isinstance(container, (str, SStr)):
            return SStr.contains(self, container, item)
        if isinstance(container, dict):
            if is_sym(item):
                return b_or(*[self.compare(ast.Eq(), item, k) for k in container])
            from .strings import SStr as _S
            if isinstance(item, _S):
                c = item.concrete_or_self()
                if isinstance(c, str):
                    return c in container
                return b_or(*[_S.compare(self, "==", item, k) for k in container if isinstance(k, str)])
            return self.hashable(item) in container
        if isinstance(container, (list, tuple, set, frozenset)):
            items = list(container)
            if not is_sym(item) and not isinstance(item, (Obj, NDArr)) and all(
                    not is_sym(x) and not isinstance(x, (Obj, NDArr)) for x in items):
                return item in items
            return b_or(*[self.truth(self.compare(ast.Eq(), item, x)) for x in items])
        if isinstance(container, SymRange):
            return b_and(num_cmp("<=", container.lo, item), num_cmp("<", item, container.hi))
        if isinstance(container, range):
            if is_sym(item):
                if container.step == 1:
                    return b_and(num_cmp("<=", container.start, item), num_cmp("<", item, container.stop))
                raise Unsupported("symbolic membership in stepped range")
            return item in container
        if isinstance(container, NDArr):
            return b_or(*[self.compare(ast.Eq(), item, x) for x in container.flat()])
        raise Unsupported(f"membership in {type(container).__name__}")

    def e_IfExp(self, e, fr):
        c = self.truth(self.eval(e.test, fr))
        c = simp(c) if is_sym(c) else c
        if not is_sym(c):
            return self.eval(e.body if c else e.orelse, fr)
        # evaluate both sides without forking when possible
        saved = (list(self.pc), self.fresh_count, list(self.cur_safety))
        self.no_fork = getattr(self, "no_fork", 0) + 1
        try:
            try:
                self.pc = saved[0] + [c]
                a = self.eval(e.body, fr)
                pa = self.pc[len(saved[0]) + 1:]
                self.pc = saved[0] + [simp(z3.Not(c))]
                b = self.eval(e.orelse, fr)
                pb = self.pc[len(saved[0]) + 1:]
                mv = self.merge_val(c, a, b, None)
            except (_NeedFork, PyRaise, Unsupported, _PathEnd):
                mv = _NOMERGE
        finally:
            self.no_fork -= 1
        if mv is not _NOMERGE:
            self.pc = saved[0] + [z3.Implies(c, z(x)) for x in pa] + [z3.Implies(z3.Not(c), z(x)) for x in pb]
            return mv
        self.pc, self.fresh_count, self.cur_safety = saved
        if self.decide(c):
            return self.eval(e.body, fr)
        return self.eval(e.orelse, fr)

    def e_Lambda(self, e, fr):
        return FuncVal(fr.mod, e, None, closure=fr.env)

    def e_Attribute(self, e, fr):
        base = self.eval(e.value, fr)
        return self.getattr(base, e.attr)

    def getattr(self, base, attr):
        from .strings import SStr, STR_METHODS
        if isinstance(base, Obj):
            if attr in base.fields:
                return base.fields[attr]
            p = self.find_prop(base.cls, attr)
            if p:
                return self.call_function(FuncVal(p[0].mod, p[1], p[0], bound=base), [], {})
            m = self.find_method(base.cls, attr)
            if m:
                cls, node = m
                if attr in cls.statics:
                    return FuncVal(cls.mod, node, cls)
                if attr in cls.classmethods:
                    return FuncVal(cls.mod, node, cls, bound=base.cls)
                return FuncVal(cls.mod, node, cls, bound=base)
            if attr == "__class__":
                return base.cls
            if attr in base.cls.attrs:
                v_ = self.eval(base.cls.attrs[attr], Frame(base.cls.mod, {}, base.cls))
                if type(v_).__name__ == "StaticFn":
                    return v_.fn
                if type(v_).__name__ == "PropVal":
                    return self.call(v_.fget, [base])
                if isinstance(v_, FuncVal) and v_.bound is None and isinstance(base.cls.attrs[attr], ast.Name):
                    return FuncVal(v_.mod, v_.node, v_.cls, bound=base, closure=getattr(v_, "closure", None))     # a plain function stored on the class is a method
                return v_
            raise PyRaise("AttributeError", attr)
        if isinstance(base, ClassVal):
            m = self.find_method(base, attr)
            if m:
                cls, node = m
                if attr in cls.classmethods:
                    return FuncVal(cls.mod, node, cls, bound=base)
                return FuncVal(cls.mod, node, cls)
            if attr == "__name__":
                return base.name
            if attr in base.attrs:
                v_ = self.eval(base.attrs[attr], Frame(base.mod, {}, base))
                return v_.fn if type(v_).__name__ == "StaticFn" else v_
            raise PyRaise("AttributeError", attr)
        if isinstance(base, ModRef):
            dotted = base.dotted + "." + attr
            if dotted in self.models:
                return self.models[dotted]
            if base.dotted.startswith("chmpy"):
                return self.resolve_import(dotted)
            # sub-module?
            if any(k.startswith(dotted + ".") for k in self.models):
                return ModRef(dotted)
            if base.dotted == "numpy" or base.dotted.startswith("numpy."):
                from .libmodels import native_numpy
                nn = native_numpy(dotted)
                if nn is not None:
                    return nn
            self.unmodelled.add(dotted)
            raise Unsupported(f"unmodelled library attribute {dotted}")
        if isinstance(base, NDArr):
            key = "ndarray." + attr
            if key in self.models:
                m = self.models[key]
                if getattr(m, "is_prop", False):
                    self.used_models.add(m.ident)
                    return m.fn(self, base)
                return BoundModel(m.ident, m.fn, base)
            raise Unsupported(f"ndarray.{attr}")
        if isinstance(base, (str, SStr)):
            if attr in STR_METHODS:
                return BoundModel("str." + attr, STR_METHODS[attr], base)
            raise Unsupported(f"str.{attr}")
        tname = type(base).__name__
        key = f"{tname}.{attr}"
        if key in self.models:
            m = self.models[key]
            if getattr(m, "is_prop", False):
                return m.fn(self, base)
            return BoundModel(m.ident, m.fn, base)
        if isinstance(base, PyRaise):
            return None
        if is_sym(base) or isinstance(base, (int, Fraction)):
            key = "scalar." + attr
            if key in self.models:
                m = self.models[key]
                if getattr(m, "is_prop", False):
                    return m.fn(self, base)
                return BoundModel(m.ident, m.fn, base)
        raise Unsupported(f"attribute {attr} of {tname}")

    def e_Call(self, e, fr):
        # special forms
        if isinstance(e.func, ast.Name) and e.func.id in ("hasattr", "getattr", "setattr", "delattr", "isinstance", "super") \
                and e.func.id not in fr.env:
            return self.special_call(e, fr)
        f = self.eval(e.func, fr)
        args = self._elts(e.args, fr)
        kwargs = {}
        for k in e.keywords:
            if k.arg is None:
                kwargs.update(self.eval(k.value, fr))
            else:
                kwargs[k.arg] = self.eval(k.value, fr)
        return self.call(f, args, kwargs)

    def special_call(self, e, fr):
        name = e.func.id
        args = [self.eval(a, fr) for a in e.args]
        if name == "hasattr":
            o, a = args
            if isinstance(o, Obj):
                return a in o.fields or bool(self.find_prop(o.cls, a)) or bool(self.find_method(o.cls, a))
            if isinstance(o, NDArr):
                return ("ndarray." + a) in self.models
            if is_sym(o) or isinstance(o, (int, Fraction, str)) or o is None:
                return False
            raise Unsupported("hasattr on " + type(o).__name__)
        if name == "getattr":
            try:
                return self.getattr(args[0], args[1])
            except PyRaise as ex:
                if len(args) == 3 and ex.exc_type == "AttributeError":
                    return args[2]
                raise
        if name == "setattr":
            o, a, v = args
            if not isinstance(o, Obj):
                raise Unsupported("setattr on non-object")
            o.fields[a] = v
            return None
        if name == "delattr":
            o, a = args
            if a not in o.fields:
                raise PyRaise("AttributeError")
            del o.fields[a]
            return None
        if name == "isinstance":
            return self.isinstance(args[0], e.args[1], fr)
        raise Unsupported(name)

    def isinstance(self, v, tnode, fr):
        from .strings import SStr
        if isinstance(tnode, ast.Tuple):
            return any(self.isinstance(v, t, fr) for t in tnode.elts)
        tname = ast.unparse(tnode)
        if isinstance(tnode, ast.Name) and tnode.id in fr.env:
            # the type is held in a local variable (e.g. taken from a table of (type, handler) pairs): decide by the value it holds
            tv = fr.env[tnode.id]
            if isinstance(tv, tuple):
                return any(self.isinstance(v, ast.Name(id=f"__t{k}"), Frame(fr.mod, {f"__t{k}": t_}, fr.cls)) for k, t_ in enumerate(tv))
            if isinstance(tv, ModelFn) and tv.ident.startswith("builtins."):
                tname = tv.ident.split(".", 1)[1]
            elif isinstance(tv, type):
                tname = tv.__name__
            elif not isinstance(tv, ClassVal):
                raise Unsupported(f"isinstance(.., {tname}) with a type object of kind {type(tv).__name__}")
        if isinstance(v, Obj):
            cv = None
            try:
                cv = self.eval(tnode, fr)
            except Unsupported:
                return False
            c = v.cls
            seen = [c]
            while seen:
                c = seen.pop()
                if c is cv:
                    return True
                seen.extend(self.bases(c))
            return False
        short = tname.split(".")[-1]
        if short in ("Integral", "int", "integer"):
            return (isinstance(v, int) and not (short == "int" and False)) or (is_sym(v) and z3.is_int(v))
        if short in ("float", "floating", "Real", "Number"):
            if short in ("Real", "Number"):
                return isinstance(v, (int, Fraction)) or (is_sym(v) and (z3.is_int(v) or z3.is_real(v)))
            return isinstance(v, Fraction) or (is_sym(v) and z3.is_real(v))
        if short == "str":
            return isinstance(v, (str, SStr)) or (is_sym(v) and z3.is_string(v))
        if short == "bool":
            return isinstance(v, bool) or (is_sym(v) and z3.is_bool(v))
        if short in ("list",):
            return isinstance(v, list)
        if short in ("tuple",):
            return isinstance(v, tuple)
        if short in ("dict",):
            return isinstance(v, dict)
        if short in ("ndarray",):
            return isinstance(v, NDArr)
        if short in ("Path", "PurePath"):
            return False
        raise Unsupported(f"isinstance(.., {tname})")

    def e_Subscript(self, e, fr):
        base = self.eval(e.value, fr)
        idx = self.eval_index(e.slice, fr)
        return self.subscript(base, idx)

    def eval_index(self, node, fr):
        if isinstance(node, ast.Slice):
            return slice(*(None if x is None else self.eval(x, fr) for x in (node.lower, node.upper, node.step)))
        if isinstance(node, ast.Tuple):
            return tuple(self.eval_index(x, fr) for x in node.elts)
        return self.eval(node, fr)

    def concrete_index(self, arr, idx):
        """Index usable directly on the numpy object array, or None if some component is symbolic."""
        def ok(i):
            if isinstance(i, slice):
                return all(x is None or (isinstance(x, int)) for x in (i.start, i.stop, i.step))
            if i is None or i is Ellipsis:
                return True
            if isinstance(i, (list,)) and all(isinstance(x, (int, bool)) for x in i):
                return True
            if isinstance(i, NDArr):
                return all(isinstance(x, (int, bool)) for x in i.flat())
            return isinstance(i, int) and not is_sym(i)
        parts = idx if isinstance(idx, tuple) else (idx,)
        if not all(ok(p) for p in parts):
            return None
        conv = []
        for p in parts:
            if isinstance(p, NDArr):
                vals = p.flat()
                if p.kind == "b" or all(isinstance(x, bool) for x in vals):
                    conv.append(np.array(vals, dtype=bool).reshape(p.shape))
                else:
                    conv.append(np.array(vals, dtype=int).reshape(p.shape))
            else:
                conv.append(p)
        return tuple(conv) if isinstance(idx, tuple) else conv[0]

    def subscript(self, base, idx):
        from .strings import SStr
        if type(base).__name__ == "IndexExprVal":
            return (idx,) if (base.always_tuple and not isinstance(idx, tuple)) else idx
        if isinstance(base, NDArr):
            cidx = self.concrete_index(base, idx)
            if cidx is not None:
                try:
                    r = base.data[cidx]
                except IndexError:
                    raise PyRaise("IndexError")
                if isinstance(r, np.ndarray):
                    return NDArr(r, base.kind)
                return r
            return self.symbolic_select(base, idx)
        if isinstance(base, (list, tuple)):
            if isinstance(idx, slice):
                if any(is_sym(x) for x in (idx.start, idx.stop, idx.step)):
                    raise Unsupported("symbolic slice of a sequence")
                return base[idx]
            if is_sym(idx):
                return self.select_seq(list(base), idx)
            if isinstance(idx, bool) or not isinstance(idx, int):
                raise PyRaise("TypeError", "sequence index must be an integer")
            if not -len(base) <= idx < len(base):
                raise PyRaise("IndexError")
            return base[idx]
        from .libmodels import DDict, _CStack, cstack
        if isinstance(base, _CStack):
            return cstack(self, list(idx) if isinstance(idx, tuple) else [idx])
        if isinstance(base, DDict) and not is_sym(idx):
            k = self.hashable(idx.concrete_or_self() if isinstance(idx, SStr) else idx)
            if k not in base:
                base[k] = self.call(base.factory, []) if base.factory is not None else None
            return base[k]
        if isinstance(base, dict):
            if isinstance(idx, SStr):
                idx = idx.concrete_or_self()
            if is_sym(idx) or isinstance(idx, SStr):
                return self.select_dict(base, idx)
            k = self.hashable(idx)
            if k not in base:
                raise PyRaise("KeyError", repr(k))
            return base[k]
        if isinstance(base, (str, SStr)):
            return SStr.subscript(self, base, idx)
        if isinstance(base, SymRange):
            raise Unsupported("subscript of symbolic range")
        if isinstance(base, Obj):
            m = self.find_method(base.cls, "__getitem__")
            if m:
                return self.call_function(FuncVal(m[0].mod, m[1], m[0], bound=base), [idx], {})
        if isinstance(base, ClassVal):
            # metaclass __getitem__ (Element[...])
            for kw in base.node.keywords:
                if kw.arg == "metaclass":
                    meta = self.class_of(base.mod, ast.unparse(kw.value))
                    m = self.find_method(meta, "__getitem__")
                    if m:
                        return self.call_function(FuncVal(m[0].mod, m[1], m[0], bound=base), [idx], {})
        raise Unsupported(f"subscript of {type(base).__name__}")

    def select_seq(self, items, idx):
        """items[idx] with Python's negative-index rule; out of range raises IndexError (forks)."""
        n = len(items)
        inr = b_and(num_cmp(">=", idx, -n), num_cmp("<", idx, n))
        if not self.decide(inr):
            raise PyRaise("IndexError")
        pos = simp(z3.If(idx < 0, idx + n, idx))
        return self.ite_chain(items, pos)

    def ite_chain(self, items, pos):
        """Value of items[pos] (0 <= pos < len) as nested ite; structured values are merged componentwise."""
        first = items[0]
        if isinstance(first, (tuple, list)) and all(isinstance(x, type(first)) and len(x) == len(first) for x in items):
            return type(first)(self.ite_chain([x[k] for x in items], pos) for k in range(len(first)))
        if isinstance(first, NDArr):
            raise Unsupported("symbolic selection of arrays")
        if all(not is_sym(x) and not isinstance(x, (NDArr, Obj)) and x == first for x in items):
            return first
        acc = z(items[-1]) if not isinstance(items[-1], Fraction) else z(items[-1])
        # unify numeric sorts
        if any(isinstance(x, Fraction) or (is_sym(x) and z3.is_real(x)) for x in items):
            conv = lambda v: z(to_real(v))
        else:
            conv = z
        acc = conv(items[-1])
        for k in range(len(items) - 2, -1, -1):
            acc = z3.If(pos == k, conv(items[k]), acc)
        return acc

    def symbolic_select(self, arr, idx):
        parts = idx if isinstance(idx, tuple) else (idx,)
        if len(parts) > arr.ndim:
            raise PyRaise("IndexError")
        # only integer components (symbolic or concrete); slices unsupported here
        if any(isinstance(p, slice) for p in parts):
            raise Unsupported("slice mixed with symbolic index")
        cur = [((), True)]
        data = arr.data
        def rec(d, ps):
            if not ps:
                return d if not isinstance(d, np.ndarray) else NDArr(d, arr.kind)
            p = ps[0]
            n = d.shape[0]
            if not is_sym(p):
                if not -n <= p < n:
                    raise PyRaise("IndexError")
                return rec(d[p], ps[1:])
            inr = b_and(num_cmp(">=", p, -n), num_cmp("<", p, n))
            if not self.decide(inr):
                raise PyRaise("IndexError")
            pos = simp(z3.If(p < 0, p + n, p))
            subs = [rec(d[k], ps[1:]) for k in range(n)]
            if isinstance(subs[0], NDArr):
                out = np.empty(subs[0].shape, dtype=object)
                for ix in np.ndindex(*subs[0].shape):
                    out[ix] = self.ite_chain([s.data[ix] for s in subs], pos)
                return NDArr(out, arr.kind)
            return self.ite_chain(subs, pos)
        return rec(data, list(parts))

    def select_dict(self, d, key):
        from .strings import SStr
        if isinstance(key, SStr):
            key = key.to_z3(self)
        keys = list(d)
        present = b_or(*[num_cmp("==", key, k) for k in keys])
        if not self.decide(present):
            raise PyRaise("KeyError")
        vals = [d[k] for k in keys]
        first = vals[0]
        def chain(vs):
            f0 = vs[0]
            if isinstance(f0, (tuple, list)) and all(isinstance(x, type(f0)) and len(x) == len(f0) for x in vs):
                return type(f0)(chain([x[i] for x in vs]) for i in range(len(f0)))
            conv = (lambda v: z(to_real(v))) if any(isinstance(x, Fraction) or (is_sym(x) and z3.is_real(x)) for x in vs) else z
            acc = conv(vs[-1])
            for k in range(len(vs) - 2, -1, -1):
                acc = z3.If(key == z(keys[k]), conv(vs[k]), acc)
            return acc
        return chain(vals)

    def e_Yield(self, e, fr):
        if not hasattr(fr, "yields"):
            raise Unsupported("yield outside a generator function the engine is running")
        fr.yields.append(self.eval(e.value, fr) if e.value is not None else None)
        return None

    def e_YieldFrom(self, e, fr):
        if not hasattr(fr, "yields"):
            raise Unsupported("yield from outside a generator function the engine is running")
        fr.yields.extend(self.iterate(self.eval(e.value, fr)))
        return None

    def e_ListComp(self, e, fr):
        return list(self.comprehension(e, fr, lambda f2: self.eval(e.elt, f2)))

    def e_GeneratorExp(self, e, fr):
        return list(self.comprehension(e, fr, lambda f2: self.eval(e.elt, f2)))

    def e_SetComp(self, e, fr):
        return set(self.comprehension(e, fr, lambda f2: self.hashable(self.eval(e.elt, f2))))

    def e_DictComp(self, e, fr):
        return dict(self.comprehension(e, fr, lambda f2: (self.hashable(self.eval(e.key, f2)), self.eval(e.value, f2))))

    def comprehension(self, e, fr, leaf):
        out = []
        f2 = Frame(fr.mod, dict(fr.env), fr.cls, fname=fr.fname, fnode=fr.fnode)
        def rec(gi):
            if gi == len(e.generators):
                out.append(leaf(f2))
                return
            g = e.generators[gi]
            for item in self.iterate(self.eval(g.iter, f2)):
                self.assign(g.target, item, f2)
                ok = True
                for cond in g.ifs:
                    c = self.truth(self.eval(cond, f2))
                    if not self.decide(c):
                        ok = False
                        break
                if ok:
                    rec(gi + 1)
        rec(0)
        return out

    def e_Starred(self, e, fr):
        raise Unsupported("starred expression")

    def e_Slice(self, e, fr):
        return self.eval_index(e, fr)

    # ---- helpers ------------------------------------------------------------------------------------
    def truth(self, v):
        from .strings import SStr
        if isinstance(v, bool):
            return v
        if is_sym(v):
            if z3.is_bool(v):
                return v
            if z3.is_string(v):
                return z3.Length(v) > 0
            if z3.is_bv(v):
                return v != 0
            return v != 0
        if v is None:
            return False
        if isinstance(v, (int, Fraction)):
            return v != 0
        if isinstance(v, (str, list, tuple, dict, set, range)):
            return len(v) > 0
        if isinstance(v, SStr):
            return num_cmp(">", v.length(), 0)
        if isinstance(v, NDArr):
            if v.data.size == 1:
                return self.truth(v.flat()[0])
            raise PyRaise("ValueError", "truth value of an array is ambiguous")
        return True

    def iterate(self, v, symbolic_ok=False):
        from .strings import SStr
        if isinstance(v, (list, tuple)):
            return list(v)
        if isinstance(v, GenIter):
            return v.rest()
        if isinstance(v, range):
            return list(v)
        if isinstance(v, (set, frozenset)):
            return sorted(v, key=repr)
        if isinstance(v, dict):
            return list(v.keys())
        if isinstance(v, str):
            return list(v)
        if isinstance(v, NDArr):
            if v.ndim == 0:
                raise PyRaise("TypeError", "iteration over a 0-d array")
            return [self.subscript(v, i) for i in range(v.shape[0])]
        if isinstance(v, SymRange):
            if symbolic_ok:
                return None
            raise Unsupported("iteration over symbolic range")
        if isinstance(v, SStr):
            c = v.concrete_or_self()
            if isinstance(c, str):
                return list(c)
        raise Unsupported(f"iteration over {type(v).__name__}")


_NOMERGE = object()


class _InPlace:
    pass


class SymRange:
    def __init__(self, lo, hi):
        self.lo, self.hi = lo, hi


class Frame:
    def __init__(self, mod, env, cls, fname=None, fnode=None):
        self.mod = mod
        self.env = env
        self.cls = cls
        self.fname = fname
        self.fnode = fnode
        self.globals_decl = set()
        if fname and fnode is None:
            # locate the function node for loop ordinals
            short = fname[len(mod.modname) + 1:]
            try:
                self.fnode = source.get_function(mod.modname, short).node
            except Exception:
                self.fnode = None


OPS = {ast.Add: "+", ast.Sub: "-", ast.Mult: "*", ast.Div: "/", ast.FloorDiv: "//", ast.Mod: "%", ast.Pow: "**",
       ast.LShift: "<<", ast.RShift: ">>", ast.BitAnd: "&", ast.BitOr: "|", ast.BitXor: "^", ast.MatMult: "@"}
CMP = {ast.Eq: "==", ast.NotEq: "!=", ast.Lt: "<", ast.LtE: "<=", ast.Gt: ">", ast.GtE: ">="}
