"""CPython cross-check of the symbolic executor (engine guard, DESIGN section 4).

For a function under contract the engine is run on CONCRETE arguments: every term folds to a constant, there is one path, and the
value (or the exception type) must agree with native execution of the real function on the same arguments.  A disagreement means the
executor or a library model misrepresents Python — a checker error (exit 3), never a property violation.  Inputs on which the engine
leaves a symbolic residue (e.g. an uninterpreted cos of a constant) or meets a construct outside its subset are counted as `skipped`,
not as agreement."""
from fractions import Fraction

import numpy as np
import z3

from .symex import Obj
from .values import Cx, NDArr, PyRaise, Unsupported, is_sym


class Residue(Exception):
    pass


def to_py(v, depth=0):
    """Engine value -> plain Python/numpy value (floats for rationals)."""
    from .strings import SStr
    if depth > 12:
        raise Residue("nesting")
    if v is None or isinstance(v, (bool, str, bytes)):
        return v
    if isinstance(v, int):
        return v
    if isinstance(v, Fraction):
        return float(v)
    if isinstance(v, float):
        return v
    if isinstance(v, SStr):
        c = v.concrete_or_self()
        if not isinstance(c, str):
            raise Residue("symbolic string")
        return c
    if isinstance(v, Cx):
        return complex(to_py(v.re, depth + 1), to_py(v.im, depth + 1))
    if is_sym(v):
        s = z3.simplify(v)
        if z3.is_int_value(s):
            return s.as_long()
        if z3.is_rational_value(s):
            return float(Fraction(s.numerator_as_long(), s.denominator_as_long()))
        if z3.is_true(s) or z3.is_false(s):
            return z3.is_true(s)
        if z3.is_string_value(s):
            return s.as_string()
        raise Residue(f"symbolic residue {str(s)[:60]}")
    if isinstance(v, NDArr):
        cells = [to_py(c, depth + 1) for c in v.flat()]
        try:
            return np.array(cells).reshape(v.shape)
        except Exception:
            return np.array(cells, dtype=object).reshape(v.shape)
    if isinstance(v, (list, tuple)):
        return type(v)(to_py(x, depth + 1) for x in v)
    if isinstance(v, dict):
        return {to_py(k, depth + 1): to_py(x, depth + 1) for k, x in v.items()}
    if isinstance(v, Obj):
        return {"__class__": v.cls.name if hasattr(v.cls, "name") else str(v.cls), **{k: to_py(x, depth + 1) for k, x in v.fields.items() if not k.startswith("__")}}
    raise Residue(f"value of type {type(v).__name__}")


def same(a, b, tol=1e-9, fields=None):
    """Structural comparison of an engine value (converted) with a native value."""
    if isinstance(a, dict) and "__class__" in a and not isinstance(b, dict):
        names = fields or [k for k in a if k != "__class__" and hasattr(b, k)]
        return all(same(a[k], getattr(b, k), tol) for k in names if k in a)
    if isinstance(b, np.generic):
        b = b.item()
    if isinstance(a, np.generic):
        a = a.item()
    if isinstance(a, bool) or isinstance(b, bool):
        return bool(a) == bool(b) and isinstance(a, (bool, int)) and isinstance(b, (bool, int))
    if isinstance(a, (int, float, complex)) and isinstance(b, (int, float, complex)):
        if isinstance(a, int) and isinstance(b, int):
            return a == b
        if isinstance(b, float) and (b != b):
            return a != a
        return abs(complex(a) - complex(b)) <= tol * max(1.0, abs(complex(b)))
    if isinstance(a, str) or isinstance(b, str):
        return isinstance(a, str) and isinstance(b, str) and a == b
    if a is None or b is None:
        return a is None and b is None
    if isinstance(a, np.ndarray) or isinstance(b, np.ndarray):
        try:
            A, B = np.asarray(a), np.asarray(b)
        except Exception:
            return False
        if A.shape != B.shape:
            return False
        if A.dtype == object or B.dtype == object or A.dtype.kind in "US" or B.dtype.kind in "US":
            return all(same(x, y, tol) for x, y in zip(A.reshape(-1).tolist(), B.reshape(-1).tolist()))
        return bool(np.all(np.abs(A.astype(complex) - B.astype(complex)) <= tol * np.maximum(1.0, np.abs(B.astype(complex)))))
    if isinstance(a, (list, tuple)) and isinstance(b, (list, tuple)):
        return len(a) == len(b) and all(same(x, y, tol) for x, y in zip(a, b))
    if isinstance(a, dict) and isinstance(b, dict):
        ka, kb = list(a), list(b)
        return len(ka) == len(kb) and all(k in b and same(a[k], b[k], tol) for k in ka)
    return a == b


def _default_to_engine(v):
    """Python floats become exact Fractions (the engine's representation of a float value); containers are converted element-wise."""
    if isinstance(v, bool) or v is None or isinstance(v, (int, str)):
        return v
    if isinstance(v, float):
        return Fraction(v)
    if isinstance(v, tuple):
        return tuple(_default_to_engine(x) for x in v)
    if isinstance(v, list):
        return [_default_to_engine(x) for x in v]
    if isinstance(v, dict):
        return {k: _default_to_engine(x) for k, x in v.items()}
    return v


def crosscheck(ctx, I, fsrc, native, cases, to_engine=None, fields=None, tol=1e-9, label=None):
    """cases: iterable of argument tuples (native values).  `to_engine(args)` converts them for the engine (default: unchanged; numpy
    arrays are wrapped by the caller).  -> (agree, skipped, total); disagreements are appended to ctx.checker_errors."""
    label = label or getattr(fsrc, "qualname", str(fsrc))
    agree = skipped = total = 0
    first_skip = None
    for args in cases:
        total += 1
        try:
            want, wexc = native(*args), None
        except Exception as e:  # noqa
            want, wexc = None, type(e).__name__
        try:
            eargs = list(to_engine(args) if to_engine else _default_to_engine(args))
            res = I.run(fsrc, eargs)
        except Unsupported as e:
            skipped += 1
            first_skip = first_skip or f"{args!r}: outside subset: {e}"
            continue
        if len(res) != 1:
            ctx.checker_errors.append(f"engine cross-check {label}{args!r}: {len(res)} paths on concrete arguments")
            continue
        r = res[0]
        if r.kind != "return":
            gexc = getattr(r.value, "exc_type", None) if isinstance(r.value, PyRaise) else None
            if wexc is not None and (gexc == wexc or (gexc in ("Exception",) )):
                agree += 1
            elif wexc is None or gexc is None:
                ctx.checker_errors.append(f"engine cross-check {label}{args!r}: engine path ends with {r.kind} {gexc}, CPython {'raises ' + wexc if wexc else 'returns ' + repr(want)[:80]}")
            else:
                # both raise, different type: tolerated only for subclasses of LookupError/ValueError families? no: report
                ctx.checker_errors.append(f"engine cross-check {label}{args!r}: engine raises {gexc}, CPython raises {wexc}")
            continue
        if wexc is not None:
            ctx.checker_errors.append(f"engine cross-check {label}{args!r}: engine returns, CPython raises {wexc}")
            continue
        try:
            got = to_py(r.value)
        except Residue as e:
            skipped += 1
            first_skip = first_skip or f"{args!r}: {e}"
            continue
        if same(got, want, tol, fields):
            agree += 1
        else:
            ctx.checker_errors.append(f"engine cross-check {label}{args!r}: engine {got!r:.160} != CPython {want!r:.160}")
    note = f"engine guard: {label}: symbolic executor on concrete arguments agrees with CPython on {agree}/{total} calls" + (f" ({skipped} skipped, e.g. {first_skip[:120]})" if skipped else "")
    ctx.notes.append(note)
    ctx.crosschecks = getattr(ctx, "crosschecks", [])
    ctx.crosschecks.append({"function": label, "calls": total, "agree": agree, "skipped": skipped})
    return agree, skipped, total
