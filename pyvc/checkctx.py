"""Check context: obligation registry, discharge, replay, known findings, evidence, exit codes.

Exit codes: 0 held (known findings printed) | 1 VIOLATION | 2 undecided | 3 checker error.
"""
import json
import os
import re
import sys
import time
import traceback

from . import solve, source
from .symex import Interp, Oblig
from .values import Unsupported, z

VERIF = os.path.dirname(os.path.dirname(os.path.abspath(__file__)))
_OUT = os.path.join(os.environ["CHMPY_VERIF_REPO"], ".verif_out") if os.environ.get("CHMPY_VERIF_REPO") else VERIF   # scratch runs never touch /verif
REPLAY_DIR = os.path.join(_OUT, "replays")
EVIDENCE_DIR = os.path.join(_OUT, "evidence")
KNOWN_FILE = os.path.join(VERIF, "known_findings.json")


class Record:
    """One obligation with its verdict."""

    def __init__(self, ident, tag, clause):
        self.ident = ident
        self.tag = tag              # P G F L (counted) | B (bounded stand-in, never counted as proved)
        self.clause = clause
        self.verdict = None         # proved | refuted | unknown | error
        self.backend = None
        self.seconds = 0.0
        self.model = None
        self.why = ""
        self.replay = None          # callable(model) -> dict(native_inputs, reproduced, observed)
        self.smt2 = None
        self.opts = {}
        self.detail = None
        self.fn = None


class CheckContext:
    def __init__(self, prop, tier="quick", seed=0):
        self.prop = prop
        self.tier = tier
        self.seed = seed
        self.records = []
        self.by_id = {}
        self.functions = {}
        self.trusted = set()
        self.assumptions = []
        self.unmodelled = set()
        self.outside_subset = []
        self.bounded = []
        self.notes = []
        self.t0 = time.time()
        self.level = "other"
        self.explanation = ""
        self.violations = []
        self.known_printed = []
        self.samples = []
        self.checker_errors = []

    # ---- sources -------------------------------------------------------------------------------------
    def fn(self, modname, name):
        f = source.get_function(modname, name)
        self.functions[f.qualname] = f.describe()
        return f

    def interp(self, **kw):
        # a contract is keyed by the qualified name of the function it stands for; if that function has been moved to another module of the package
        # (and imported back under the old name) the contract follows it to where it is defined now
        if kw.get("contracts"):
            cs = dict(kw["contracts"])
            for key, con in list(cs.items()):
                parts = key.split(".")
                for cut in range(len(parts) - 1, 0, -1):
                    modname, name = ".".join(parts[:cut]), ".".join(parts[cut:])
                    try:
                        source.module_path(modname)
                    except FileNotFoundError:
                        continue
                    try:
                        q = source.get_function(modname, name).qualname
                        if q != key:
                            cs.setdefault(q, con)
                    except (KeyError, FileNotFoundError):
                        pass
                    break
            kw["contracts"] = cs
        I = Interp(**kw)
        self._interps = getattr(self, "_interps", [])
        self._interps.append(I)
        return I

    def absorb(self, I):
        self.trusted.update("model:" + m for m in I.used_models)
        self.unmodelled.update(I.unmodelled)
        for qn, f in I.functions_seen.items():
            self.functions[qn] = f.describe()

    # ---- registering obligations ----------------------------------------------------------------------
    def _new(self, ident, tag, clause):
        if ident in self.by_id:
            k = 2
            while f"{ident}#{k}" in self.by_id:
                k += 1
            ident = f"{ident}#{k}"
        r = Record(ident, tag, clause)
        self.records.append(r)
        self.by_id[ident] = r
        return r

    def prove(self, ident, hyps, goal, clause="", tag="P", replay=None, fn=None, split=True, **opts):
        """Register hyps |- goal.  A conjunctive goal is split into one obligation per conjunct (ident/c<k>)."""
        import z3
        goal = z(goal)
        if split and z3.is_and(goal) and goal.num_args() > 1:
            out = []
            for k, g in enumerate(goal.children()):
                out.append(self.prove(f"{ident}/c{k}", hyps, g, clause=clause, tag=tag, replay=replay, fn=fn, split=False, **dict(opts)))
            return out
        r = self._new(f"{self.prop}/{ident}", tag, clause)
        r.replay = replay
        r.fn = fn
        # `[] |- False` is not a verification condition of the code: a contract uses it to say "the symbolic run did not have the shape I expected" (e.g. no
        # normally returning path).  The solver "refuting" it carries no information about the code, so the obligation's run-time replay decides (see finish()).
        forced = opts.pop("structural", None)          # a contract may state that `pc |- False` IS its verdict (e.g. "this path returns the stale object itself")
        r.structural = (len(hyps) == 0 and z3.is_false(goal)) if forced is None else bool(forced)
        if opts.pop("algebra", False) and z3.is_eq(goal):
            from . import cert
            try:
                c = cert.certify_equation([z(h) for h in hyps], goal.arg(0), goal.arg(1))
            except Exception as e:  # noqa
                c = {"ok": False, "why": f"certificate engine: {e!r}"}
            r.detail = {k: v for k, v in c.items() if k != "ok"}
            if c["ok"]:
                r.verdict, r.backend, r.seconds = "proved", "algebraic-certificate(exact check)", c.get("seconds", 0.0)
                return r
            opts.setdefault("timeout_ms", 15000)
            opts.setdefault("cvc5_timeout_s", 15)
        try:
            r.smt2 = solve.to_smt2(hyps, goal)
        except Exception as e:  # noqa
            r.verdict = "error"
            r.why = f"encoding: {e}"
        r.opts = opts
        r.replay = replay
        r.fn = fn
        return r

    def safety(self, label, results, replay=None, fn=None):
        """Turn the safety obligations collected on the paths of a run into named obligations."""
        n = {}
        for res in results:
            for kind, pc, goal, note in getattr(res, "safety", []):
                n[kind] = n.get(kind, 0) + 1
                self.prove(f"{label}/safe/{kind}/{n[kind]}", pc, goal, clause=f"{kind} {note}".strip(), replay=replay, fn=fn)

    def ground(self, ident, ok, clause="", detail=None, tag="G", seconds=0.0, witness=None, fn=None):
        """A closed obligation decided by exact evaluation (complete over its finite domain)."""
        r = self._new(f"{self.prop}/{ident}", tag, clause)
        r.verdict = "proved" if ok else "refuted"
        r.backend = "exact-evaluation" if tag == "G" else ("frame-checker" if tag == "F" else "exact")
        r.seconds = seconds
        r.detail = detail
        r.fn = fn
        if not ok:
            r.model = witness
            r.native = {"reproduced": True, "native_inputs": witness, "observed": detail}
        return r

    def prove_identity(self, ident, goals, hyps, clause="", sampler=None, replay=None, fn=None, samples=12):
        """Polynomial identity obligation: every term of `goals` is 0 whenever every term of `hyps` is 0.

        Proved by an algebraic certificate goal = sum q_i h_i (found heuristically, checked with exact polynomial
        arithmetic).  If no certificate is found, `sampler(k)` supplies exact rational points ON the variety of the
        hypotheses; a point where a goal does not vanish is a counter-model (refuted); otherwise undecided.
        """
        import z3
        from . import cert
        t0 = time.time()
        r = self._new(f"{self.prop}/{ident}", "P", clause)
        r.fn = fn
        r.replay = replay
        try:
            hp = [cert.z3_to_poly(z3.simplify(z(h))) if not isinstance(h, cert.Poly) else h for h in hyps]
            gp = [cert.z3_to_poly(z3.simplify(z(g))) if not isinstance(g, cert.Poly) else g for g in goals]
        except cert.NotPolynomial as e:
            r.verdict, r.why = "unknown", f"not polynomial: {e}"
            return r
        detail, ok = [], True
        for k, g in enumerate(gp):
            c = cert.prove_in_ideal(g, hp)
            detail.append({"goal": k, **{a: b for a, b in c.items() if a != "ok"}})
            ok = ok and c["ok"]
        r.detail = detail
        r.seconds = round(time.time() - t0, 3)
        if ok:
            r.verdict, r.backend = "proved", "algebraic-certificate(exact check)"
            return r
        if sampler is not None:
            for k in range(samples):
                env = sampler(k)
                for gi, g in enumerate(gp):
                    v = cert.eval_poly(g, env)
                    if v != 0:
                        r.verdict, r.backend = "refuted", "exact rational evaluation on the hypothesis variety"
                        r.model = {n: str(x) for n, x in env.items()}
                        r.why = f"goal {gi} evaluates to {v} at a point satisfying the hypotheses"
                        return r
        r.verdict, r.why = "unknown", "no certificate found and no counter-model on the sampled points"
        return r

    def pattern(self, ident, ok, clause="", fallback=None, detail=None, fn=None):
        """A syntactic obligation (tag F) that recognises a specific shape of the source.  If the shape is present the obligation is
        discharged.  If it is NOT present that is not evidence of a defect (the code may have been refactored): the clause is then
        decided by `fallback()` — a run-time contract on the real code returning None or a failure dict — and is reported as a
        bounded stand-in (never counted as proved) instead of raising an alarm on a harmless edit."""
        if ok:
            return self.ground(ident, True, clause=clause, detail=detail, tag="F", fn=fn)
        self.notes.append(f"{self.prop}/{ident}: source shape not recognised; clause decided by its run-time fall-back")
        fail = None
        if fallback is not None:
            try:
                fail = fallback()
            except Exception as e:  # noqa
                fail = {"input": "fall-back run", "observed": {"exception": repr(e)[:300]}}
        if fail is None and fallback is None:
            return self.undecided(ident, "source shape not recognised and no run-time fall-back", clause)
        fails = []
        if fail:
            fails.append({"input": fail.get("input", fail.get("native_inputs")), "observed": fail.get("observed"), "clause": clause, "key": "pattern-fallback"})
        self.add_bounded(ident + "/fallback", "run-time fall-back of a syntactic obligation whose source shape was not recognised", 1, 1, fails)
        return None

    def undecided(self, ident, why, clause=""):
        r = self._new(f"{self.prop}/{ident}", "P", clause)
        r.verdict = "unknown"
        r.why = why
        return r

    def attempt(self, ident, thunk, clause="", replay=None, fn=None):
        """Run an obligation generator; a construct outside the subset makes the obligation undecided.  A fixed-column slice
        that cannot be shown to align with the written fields becomes the obligation 'the field is aligned' (decided by the solver)."""
        from .strings import MisalignedSlice
        try:
            return thunk()
        except MisalignedSlice as e:
            if e.pc is not None and e.cond is not None:
                return self.prove(ident + "/aligned", e.pc, e.cond, clause=f"reader slice [{e.lo}:{e.hi}] aligns with the written fields ({e.seg!r} at offset {e.off})",
                                  replay=replay, fn=fn)
            self.outside_subset.append({"obligation": f"{self.prop}/{ident}", "reason": str(e)})
            return self.undecided(ident, f"outside subset: {e}", clause)
        except Unsupported as e:
            if os.environ.get("PYVC_DEBUG"):
                traceback.print_exc()
            self.outside_subset.append({"obligation": f"{self.prop}/{ident}", "reason": str(e)})
            r_ = self.undecided(ident, f"outside subset: {e}", clause)
            r_.replay, r_.fn = replay, fn          # an undecided obligation still consults its run-time replay (a failing input on the real code is a violation)
            return r_
        except Exception as e:  # engine failure: undecided, never a violation
            tb = traceback.format_exc()
            self.outside_subset.append({"obligation": f"{self.prop}/{ident}", "reason": f"engine error: {e!r}"})
            self.checker_errors.append(tb)
            return self.undecided(ident, f"engine error: {e!r}", clause)

    def add_bounded(self, ident, domain, evaluations, distinct, failures, samples=None, rule=""):
        """Result of a bounded run-time stand-in.  failures: list of dict(input=..., observed=...)."""
        b = {"id": f"{self.prop}/{ident}", "domain": domain, "evaluations": int(evaluations), "distinct_nontrivial": int(distinct),
             "failures": len(failures), "rule": rule}
        self.bounded.append(b)
        if samples:
            self.samples.extend(samples[:3])
        for f in failures:
            r = self._new(f"{self.prop}/{ident}", "B", f.get("clause", domain))
            r.verdict = "refuted"
            r.backend = "runtime-contract"
            r.model = f.get("input")
            r.native = {"reproduced": True, "native_inputs": f.get("input"), "observed": f.get("observed")}
            r.case_key = f.get("key")
        return b

    # ---- discharge ------------------------------------------------------------------------------------
    def discharge(self):
        jobs = [(r.ident, r.smt2, r.opts) for r in self.records if r.verdict is None and r.smt2 is not None]
        res = solve.discharge(jobs)
        for r in self.records:
            if r.ident in res:
                r.verdict, r.model, r.backend, r.seconds, r.why, r.tried = res[r.ident]

    # ---- finish ---------------------------------------------------------------------------------------
    def load_known(self):
        if not os.path.exists(KNOWN_FILE):
            return []
        data = json.load(open(KNOWN_FILE))
        return [e for e in data.get("open", []) if e.get("property") == self.prop]

    def finish(self):
        self.discharge()
        for I in getattr(self, "_interps", []):
            self.absorb(I)
        known = self.load_known()
        exit_code = 0
        os.makedirs(REPLAY_DIR, exist_ok=True)
        lines = []
        undecided = []
        for r in self.records:
            if r.verdict == "proved":
                continue
            native = getattr(r, "native", None)
            if r.verdict in ("unknown", "error", None):
                # the solver did not decide the obligation: it stays undecided UNLESS its run-time replay (seeded search over the obligation's own
                # input family on the real code) exhibits a failing input — that is a violation shown on the real code, not a verdict inferred from a timeout
                found = None
                if r.replay is not None and r.verdict == "unknown":
                    try:
                        found = r.replay({})
                    except Exception:  # noqa
                        found = None
                if not (found and found.get("reproduced")):
                    undecided.append(r)
                    continue
                native = found
                r.why = f"solver: {r.why or 'undecided'}; failing input found by the obligation's run-time replay on the real code"
                r.backend = (r.backend or "") + "+native-replay"
                r.verdict = "refuted"
            # refuted
            if native is None and r.replay is not None:
                try:
                    native = r.replay({k: solve.parse_model_value(v) for k, v in (r.model or {}).items()})
                except Exception as e:  # replay harness failure
                    native = {"reproduced": False, "error": f"replay harness failed: {e!r}", "trace": traceback.format_exc()[-800:]}
            reproduced = bool(native and native.get("reproduced"))
            if getattr(r, "structural", False) and r.replay is not None and not reproduced:
                # the symbolic run was not of the expected shape, and the real code passes the obligation's replay family: an executor / model limitation (undecided),
                # not a violation -- a failed proof attempt is never reported as a property violation
                r.verdict = "unknown"
                r.why = "the symbolic run did not have the shape the contract expects (no returning path / unexpected forks); the real code passes the run-time replay of this obligation"
                undecided.append(r)
                continue
            kf = self.match_known(known, r, native)
            if kf is not None:
                msg = f"KNOWN-FINDING: property={self.prop} {kf.get('what', r.ident)}"
                if msg not in lines:
                    lines.append(msg)
                self.known_printed.append(kf.get("id", r.ident))
                r.known = True
                continue
            path = os.path.join(REPLAY_DIR, f"{self.prop}-{_safe(r.ident)}.json")
            doc = {"property_id": self.prop, "obligation": r.ident, "tag": r.tag, "clause": r.clause,
                   "function": r.fn.describe() if r.fn is not None and hasattr(r.fn, "describe") else r.fn,
                   "solver": r.backend, "verdict": "refuted", "model": r.model, "verifier_output": getattr(r, "tried", None) or r.why,
                   "native": native, "reproduced": reproduced, "seed": self.seed,
                   "replay_cmd": f"./check {self.prop} --replay {path}"}
            json.dump(doc, open(path, "w"), indent=1, default=str)
            suffix = "" if reproduced else " no-failing-input-found"
            lines.append(f"VIOLATION property={self.prop} replay={path}{suffix}")
            self.violations.append(r.ident)
            exit_code = 1
        if undecided and exit_code == 0:
            exit_code = 2
        for r in undecided:
            lines.append(f"UNDECIDED property={self.prop} obligation={r.ident} reason={r.why[:160]}")
        if self.checker_errors and exit_code == 0:
            exit_code = 3
        for e_ in self.checker_errors[:6]:
            last = " ".join(str(e_).split())
            last = last if len(last) <= 700 else last[:400] + " ... " + last[-280:]
            lines.append(f"CHECKER-ERROR property={self.prop} {last}")
            self.notes.append("checker error: " + last)
        counted = [r for r in self.records if r.tag in ("P", "G", "F", "L")]
        if not counted and exit_code == 0:
            lines.append(f"CHECKER-ERROR property={self.prop} zero obligations generated")
            exit_code = 3
        self.write_evidence(counted, undecided)
        for l in lines:
            print(l)
        n_ok = sum(1 for r in counted if r.verdict == "proved")
        print(f"[{self.prop}] tier={self.tier} obligations={len(counted)} discharged={n_ok} bounded={len(self.bounded)} "
              f"violations={len(self.violations)} undecided={len(undecided)} wall={time.time() - self.t0:.1f}s exit={exit_code}")
        return exit_code

    def match_known(self, known, r, native):
        for k in known:
            if k.get("obligation") and k["obligation"] != r.ident:
                continue
            if k.get("obligation_regex") and not re.fullmatch(k["obligation_regex"], r.ident):
                continue
            if k.get("case_key") is not None and k["case_key"] != getattr(r, "case_key", None):
                continue
            return k
        return None

    def write_evidence(self, counted, undecided):
        os.makedirs(EVIDENCE_DIR, exist_ok=True)
        by_tag = {}
        backends = {}
        for r in counted:
            by_tag[r.tag] = by_tag.get(r.tag, 0) + 1
            if r.verdict == "proved":
                b = backends.setdefault(r.backend or "?", {"obligations": 0, "solver_s": 0.0})
                b["obligations"] += 1
                b["solver_s"] = round(b["solver_s"] + (r.seconds or 0), 3)
        samples = [{"id": r.ident, "tag": r.tag, "clause": r.clause, "verdict": r.verdict, "backend": r.backend,
                    "solver_s": r.seconds} for r in counted[:: max(1, len(counted) // 8)][:10]]
        samples += self.samples[:6]
        ev_b = sum(b["evaluations"] for b in self.bounded)
        dn_b = sum(b["distinct_nontrivial"] for b in self.bounded)
        n_ok = sum(1 for r in counted if r.verdict == "proved")
        cov = {
            "obligations": len(counted),
            "discharged": n_ok,
            "checker_cmd": f"./check {self.prop} --tier {self.tier}",
            "trusted_base": sorted(self.trusted),
            "by_tag": by_tag,
            "backends": backends,
            "functions_under_contract": sorted(self.functions.values(), key=lambda d: d["qualname"]),
            "obligation_list": [{"id": r.ident, "tag": r.tag, "verdict": r.verdict, "backend": r.backend, "solver_s": r.seconds,
                                 "known_finding": bool(getattr(r, "known", False))} for r in self.records if r.tag != "B"],
            "bounded": self.bounded,
            "samples": samples or [{"note": "no obligations"}],
            "unmodelled_calls": sorted(self.unmodelled),
            "outside_subset": self.outside_subset,
            "undecided": [r.ident for r in undecided],
            "known_findings": self.known_printed,
            "explanation": self.explanation,
            "exhaustive": False,
            "notes": self.notes,
            "engine_crosscheck": getattr(self, "crosschecks", []),     # symbolic executor on concrete arguments vs CPython, per function (calls / agree / skipped)
        }
        if self.bounded:
            cov["evaluations"] = max(1, ev_b)
            cov["distinct_nontrivial"] = dn_b
            cov["rule"] = "; ".join(f"{b['id']}: {b['rule'] or b['domain']}" for b in self.bounded)[:3000]
        doc = {"property_id": self.prop, "tier": self.tier, "seed": int(self.seed), "level": self.level, "coverage": cov,
               "assumptions": self.assumptions, "wall_s": round(time.time() - self.t0, 2), "violations": len(self.violations)}
        json.dump(doc, open(os.path.join(EVIDENCE_DIR, f"{self.prop}.json"), "w"), indent=1, default=str)


def _safe(s):
    return "".join(c if c.isalnum() or c in "._-" else "_" for c in s)[-150:]
