"""Library models: assumed contracts (tag A) on builtins / numpy / math / fractions.

Each model has a stable id; the ids actually used by a run are written to the evidence (`trusted_base`).
Floats are mathematical reals throughout.
"""
from fractions import Fraction
import itertools
import numpy as np
import z3

from .values import (Cx, NDArr, PyRaise, Unsupported, b_and, b_ite, b_not, b_or, is_sym, num_binop, num_cmp, simp, to_frac, cx_binop,
                     z, obj_array, coerce_cell, arr_kind_of, elementwise, to_real, trunc_to_int)

MODELS = {}


def model(*names, prop=False):
    def deco(fn):
        from .symex import ModelFn
        for n in names:
            m = ModelFn(n, fn)
            m.is_prop = prop
            MODELS[n] = m
        return fn
    return deco


def as_arr(v, kind=None):
    if isinstance(v, NDArr):
        return v
    if isinstance(v, (list, tuple)):
        d = obj_array(v)
        return NDArr(d, kind or arr_kind_of(d.reshape(-1)))
    d = np.empty((), dtype=object)
    d[()] = v if is_sym(v) else to_frac(v)
    return NDArr(d, kind or arr_kind_of([d[()]]))


def dtype_kind(dtype, default="f"):
    if dtype is None:
        return default
    if isinstance(dtype, np.dtype):
        return {"i": "i", "u": "i", "b": "b", "f": "f", "c": "c"}.get(dtype.kind, "o")
    ident = getattr(dtype, "ident", None)
    if ident is not None:
        return {"builtins.bool": "b", "builtins.int": "i", "builtins.float": "f", "builtins.complex": "c", "builtins.str": "o", "builtins.object": "o",
                "numpy.float64": "f", "numpy.float32": "f"}.get(ident, default)
    name = getattr(dtype, "tag", None) or str(dtype)
    if "int" in name:
        return "i"
    if "bool" in name:
        return "b"
    if "complex" in name:
        return "c"
    if "float" in name or "double" in name:
        return "f"
    if "obj" in name:
        return "o"
    return default


class DType:
    def __init__(self, tag):
        self.tag = tag

    def __repr__(self):
        return self.tag


for _t in ("float64", "float32", "float", "double", "int32", "int64", "int", "uint8", "bool", "bool_", "object", "intp",
           "complex128"):
    MODELS["numpy." + _t] = DType(_t)


def _scalar_or_arr(d, kind):
    if isinstance(d, np.ndarray):
        return NDArr(d, kind)
    return d


# ---- builtins -----------------------------------------------------------------------------------
@model("builtins.len")
def _len(I, v):
    from .strings import SStr
    if isinstance(v, NDArr):
        if v.ndim == 0:
            raise PyRaise("TypeError")
        return v.shape[0]
    if isinstance(v, SStr):
        return v.length()
    if isinstance(v, (list, tuple, dict, str, set, range)):
        return len(v)
    from .symex import Obj, FuncVal
    if isinstance(v, Obj):
        m = I.find_method(v.cls, "__len__")
        if m:
            return I.call_function(FuncVal(m[0].mod, m[1], m[0], bound=v), [], {})
    raise Unsupported(f"len of {type(v).__name__}")


@model("builtins.range")
def _range(I, *a):
    from .symex import SymRange
    if all(isinstance(x, int) and not is_sym(x) for x in a):
        return range(*a)
    if len(a) == 1:
        return SymRange(0, a[0])
    if len(a) == 2:
        return SymRange(a[0], a[1])
    raise Unsupported("symbolic stepped range")


@model("builtins.enumerate")
def _enumerate(I, it, start=0):
    return [(start + i, x) for i, x in enumerate(I.iterate(it))]


class CountIter:
    """itertools.count(start, step): an unbounded arithmetic progression; only meaningful next to a finite iterable (zip) or with islice."""

    def __init__(self, start=0, step=1):
        self.start, self.step = start, step

    def take(self, n):
        return [num_binop("+", self.start, num_binop("*", k, self.step)) if (is_sym(self.start) or is_sym(self.step)) else self.start + k * self.step for k in range(n)]


@model("itertools.count")
def _it_count(I, start=0, step=1):
    return CountIter(start, step)


@model("builtins.zip")
def _zip(I, *its):
    finite = [I.iterate(x) for x in its if not isinstance(x, CountIter)]
    if not finite:
        raise Unsupported("zip of unbounded iterators only")
    n = min(len(f) for f in finite)
    cols = [x.take(n) if isinstance(x, CountIter) else I.iterate(x) for x in its]
    return [tuple(t) for t in zip(*cols)]


_MISSING = object()


@model("builtins.next")
def _next(I, it, default=_MISSING):
    """next() of a generator expression / iterator the engine has materialised: its first element (generator expressions are evaluated eagerly; the
    conditions of the elements before the first hit are the same ones a lazy evaluation would test)."""
    from .symex import GenIter
    if isinstance(it, GenIter):
        if it.pos < len(it.items) or default is _MISSING:
            return it.take()
        return default
    items = I.iterate(it)
    if items:
        return items[0]
    if default is _MISSING:
        raise PyRaise("StopIteration", "")
    return default


class StaticFn:
    """staticmethod(f) stored as a class attribute: reading it through the class or an instance gives f itself (no receiver is bound)."""

    def __init__(self, fn):
        self.fn = fn


class PropVal:
    """property(fget) built by a call (e.g. by a factory function) and stored as a class attribute: reading it through an instance calls fget(instance)."""

    def __init__(self, fget):
        self.fget = fget


@model("builtins.property")
def _property(I, fget=None, fset=None, fdel=None, doc=None):
    if fget is None or fset is not None or fdel is not None:
        raise Unsupported("property() with a setter / deleter or without a getter")
    return PropVal(fget)


@model("builtins.staticmethod")
def _staticmethod(I, f):
    return StaticFn(f)


@model("builtins.slice")
def _slice(I, *a):
    return slice(*a)


class IndexExprVal:
    """numpy.s_ / numpy.index_exp: subscripting returns the index itself."""

    def __init__(self, always_tuple=False):
        self.always_tuple = always_tuple


MODELS["numpy.s_"] = IndexExprVal(False)
MODELS["numpy.index_exp"] = IndexExprVal(True)


@model("builtins.list")
def _list(I, it=()):
    return list(I.iterate(it))


@model("builtins.tuple")
def _tuple(I, it=()):
    return tuple(I.iterate(it))


@model("builtins.set")
def _set(I, it=()):
    return set(I.hashable(x) for x in I.iterate(it))


@model("builtins.dict")
def _dict(I, it=None, **kw):
    d = {}
    if it is not None:
        if isinstance(it, dict):
            d.update(it)
        else:
            for k, v in I.iterate(it):
                d[I.hashable(k)] = v
    d.update(kw)
    return d


@model("builtins.abs", "numpy.abs", "numpy.fabs", "numpy.absolute")
def _abs(I, v):
    if isinstance(v, (list, tuple)):
        v = as_arr(v)
    if isinstance(v, NDArr):
        return NDArr(elementwise(lambda x: _abs(I, x), v), v.kind)
    if is_sym(v):
        return z3.If(v >= 0, v, -v)
    return abs(to_frac(v))


@model("builtins.int")
def _int(I, v=0, base=None):
    from .strings import SStr, parse_int
    if isinstance(v, (str, SStr)):
        return parse_int(I, v)
    if isinstance(v, NDArr) and v.data.size == 1:
        v = v.flat()[0]
    if isinstance(v, bool):
        return int(v)
    if is_sym(v) and z3.is_bool(v):
        return z3.If(v, z3.IntVal(1), z3.IntVal(0))
    return trunc_to_int(v)


@model("builtins.float", "numpy.float64", "numpy.float32")
def _float(I, v=0):
    from .strings import SStr, parse_float
    if isinstance(v, (str, SStr)):
        return parse_float(I, v)
    if isinstance(v, NDArr) and v.data.size == 1:
        v = v.flat()[0]
    return to_real(v)


@model("builtins.bool")
def _bool(I, v=False):
    return I.truth(v)


@model("builtins.format")
def _format(I, v, spec=""):
    """format(value, spec): the same formatting an f-string replacement field {value:spec} performs."""
    from .strings import SStr, fmt_value
    if isinstance(spec, SStr):
        spec = spec.concrete()
    if not isinstance(spec, str):
        raise Unsupported("format() with a non-literal format specification")
    return fmt_value(I, v, spec, None)


@model("builtins.str")
def _str(I, v=""):
    from .strings import SStr, fmt_value
    if isinstance(v, (str, SStr)):
        return v
    return fmt_value(I, v, "", "s")


@model("builtins.repr")
def _repr(I, v):
    from .strings import fmt_value
    return fmt_value(I, v, "", "r")


@model("builtins.print")
def _print(I, *a, **k):
    return None


@model("builtins.sum")
def _sum(I, it, start=0):
    acc = start
    for x in I.iterate(it):
        acc = I.binop("+", acc, x)
    return acc


def _minmax(I, args, kw, op):
    key = kw.get("key")
    items = I.iterate(args[0]) if len(args) == 1 else list(args)
    if not items:
        if "default" in kw:
            return kw["default"]
        raise PyRaise("ValueError")
    keyed = [(I.call(key, [x]) if key else x, x) for x in items]
    bk, bv = keyed[0]
    for k, v in keyed[1:]:
        c = num_cmp(op, k, bk)
        c = simp(c) if is_sym(c) else c
        if is_sym(c):
            if key:
                raise Unsupported("symbolic min/max with key")
            bk = b_ite(c, k, bk)
            bv = bk
        elif c:
            bk, bv = k, v
    return bv


@model("builtins.min")
def _min(I, *a, **kw):
    return _minmax(I, a, kw, "<")


@model("builtins.max")
def _max(I, *a, **kw):
    return _minmax(I, a, kw, ">")


@model("builtins.sorted")
def _sorted(I, it, key=None, reverse=False):
    items = I.iterate(it)
    if key is not None:
        keyed = [(I.call(key, [x]), x) for x in items]
    else:
        keyed = [(x, x) for x in items]
    # insertion sort using the interpreter's comparison; needs concrete outcomes
    out = []
    import ast as _ast
    for k, v in keyed:
        pos = len(out)
        for j, (k2, _) in enumerate(out):
            c = I.truth(I.compare(_ast.Lt(), k, k2))
            c = simp(c) if is_sym(c) else c
            if is_sym(c):
                raise Unsupported("sorting symbolic keys")
            if c:
                pos = j
                break
        out.insert(pos, (k, v))
    res = [v for _, v in out]
    if reverse:
        res.reverse()
    return res


@model("builtins.reversed")
def _reversed(I, it):
    return list(reversed(I.iterate(it)))


@model("builtins.any", "numpy.any")
def _any(I, it, axis=None):
    if axis is not None:
        raise Unsupported("any(axis=)")
    items = it.flat() if isinstance(it, NDArr) else I.iterate(it)
    return b_or(*[I.truth(x) for x in items])


@model("builtins.all", "numpy.all")
def _all(I, it, axis=None):
    if axis is not None:
        raise Unsupported("all(axis=)")
    items = it.flat() if isinstance(it, NDArr) else I.iterate(it)
    return b_and(*[I.truth(x) for x in items])


@model("builtins.round")
def _round(I, v, nd=None):
    if nd is None:
        return round_half_even_int(I, v)
    if not is_sym(v) and not is_sym(nd):
        return Fraction(round(Fraction(v), nd))
    if not is_sym(nd):
        scale = 10 ** nd
        k = round_half_even_int(I, num_binop("*", v, scale))
        return num_binop("/", to_real(k), scale)
    raise Unsupported("round with symbolic digits")


def round_half_even_int(I, v):
    """round(v) (ties to even) as an Int term: f = floor(v + 1/2), minus one at an exact tie when f is odd."""
    if not is_sym(v):
        return round(Fraction(v))
    if z3.is_int(v):
        return v
    s = z3.simplify(v)
    if z3.is_app_of(s, z3.Z3_OP_TO_REAL):
        return s.arg(0)
    f = z3.ToInt(v + z3.RealVal("1/2"))
    tie = z3.ToReal(f) == v + z3.RealVal("1/2")
    return z3.If(z3.And(tie, f % 2 != 0), f - 1, f)


@model("builtins.ValueError", "builtins.TypeError", "builtins.KeyError", "builtins.IndexError",
       "builtins.NotImplementedError", "builtins.RuntimeError", "builtins.Exception", "builtins.AttributeError")
def _exc(I, *a, **k):
    return ("exception", a)


@model("builtins.chr")
def _chr(I, v):
    return chr(v)


@model("builtins.ord")
def _ord(I, v):
    return ord(v)


@model("builtins.divmod")
def _divmod(I, a, b):
    return (num_binop("//", a, b), num_binop("%", a, b))


@model("builtins.map")
def _map(I, f, *its):
    return [I.call(f, list(t)) for t in zip(*[I.iterate(x) for x in its])]


@model("builtins.filter")
def _filter(I, f, it):
    out = []
    for x in I.iterate(it):
        c = I.truth(I.call(f, [x]) if f is not None else x)
        if I.decide(c):
            out.append(x)
    return out


@model("builtins.type")
def _type(I, v):
    from .symex import Obj
    if isinstance(v, Obj):
        return v.cls
    raise Unsupported("type()")


@model("builtins.id")
def _id(I, v):
    return id(v)


@model("builtins.NotImplemented")
def _ni(I):
    return None


MODELS["builtins.True"] = True
MODELS["builtins.False"] = False
MODELS["builtins.None"] = None


# ---- list / dict / tuple methods ----------------------------------------------------------------------
@model("list.append")
def _l_append(I, l, x):
    l.append(x)


@model("list.extend")
def _l_extend(I, l, it):
    l.extend(I.iterate(it))


@model("list.pop")
def _l_pop(I, l, i=-1):
    if not l:
        raise PyRaise("IndexError")
    return l.pop(i)


@model("list.insert")
def _l_insert(I, l, i, x):
    l.insert(i, x)


@model("list.index", "tuple.index")
def _l_index(I, l, x, *a):
    import ast as _ast
    for i, y in enumerate(l):
        c = I.truth(I.compare(_ast.Eq(), y, x))
        if I.decide(c):
            return i
    raise PyRaise("ValueError")


@model("list.count", "tuple.count")
def _l_count(I, l, x):
    import ast as _ast
    acc = 0
    for y in l:
        c = I.truth(I.compare(_ast.Eq(), y, x))
        acc = num_binop("+", acc, b_ite(c, 1, 0) if is_sym(c) else int(c))
    return acc


@model("list.copy")
def _l_copy(I, l):
    return list(l)


@model("list.reverse")
def _l_reverse(I, l):
    l.reverse()


@model("list.sort")
def _l_sort(I, l, key=None, reverse=False):
    l[:] = _sorted(I, l, key=key, reverse=reverse)


@model("dict.get")
def _d_get(I, d, k, default=None):
    from .strings import SStr
    if isinstance(k, SStr):
        k = k.concrete_or_self()
    if is_sym(k) or isinstance(k, SStr):
        # d.get(k, default) == (d[k] if k in d else default): membership is decided (forking on a symbolic key), the look-up is the engine's own subscript
        if I.decide(I.truth(I.contains(d, k))):
            return I.subscript(d, k)
        return default
    return d.get(I.hashable(k), default)


@model("dict.items")
def _d_items(I, d):
    return [(k, v) for k, v in d.items()]


@model("dict.keys")
def _d_keys(I, d):
    return list(d.keys())


@model("dict.values")
def _d_values(I, d):
    return list(d.values())


@model("dict.update")
def _d_update(I, d, other=None, **kw):
    if other:
        d.update(other)
    d.update(kw)


@model("dict.pop")
def _d_pop(I, d, k, *default):
    if k in d:
        return d.pop(k)
    if default:
        return default[0]
    raise PyRaise("KeyError")


@model("dict.setdefault")
def _d_setdefault(I, d, k, v=None):
    return d.setdefault(k, v)


@model("dict.copy")
def _d_copy(I, d):
    return dict(d)


@model("set.add")
def _s_add(I, s, x):
    s.add(I.hashable(x))


# ---- math ------------------------------------------------------------------------------------------
_FUNS = {}


def ufun(name, sort_in=None):
    if name not in _FUNS:
        _FUNS[name] = z3.Function("py_" + name, z3.RealSort(), z3.RealSort())
    return _FUNS[name]


def _trig_axioms(I, x):
    """Instantiate cos^2+sin^2=1 and the range facts for the argument x (assumed: real trigonometry)."""
    c, s = ufun("cos")(x), ufun("sin")(x)
    I.assume(c * c + s * s == 1)


def _mathfn(name):
    def fn(I, v):
        if isinstance(v, (NDArr, list, tuple)):
            a = as_arr(v, "f")
            return NDArr(elementwise(lambda x: fn(I, x), a), "f")
        if not is_sym(v):
            fv = to_frac(v)
            if name == "cos" and fv == 0:
                return Fraction(1)
            if name == "sin" and fv == 0:
                return Fraction(0)
            v = z(to_real(fv))
        v = to_real(v)
        if name in ("cos", "sin"):
            _trig_axioms(I, v)
        return ufun(name)(v)
    return fn


for _n in ("cos", "sin", "tan", "exp", "log", "arccos", "arcsin", "arctan"):
    _f = _mathfn(_n)
    model("numpy." + _n, "math." + {"arccos": "acos", "arcsin": "asin", "arctan": "atan"}.get(_n, _n))(_f)


@model("numpy.sqrt", "math.sqrt")
def _sqrt(I, v):
    if isinstance(v, (NDArr, list, tuple)):
        return NDArr(elementwise(lambda x: _sqrt(I, x), as_arr(v, "f")), "f")
    if not is_sym(v):
        f = Fraction(to_frac(v))
        n, d = f.numerator, f.denominator
        import math
        rn, rd = math.isqrt(n) if n >= 0 else -1, math.isqrt(d)
        if n >= 0 and rn * rn == n and rd * rd == d:
            return Fraction(rn, rd)
        v = z(f)
    v = to_real(v)
    I.oblige("sqrt-nonneg", v >= 0)
    s = ufun("sqrt")(z3.simplify(v))     # a function of its argument: equal radicands give the same term
    I.assume(z3.And(s >= 0, s * s == v))
    return s


@model("numpy.degrees", "math.degrees", "numpy.rad2deg")
def _degrees(I, v):
    pi = PI(I)
    if isinstance(v, (NDArr, list, tuple)):
        return NDArr(elementwise(lambda x: num_binop("/", num_binop("*", to_real(x), 180), pi), as_arr(v, "f")), "f")
    return num_binop("/", num_binop("*", to_real(v), 180), pi)


@model("numpy.radians", "math.radians", "numpy.deg2rad")
def _radians(I, v):
    pi = PI(I)
    if isinstance(v, (NDArr, list, tuple)):
        return NDArr(elementwise(lambda x: num_binop("/", num_binop("*", to_real(x), pi), 180), as_arr(v, "f")), "f")
    return num_binop("/", num_binop("*", to_real(v), pi), 180)


_PI = z3.Real("pi")


def PI(I):
    I.assume(z3.And(_PI > z3.RealVal("3.14159"), _PI < z3.RealVal("3.1416")))
    return _PI


class _PiConst:
    pass


MODELS["numpy.pi"] = _PI
MODELS["math.pi"] = _PI
MODELS["numpy.newaxis"] = None
class InfVal:
    """+-infinity as used for running minima / maxima (np.inf): only compared against and replaced, never used in arithmetic."""

    def __init__(self, sign=1):
        self.sign = sign

    def __repr__(self):
        return "inf" if self.sign > 0 else "-inf"


MODELS["numpy.inf"] = InfVal(1)
MODELS["math.inf"] = InfVal(1)


@model("numpy.floor", "math.floor")
def _floor(I, v):
    if isinstance(v, (NDArr, list, tuple)):
        return NDArr(elementwise(lambda x: to_real(_floor_s(x)), as_arr(v, "f")), "f")
    return _floor_s(v)


def _floor_s(x):
    if not is_sym(x):
        import math
        return math.floor(Fraction(to_frac(x)))
    if z3.is_int(x):
        return x
    return z3.ToInt(x)


@model("numpy.ceil", "math.ceil")
def _ceil(I, v):
    if isinstance(v, (NDArr, list, tuple)):
        return NDArr(elementwise(lambda x: to_real(_ceil_s(x)), as_arr(v, "f")), "f")
    return _ceil_s(v)


def _ceil_s(x):
    if not is_sym(x):
        import math
        return math.ceil(Fraction(to_frac(x)))
    if z3.is_int(x):
        return x
    return -z3.ToInt(-x)


@model("numpy.round", "numpy.around", "numpy.rint")
def _np_round(I, v, decimals=0):
    if decimals != 0:
        if isinstance(v, (NDArr, list, tuple)):
            return NDArr(elementwise(lambda x: _round(I, x, decimals), as_arr(v, "f")), "f")
        return _round(I, v, decimals)
    if isinstance(v, (NDArr, list, tuple)):
        a = as_arr(v)
        return NDArr(elementwise(lambda x: to_real(round_half_even_int(I, x)) if a.kind == "f" else x, a), a.kind)
    r = round_half_even_int(I, v)
    return to_real(r)


@model("numpy.fmod", "math.fmod")
def _fmod(I, a, b):
    """C fmod: result has the sign of the dividend, |r| < |b|."""
    def one(x, y):
        x, y = to_real(x), to_real(y)
        if not is_sym(x) and not is_sym(y):
            import math
            q = abs(x) // abs(y)
            r = abs(x) - q * abs(y)
            return r if x >= 0 else -r
        # x - y * trunc(x / y) with an explicit integer quotient (truncation toward zero): result has the sign of x
        quo = z(x) / z(y)
        q = z3.If(quo >= 0, z3.ToInt(quo), -z3.ToInt(-quo))
        return z(x) - z(y) * z3.ToReal(q)
    if isinstance(a, NDArr) or isinstance(b, NDArr):
        return NDArr(elementwise(one, as_arr(a), as_arr(b)), "f")
    return one(a, b)


@model("numpy.clip")
def _clip(I, v, lo, hi):
    def one(x):
        x = to_real(x)
        if not is_sym(x):
            return min(max(x, Fraction(lo)), Fraction(hi))
        return z3.If(x < z(to_real(lo)), z(to_real(lo)), z3.If(x > z(to_real(hi)), z(to_real(hi)), x))
    if isinstance(v, (NDArr, list, tuple)):
        return NDArr(elementwise(one, as_arr(v, "f")), "f")
    return one(v)


@model("numpy.sign")
def _sign(I, v):
    def one(x):
        if not is_sym(x):
            x = to_frac(x)
            return (x > 0) - (x < 0)
        one_, zero = (z3.RealVal(1), z3.RealVal(0)) if z3.is_real(x) else (z3.IntVal(1), z3.IntVal(0))
        return z3.If(x > 0, one_, z3.If(x < 0, -one_, zero))
    if isinstance(v, (NDArr, list, tuple)):
        a = as_arr(v)
        return NDArr(elementwise(one, a), a.kind)
    return one(v)


@model("numpy.isclose", "math.isclose")
def _isclose(I, a, b, rtol=Fraction(1, 100000), atol=Fraction(1, 10 ** 8), **kw):
    if "rel_tol" in kw or "abs_tol" in kw:
        raise Unsupported("math.isclose tolerances")
    def one(x, y):
        d = _abs(I, num_binop("-", to_real(x), to_real(y)))
        return num_cmp("<=", d, num_binop("+", atol, num_binop("*", rtol, _abs(I, to_real(y)))))
    if isinstance(a, NDArr) or isinstance(b, NDArr):
        return NDArr(elementwise(one, as_arr(a), as_arr(b)), "b")
    return one(a, b)


@model("numpy.allclose")
def _allclose(I, a, b, rtol=Fraction(1, 100000), atol=Fraction(1, 10 ** 8)):
    r = _isclose(I, as_arr(a), as_arr(b), rtol, atol)
    return b_and(*r.flat())


# ---- numpy constructors --------------------------------------------------------------------------------
def _shape(s):
    if isinstance(s, int):
        return (s,)
    return tuple(s)


@model("numpy.zeros", "numpy.empty")
def _zeros(I, shape=None, dtype=None, **kw):
    k = dtype_kind(dtype)
    d = np.empty(_shape(shape), dtype=object)
    fillv = Fraction(0) if k == "f" else (False if k == "b" else (Cx(Fraction(0), Fraction(0)) if k == "c" else 0))
    for ix in np.ndindex(*d.shape):
        d[ix] = fillv
    return NDArr(d, k)


@model("numpy.ones")
def _ones(I, shape, dtype=None):
    k = dtype_kind(dtype)
    d = np.empty(_shape(shape), dtype=object)
    for ix in np.ndindex(*d.shape):
        d[ix] = Fraction(1) if k == "f" else (True if k == "b" else 1)
    return NDArr(d, k)


@model("numpy.zeros_like", "numpy.empty_like")
def _zeros_like(I, a, dtype=None):
    a = as_arr(a)
    return _zeros(I, a.shape, dtype or DType("float64" if a.kind == "f" else "int64" if a.kind == "i" else "bool"))


@model("numpy.eye", "numpy.identity")
def _eye(I, n, dtype=None):
    k = dtype_kind(dtype)
    d = np.empty((n, n), dtype=object)
    for i in range(n):
        for j in range(n):
            v = 1 if i == j else 0
            d[i, j] = Fraction(v) if k == "f" else v
    return NDArr(d, k)


@model("numpy.array", "numpy.asarray", "numpy.asanyarray", "numpy.ascontiguousarray")
def _array(I, v, dtype=None, copy=True, **kw):
    a = as_arr(v)
    out = a.copy()
    if dtype is not None:
        return _astype(I, out, dtype)
    return out


@model("numpy.arange")
def _arange(I, *a, dtype=None):
    if all(isinstance(x, int) for x in a):
        return NDArr(obj_array(list(range(*a))), "i")
    raise Unsupported("symbolic arange")


@model("numpy.diag")
def _diag(I, v):
    a = as_arr(v)
    if a.ndim == 1:
        n = a.shape[0]
        d = np.empty((n, n), dtype=object)
        for i in range(n):
            for j in range(n):
                d[i, j] = a.data[i] if i == j else (Fraction(0) if a.kind == "f" else 0)
        return NDArr(d, a.kind)
    return NDArr(np.diag(a.data).copy(), a.kind)


@model("ndarray.astype")
def _astype(I, a, dtype, **kw):
    k = dtype_kind(dtype) if not (isinstance(dtype, type) or dtype in (int, float)) else None
    if k is None:
        k = "i" if dtype is int else "f"
    from .symex import ModelFn
    if isinstance(dtype, ModelFn):
        k = {"builtins.int": "i", "builtins.float": "f", "builtins.bool": "b"}.get(dtype.ident, "f")
    return NDArr(elementwise(lambda x: coerce_cell(x, k), a), k)


@model("ndarray.copy", "numpy.copy")
def _copy(I, a, **kw):
    return as_arr(a).copy()


@model("ndarray.T", prop=True)
def _T(I, a):
    return NDArr(a.data.T, a.kind)


@model("ndarray.transpose", "numpy.transpose")
def _transpose(I, a, *axes):
    return NDArr(as_arr(a).data.transpose(*axes), as_arr(a).kind)


@model("ndarray.shape", prop=True)
def _shape_p(I, a):
    return tuple(a.shape)


@model("ndarray.ndim", prop=True)
def _ndim_p(I, a):
    return a.ndim


@model("ndarray.size", prop=True)
def _size_p(I, a):
    return int(a.data.size)


@model("ndarray.dtype", prop=True)
def _dtype_p(I, a):
    return DType({"f": "float64", "i": "int64", "b": "bool"}.get(a.kind, "object"))


@model("ndarray.reshape", "numpy.reshape")
def _reshape(I, a, *shape):
    a = as_arr(a)
    if len(shape) == 1 and isinstance(shape[0], (tuple, list)):
        shape = tuple(shape[0])
    return NDArr(a.data.reshape(shape), a.kind)


@model("ndarray.flatten", "ndarray.ravel", "numpy.ravel")
def _flatten(I, a):
    a = as_arr(a)
    return NDArr(a.data.reshape(-1).copy(), a.kind)


@model("ndarray.tolist")
def _tolist(I, a):
    return a.data.tolist()


def _keepdims(res, a, axis, keepdims):
    """numpy's keepdims=True: the reduced axes stay with length one (so that the result broadcasts against the operand)."""
    if not keepdims:
        return res
    shape = tuple(1 for _ in a.shape) if axis is None else tuple(1 if k == (axis % len(a.shape)) else n for k, n in enumerate(a.shape))
    if isinstance(res, NDArr):
        return NDArr(res.data.reshape(shape), res.kind)
    out = np.empty(shape, dtype=object)
    out.reshape(-1)[0] = res
    return NDArr(out, a.kind)


@model("ndarray.sum", "numpy.sum")
def _np_sum(I, a, axis=None, keepdims=False, **kw):
    a = as_arr(a)
    if kw:
        raise Unsupported(f"sum with arguments {sorted(kw)}")
    if isinstance(axis, tuple) or (keepdims not in (True, False)):
        raise Unsupported("sum over several axes / symbolic keepdims")
    if axis is None:
        acc = Fraction(0) if a.kind == "f" else 0
        for x in a.flat():
            acc = num_binop("+", acc, b_ite(x, 1, 0) if (is_sym(x) and z3.is_bool(x)) else x)
        return _keepdims(acc, a, None, keepdims)
    return _keepdims(_scalar_or_arr(_reduce(a, axis, lambda x, y: num_binop("+", x, y)), a.kind), a, axis, keepdims)


def _reduce(a, axis, f):
    moved = np.moveaxis(a.data, axis, 0)
    acc = moved[0].copy() if isinstance(moved[0], np.ndarray) else moved[0]
    for k in range(1, moved.shape[0]):
        acc = elementwise(f, _wrap(acc), _wrap(moved[k]))
    return acc


def _wrap(d):
    if isinstance(d, np.ndarray):
        return NDArr(d, "o")
    x = np.empty((), dtype=object)
    x[()] = d
    return NDArr(x, "o")


@model("ndarray.min", "numpy.min", "numpy.amin")
def _np_min(I, a, axis=None, keepdims=False):
    a = as_arr(a)
    if keepdims:
        raise Unsupported("min with keepdims")
    f = lambda x, y: b_ite(num_cmp("<", x, y), x, y) if (is_sym(x) or is_sym(y)) else min(x, y)
    if axis is None:
        items = a.flat()
        acc = items[0]
        for x in items[1:]:
            acc = f(acc, x)
        return acc
    return _scalar_or_arr(_reduce(a, axis, f), a.kind)


@model("ndarray.max", "numpy.max", "numpy.amax")
def _np_max(I, a, axis=None, keepdims=False):
    a = as_arr(a)
    if keepdims:
        raise Unsupported("max with keepdims")
    f = lambda x, y: b_ite(num_cmp(">", x, y), x, y) if (is_sym(x) or is_sym(y)) else max(x, y)
    if axis is None:
        items = a.flat()
        acc = items[0]
        for x in items[1:]:
            acc = f(acc, x)
        return acc
    return _scalar_or_arr(_reduce(a, axis, f), a.kind)


@model("ndarray.mean", "numpy.mean")
def _np_mean(I, a, axis=None, keepdims=False):
    a = as_arr(a)
    s = _np_sum(I, a, axis=axis)
    n = a.data.size if axis is None else a.shape[axis]
    if isinstance(s, NDArr):
        return _keepdims(NDArr(elementwise(lambda x: num_binop("/", to_real(x), n), s), "f"), a, axis, keepdims)
    return _keepdims(num_binop("/", to_real(s), n), a, axis, keepdims)


@model("ndarray.dot", "numpy.dot", "numpy.matmul")
def _dot(I, a, b):
    a, b = as_arr(a), as_arr(b)
    kind = "f" if "f" in (a.kind, b.kind) else "i"
    if a.ndim == 0 or b.ndim == 0:
        return I.binop("*", a, b)
    if a.shape[-1] != (b.shape[-2] if b.ndim >= 2 else b.shape[0]):
        raise PyRaise("ValueError", "shapes not aligned")

    def mul(x, y):
        if not is_sym(x) and to_frac(x) == 0:
            return Fraction(0) if kind == "f" else 0
        if not is_sym(y) and to_frac(y) == 0:
            return Fraction(0) if kind == "f" else 0
        return num_binop("*", x, y)

    def vdot(u, v):
        acc = Fraction(0) if kind == "f" else 0
        for x, y in zip(u, v):
            t = mul(x, y)
            if not is_sym(t) and t == 0:
                continue
            acc = t if (not is_sym(acc) and acc == 0) else num_binop("+", acc, t)
        return acc

    if a.ndim == 1 and b.ndim == 1:
        return vdot(list(a.data), list(b.data))
    if a.ndim == 2 and b.ndim == 1:
        return NDArr(obj_array([vdot(list(a.data[i]), list(b.data)) for i in range(a.shape[0])]), kind)
    if a.ndim == 1 and b.ndim == 2:
        return NDArr(obj_array([vdot(list(a.data), list(b.data[:, j])) for j in range(b.shape[1])]), kind)
    if a.ndim == 2 and b.ndim == 2:
        return NDArr(obj_array([[vdot(list(a.data[i]), list(b.data[:, j])) for j in range(b.shape[1])]
                                for i in range(a.shape[0])]), kind)
    raise Unsupported("dot of >2-d arrays")


@model("numpy.vdot", "numpy.inner")
def _vdot(I, a, b):
    a, b = as_arr(a), as_arr(b)
    return _dot(I, NDArr(a.data.reshape(-1), a.kind), NDArr(b.data.reshape(-1), b.kind))


@model("numpy.shares_memory", "numpy.may_share_memory")
def _shares_memory(I, a, b, **kw):
    """Views of the engine's arrays are numpy's own views of the underlying object arrays, so sharing is decided by numpy itself."""
    if not isinstance(a, NDArr) or not isinstance(b, NDArr):
        return False
    return bool(np.shares_memory(a.data, b.data))


@model("numpy.cross")
def _cross(I, a, b, **kw):
    a, b = as_arr(a), as_arr(b)
    if kw and any(v not in (-1, None) for v in kw.values()):
        raise Unsupported("cross with axis arguments")
    if not a.shape or not b.shape or a.shape[-1] != 3 or b.shape[-1] != 3:
        raise Unsupported("cross of non-3-vectors")
    kind = "f" if "f" in (a.kind, b.kind) else "i"
    m = lambda p, q: num_binop("*", p, q)
    s = lambda p, q: num_binop("-", p, q)
    one = lambda x, y: [s(m(x[1], y[2]), m(x[2], y[1])), s(m(x[2], y[0]), m(x[0], y[2])), s(m(x[0], y[1]), m(x[1], y[0]))]
    if a.shape == (3,) and b.shape == (3,):
        return NDArr(obj_array(one(list(a.data), list(b.data))), kind)
    A, B = np.broadcast_arrays(a.data, b.data)          # rows along the last axis (numpy's default axisa = axisb = axisc = -1)
    out = np.empty(A.shape, dtype=object)
    for idx in np.ndindex(*A.shape[:-1]):
        r = one(list(A[idx]), list(B[idx]))
        for k in range(3):
            out[idx + (k,)] = r[k]
    return NDArr(out, kind)


def det3(m):
    mul = lambda p, q: num_binop("*", p, q)
    sub = lambda p, q: num_binop("-", p, q)
    add = lambda p, q: num_binop("+", p, q)
    a, b, c = m[0]
    d, e, f = m[1]
    g, h, i = m[2]
    return add(sub(mul(a, sub(mul(e, i), mul(f, h))), mul(b, sub(mul(d, i), mul(f, g)))), mul(c, sub(mul(d, h), mul(e, g))))


@model("numpy.linalg.det")
def _det(I, a):
    a = as_arr(a)
    if a.shape == (3, 3):
        return det3(a.data.tolist())
    if a.shape == (2, 2):
        m = a.data
        return num_binop("-", num_binop("*", m[0, 0], m[1, 1]), num_binop("*", m[0, 1], m[1, 0]))
    raise Unsupported("det of non 2x2/3x3")


@model("numpy.linalg.norm")
def _norm(I, a, ord=None, axis=None):
    a = as_arr(a, "f")
    if ord is not None:
        raise Unsupported("norm(ord=)")
    sq = NDArr(elementwise(lambda x: num_binop("*", x, x), a), "f")
    s = _np_sum(I, sq, axis=axis)
    return _sqrt(I, s)


@model("numpy.linalg.inv")
def _inv(I, a):
    """Assumed contract: for det(a) != 0 returns X with a.X = X.a = 1 (fresh symbols, defining equations assumed)."""
    a = as_arr(a, "f")
    n = a.shape[0]
    if a.shape != (n, n):
        raise PyRaise("LinAlgError")
    if n == 3:
        I.oblige("inv-nonsingular", num_cmp("!=", det3(a.data.tolist()), 0))
    X = np.empty((n, n), dtype=object)
    for i in range(n):
        for j in range(n):
            X[i, j] = I.fresh("real", f"inv{i}{j}")
    Xa = NDArr(X, "f")
    p1 = _dot(I, a, Xa)
    p2 = _dot(I, Xa, a)
    for i in range(n):
        for j in range(n):
            I.assume(num_cmp("==", p1.data[i, j], 1 if i == j else 0))
            I.assume(num_cmp("==", p2.data[i, j], 1 if i == j else 0))
    return Xa


@model("numpy.hstack", "numpy.concatenate")
def _hstack(I, seq, axis=0):
    arrs = [as_arr(x) for x in I.iterate(seq)]
    kind = "f" if any(a.kind == "f" for a in arrs) else arrs[0].kind
    return NDArr(np.concatenate([a.data for a in arrs], axis=axis if arrs[0].ndim > 1 else 0), kind)


@model("numpy.vstack")
def _vstack(I, seq):
    arrs = [as_arr(x) for x in I.iterate(seq)]
    kind = "f" if any(a.kind == "f" for a in arrs) else arrs[0].kind
    return NDArr(np.vstack([a.data for a in arrs]), kind)


def _structural(name):
    """numpy functions that only rearrange cells (no arithmetic, no comparison): run natively on the object arrays of cells."""
    f = getattr(np, name)

    def unwrap(v, kinds):
        if isinstance(v, NDArr):
            kinds.append(v.kind)
            return v.data
        if isinstance(v, (list, tuple)) and any(isinstance(x, NDArr) for x in v):
            return type(v)(unwrap(x, kinds) for x in v)
        return v

    def wrap(r, kind):
        if isinstance(r, np.ndarray):
            if r.dtype != object:
                r = r.astype(object)
            return NDArr(r, kind)
        if isinstance(r, (list, tuple)):
            return type(r)(wrap(x, kind) for x in r)
        return r

    def fn(I, *a, **k):
        kinds = []
        a2 = [unwrap(x, kinds) for x in a]
        k2 = {kk: unwrap(v, kinds) for kk, v in k.items()}
        if any(is_sym(x) for x in list(a2) + list(k2.values()) if not isinstance(x, np.ndarray)):
            raise Unsupported(f"numpy.{name} with a symbolic shape / axis argument")
        if not kinds:
            # plain nested lists: make an object array of cells first
            a2[0] = obj_array(a2[0]) if isinstance(a2[0], (list, tuple)) else a2[0]
            kinds.append(arr_kind_of(list(np.asarray(a2[0], dtype=object).reshape(-1))) if isinstance(a2[0], np.ndarray) else "f")
        kind = "c" if "c" in kinds else ("o" if "o" in kinds else ("f" if "f" in kinds else kinds[0]))
        try:
            r = f(*a2, **k2)
        except (ValueError, IndexError, TypeError) as e:
            raise PyRaise(type(e).__name__, str(e)[:120])
        return wrap(r, kind)
    return fn


for _n in ("moveaxis", "rollaxis", "swapaxes", "column_stack", "stack", "dstack", "flip", "fliplr", "flipud", "squeeze", "expand_dims", "roll", "atleast_1d", "atleast_2d",
           "atleast_3d", "broadcast_to", "take", "delete", "split", "array_split"):
    if ("numpy." + _n) not in MODELS:
        model("numpy." + _n)(_structural(_n))


@model("numpy.full")
def _full(I, shape, fill_value, dtype=None, **kw):
    d = np.empty(_shape(shape), dtype=object)
    cell = fill_value
    kind = "o" if isinstance(fill_value, InfVal) else (dtype_kind(dtype) if dtype is not None else arr_kind_of([fill_value]))
    if not isinstance(fill_value, InfVal):
        cell = coerce_cell(fill_value, kind)
    for ix in np.ndindex(*d.shape):
        d[ix] = cell
    return NDArr(d, kind)


@model("numpy.negative")
def _negative(I, a, out=None, **kw):
    A = as_arr(a)
    r = elementwise(lambda x: num_binop("-", 0, x) if not isinstance(x, Cx) else cx_binop("-", Cx(0, 0), x), A)
    if out is not None:
        if not isinstance(out, NDArr) or out.shape != A.shape:
            raise Unsupported("numpy.negative with a mismatching out= array")
        out.data[...] = r            # out may be a view of the argument: numpy writes through it
        return out
    return NDArr(r, A.kind)


@model("numpy.tile")
def _tile(I, a, reps):
    a = as_arr(a)
    return NDArr(np.tile(a.data, reps), a.kind)


@model("numpy.repeat")
def _repeat(I, a, repeats, axis=None):
    a = as_arr(a)
    if not isinstance(repeats, int):
        raise Unsupported("np.repeat with non-scalar repeats")
    return NDArr(np.repeat(a.data, repeats, axis=axis), a.kind)


@model("numpy.where")
def _where(I, c, a=None, b=None):
    if a is None:
        ca = as_arr(c)
        cells = ca.flat()
        if ca.ndim == 1 and all(isinstance(x, bool) for x in cells):
            return (NDArr(obj_array([i for i, x in enumerate(cells) if x]), "i"),)
        raise Unsupported("np.where(cond) with one symbolic or multi-dimensional argument")
    def one(cc, x, y):
        cc = simp(cc) if is_sym(cc) else cc
        if not is_sym(cc):
            return x if cc else y
        return b_ite(cc, x, y)
    r = elementwise(one, as_arr(c), as_arr(a), as_arr(b))
    return NDArr(r, "f" if (as_arr(a).kind == "f" or as_arr(b).kind == "f") else as_arr(a).kind)


@model("numpy.logical_and")
def _land(I, a, b):
    return NDArr(elementwise(lambda x, y: b_and(x, y), as_arr(a), as_arr(b)), "b")


@model("numpy.logical_or")
def _lor(I, a, b):
    return NDArr(elementwise(lambda x, y: b_or(x, y), as_arr(a), as_arr(b)), "b")


@model("numpy.logical_not")
def _lnot(I, a):
    return NDArr(elementwise(lambda x: b_not(x), as_arr(a)), "b")


@model("ndarray.any")
def _a_any(I, a, axis=None):
    return _any(I, a, axis)


@model("ndarray.all")
def _a_all(I, a, axis=None):
    return _all(I, a, axis)


# ---- fractions -------------------------------------------------------------------------------------
class SymFraction:
    """Fraction(x) of a symbolic real x: kept abstract; only limit_denominator(12) is modelled."""

    def __init__(self, v):
        self.v = v


class RatObj(Fraction):
    """A concrete fractions.Fraction OBJECT of the program (the engine also uses plain Fraction for float values: the two print differently).
    Closed under arithmetic with ints and other RatObj; mixed with a float value (plain Fraction) the result is a float, as in Python."""

    def _wrap(self, other, r):
        if r is NotImplemented:
            return r
        if isinstance(other, RatObj) or (isinstance(other, int) and not isinstance(other, bool)):
            return RatObj(r)
        return r

    def __add__(self, o): return self._wrap(o, Fraction.__add__(self, o))
    def __radd__(self, o): return self._wrap(o, Fraction.__radd__(self, o))
    def __sub__(self, o): return self._wrap(o, Fraction.__sub__(self, o))
    def __rsub__(self, o): return self._wrap(o, Fraction.__rsub__(self, o))
    def __mul__(self, o): return self._wrap(o, Fraction.__mul__(self, o))
    def __rmul__(self, o): return self._wrap(o, Fraction.__rmul__(self, o))
    def __truediv__(self, o): return self._wrap(o, Fraction.__truediv__(self, o))
    def __mod__(self, o): return self._wrap(o, Fraction.__mod__(self, o))
    def __neg__(self): return RatObj(Fraction.__neg__(self))
    def __abs__(self): return RatObj(Fraction.__abs__(self))
    def limit_denominator(self, n=1000000): return RatObj(Fraction.limit_denominator(self, n))


@model("fractions.Fraction")
def _fraction(I, a=0, b=None):
    from .strings import SStr, parse_fraction
    if isinstance(a, (str, SStr)):
        a = parse_fraction(I, a)
    if isinstance(a, SymFraction):
        a = a.v
    if isinstance(b, SymFraction):
        b = b.v
    if b is not None:
        if isinstance(b, (str, SStr)):
            b = parse_fraction(I, b)
        a = num_binop("/", to_real(a), to_real(b))
    if is_sym(a):
        return SymFraction(a)
    return RatObj(to_frac(a))


@model("Fraction.limit_denominator", "RatObj.limit_denominator")
def _limit_den(I, f, n=1000000):
    return RatObj(Fraction(f).limit_denominator(n))


@model("SymFraction.limit_denominator")
def _sym_limit_den(I, f, n=1000000):
    """Assumed contract (Fraction.limit_denominator best approximation): if |t - k/n'| is small enough for a
    k/12-grid value it returns that grid value.  Only n == 12 is modelled: result k/12 whenever |t-k/12| < 1/288
    (the nearest other fraction with denominator <= 12 is at least 1/(12*11) away)."""
    if n != 12:
        raise Unsupported("limit_denominator(n != 12) on symbolic value")
    k = I.fresh("int", "ld")
    t = to_real(f.v)
    I.oblige("limit-denominator-grid", z3.Exists([k], z3.And(288 * (t - z3.ToReal(k) / 12) < 1, 288 * (t - z3.ToReal(k) / 12) > -1)))
    I.assume(z3.And(288 * (t - z3.ToReal(k) / 12) < 1, 288 * (t - z3.ToReal(k) / 12) > -1))
    return SymTwelfth(k)


class SymTwelfth:
    """The rational k/12 with symbolic integer k (printed in lowest terms by str())."""

    def __init__(self, k):
        self.k = k


# ---- misc ---------------------------------------------------------------------------------------------
@model("copy.deepcopy")
def _deepcopy(I, v):
    return I.clone(v, {})


@model("copy.copy")
def _shallow_copy(I, v):
    """copy.copy: a new container / object whose items ARE the original's items (an ndarray is copied with its data)."""
    from .symex import Obj
    if isinstance(v, NDArr):
        return NDArr(v.data.copy(), v.kind)
    if isinstance(v, Obj):
        r = Obj(v.cls)
        r.fields = dict(v.fields)
        return r
    if isinstance(v, list):
        return list(v)
    if isinstance(v, dict):
        return dict(v)
    return v


@model("logging.getLogger")
def _getlogger(I, *a):
    return _LOGGER


class _Logger:
    pass


_LOGGER = _Logger()
for _m in ("debug", "info", "warning", "error", "warn", "exception"):
    model("_Logger." + _m)(lambda I, lg, *a, **k: None)


@model("itertools.product")
def _product(I, *its, repeat=1):
    return [tuple(t) for t in itertools.product(*[I.iterate(x) for x in its], repeat=repeat)]


@model("numbers.Integral")
def _integral(I, *a):
    raise Unsupported("numbers.Integral call")


@model("functools.total_ordering")
def _total_ordering(I, c):
    return c


@model("collections.namedtuple")
def _namedtuple(I, name, fields):
    raise Unsupported("namedtuple")


# ---- re ------------------------------------------------------------------------------------------------
import re as _re_mod


class RegexVal:
    def __init__(self, pattern, flags=0):
        self.pattern = pattern
        self.flags = flags
        self.rx = _re_mod.compile(pattern, flags)


class MatchVal:
    """Result of a successful match: groups are concrete strings or structured strings."""

    def __init__(self, groups, whole=None):
        self.groups = groups      # index -> value (0 = whole match)


MODELS["re.IGNORECASE"] = _re_mod.IGNORECASE
MODELS["re.I"] = _re_mod.IGNORECASE
MODELS["re.MULTILINE"] = _re_mod.MULTILINE
MODELS["re.DOTALL"] = _re_mod.DOTALL
MODELS["re.VERBOSE"] = _re_mod.VERBOSE


@model("re.compile")
def _re_compile(I, pattern, flags=0):
    return RegexVal(pattern, flags)


def _as_rx(p, flags=0):
    return p if isinstance(p, RegexVal) else RegexVal(p, flags)


def _wrap_match(m):
    if m is None:
        return None
    return MatchVal({0: m.group(0), **{i + 1: g for i, g in enumerate(m.groups())}})


def _letters_prefix_rule(I, s):
    """Group 1 of '([A-Z]+).*' (IGNORECASE) on a structured string: the maximal leading run of letters.

    Assumed (model id 're.letters-prefix'): [A-Z] under IGNORECASE matches exactly the ASCII letters plus U+0130, U+0131,
    U+017F, U+212A; the greedy group takes the longest such prefix; '.*' always matches the rest.
    """
    from .strings import SStr, Lit, Sym
    letters = set("abcdefghijklmnopqrstuvwxyzABCDEFGHIJKLMNOPQRSTUVWXYZİıſK")
    acc = ""
    for seg in s.segs:
        if isinstance(seg, Lit):
            k = 0
            while k < len(seg.text) and seg.text[k] in letters:
                k += 1
            acc += seg.text[:k]
            if k < len(seg.text):
                break
        elif isinstance(seg, Sym) and seg.lang in ("digits+",):
            break
        else:
            raise Unsupported("letters-prefix rule: segment of unknown first-character class")
    if not acc:
        return None
    return MatchVal({0: s, 1: acc})


@model("re.match")
def _re_match(I, pat, s, flags=0):
    from .strings import SStr
    rx = _as_rx(pat, flags)
    if isinstance(s, SStr):
        c = s.concrete_or_self()
        if isinstance(c, str):
            s = c
    if isinstance(s, str):
        return _wrap_match(rx.rx.match(s))
    if rx.pattern == "([A-Z]+).*" and rx.flags & _re_mod.IGNORECASE:
        I.used_models.add("re.letters-prefix")
        return _letters_prefix_rule(I, s)
    raise Unsupported(f"re.match of pattern {rx.pattern!r} on a symbolic string")


def _concrete_str(s):
    from .strings import SStr
    if isinstance(s, SStr):
        return s.concrete()
    return s


@model("re.search")
def _re_search(I, pat, s, flags=0):
    return _wrap_match(_as_rx(pat, flags).rx.search(_concrete_str(s)))


@model("re.fullmatch")
def _re_fullmatch(I, pat, s, flags=0):
    return _wrap_match(_as_rx(pat, flags).rx.fullmatch(_concrete_str(s)))


@model("re.findall")
def _re_findall(I, pat, s, flags=0):
    return _as_rx(pat, flags).rx.findall(_concrete_str(s))


@model("re.sub")
def _re_sub(I, pat, repl, s, count=0, flags=0):
    return _as_rx(pat, flags).rx.sub(repl, _concrete_str(s), count)


@model("re.split")
def _re_split(I, pat, s, maxsplit=0, flags=0):
    return _as_rx(pat, flags).rx.split(_concrete_str(s), maxsplit)


model("RegexVal.match")(lambda I, rx, s: _re_match(I, rx, s))
model("RegexVal.search")(lambda I, rx, s: _re_search(I, rx, s))
model("RegexVal.fullmatch")(lambda I, rx, s: _re_fullmatch(I, rx, s))
model("RegexVal.findall")(lambda I, rx, s: _re_findall(I, rx, s))
model("RegexVal.sub")(lambda I, rx, repl, s, count=0: _re_sub(I, rx, repl, s, count))
model("RegexVal.split")(lambda I, rx, s, maxsplit=0: _re_split(I, rx, s, maxsplit))


@model("MatchVal.group")
def _m_group(I, m, *idx):
    if not idx:
        return m.groups[0]
    if len(idx) == 1:
        if idx[0] not in m.groups:
            raise PyRaise("IndexError", "no such group")
        return m.groups[idx[0]]
    return tuple(m.groups[i] for i in idx)


@model("MatchVal.groups")
def _m_groups(I, m):
    return tuple(m.groups[i] for i in sorted(m.groups) if i > 0)


# ---- collections ---------------------------------------------------------------------------------------
@model("collections.Counter")
def _counter(I, it=()):
    import ast as _ast
    d = {}
    keys = []
    for x in I.iterate(it):
        found = None
        for k in keys:
            c = I.truth(I.compare(_ast.Eq(), k, x))
            if I.decide(c):
                found = k
                break
        if found is None:
            keys.append(x)
            d[id(x)] = [x, 1]
        else:
            d[id(found)][1] += 1
    return CounterVal([(v[0], v[1]) for v in d.values()])


class CounterVal:
    def __init__(self, pairs):
        self.pairs = pairs


model("CounterVal.items")(lambda I, c: list(c.pairs))
model("CounterVal.keys")(lambda I, c: [k for k, _ in c.pairs])
model("CounterVal.values")(lambda I, c: [v for _, v in c.pairs])
model("CounterVal.most_common")(lambda I, c, n=None: sorted(c.pairs, key=lambda kv: -kv[1])[:n])


class DDict(dict):
    """collections.defaultdict"""

    def __init__(self, factory):
        super().__init__()
        self.factory = factory


@model("collections.defaultdict")
def _defaultdict(I, factory=None):
    return DDict(factory)


for _n in ("get", "items", "keys", "values", "update", "pop", "setdefault", "copy"):
    MODELS["DDict." + _n] = MODELS["dict." + _n]


class _CStack:
    pass


MODELS["numpy.c_"] = _CStack()


def cstack(I, parts):
    arrs = [as_arr(x) for x in parts]
    cols = []
    for a in arrs:
        if a.ndim == 1:
            cols.append(a.data.reshape(-1, 1))
        else:
            cols.append(a.data)
    kind = "f" if any(a.kind == "f" for a in arrs) else arrs[0].kind
    try:
        return NDArr(np.hstack(cols), kind)
    except ValueError:
        raise PyRaise("ValueError", "all the input array dimensions except for the concatenation axis must match exactly")


# ---- complex ---------------------------------------------------------------------------------------------
def _cx_map(f):
    def g(I, v):
        if isinstance(v, (NDArr, list, tuple)):
            a = as_arr(v)
            d = elementwise(lambda x: f(I, x), a)
            return NDArr(d, arr_kind_of(d.reshape(-1)))
        return f(I, v)
    return g


def _conj1(I, x):
    return Cx(x.re, num_binop("-", 0, x.im)) if isinstance(x, Cx) else x


def _real1(I, x):
    return x.re if isinstance(x, Cx) else x


def _imag1(I, x):
    return x.im if isinstance(x, Cx) else (Fraction(0))


def _abs2(x):
    return num_binop("+", num_binop("*", x.re, x.re), num_binop("*", x.im, x.im))


model("numpy.conj", "numpy.conjugate")(_cx_map(_conj1))
model("numpy.real")(_cx_map(_real1))
model("numpy.imag")(_cx_map(_imag1))
model("Cx.real", prop=True)(lambda I, x: x.re)
model("Cx.imag", prop=True)(lambda I, x: x.im)
model("Cx.conjugate")(lambda I, x: _conj1(I, x))
model("scalar.real", prop=True)(lambda I, x: x)
model("scalar.imag", prop=True)(lambda I, x: 0)
model("ndarray.real", prop=True)(lambda I, a: _cx_map(_real1)(I, a))
model("ndarray.imag", prop=True)(lambda I, a: _cx_map(_imag1)(I, a))
model("ndarray.conj", "ndarray.conjugate")(lambda I, a: _cx_map(_conj1)(I, a))
_abs_real = MODELS["builtins.abs"].fn


@model("builtins.abs", "numpy.abs", "numpy.fabs", "numpy.absolute")
def _abs_cx(I, v):
    if isinstance(v, Cx):
        return _sqrt(I, _abs2(v))
    if isinstance(v, NDArr) and v.kind == "c":
        return NDArr(elementwise(lambda x: _abs_cx(I, x), v), "f")
    return _abs_real(I, v)


@model("builtins.complex")
def _complex(I, re=0, im=0):
    return Cx(to_real(re), to_real(im))


# ---- native call-through for numpy functions on fully concrete integer/bool data (exact) ---------------------------
def _to_native(v):
    if isinstance(v, NDArr):
        cells = v.flat()
        if all(isinstance(c, bool) for c in cells) and cells:
            return np.array(cells, dtype=bool).reshape(v.shape)
        if all(isinstance(c, int) for c in cells):
            return np.array([int(c) for c in cells], dtype=np.int64).reshape(v.shape)
        raise Unsupported("native numpy call-through needs integer/bool arrays")
    if isinstance(v, (list, tuple)):
        return type(v)(_to_native(x) for x in v)
    if isinstance(v, (int, bool, str)) or v is None:
        return v
    if isinstance(v, DType):
        return np.dtype({"float": "float64", "double": "float64", "int": "int64", "bool_": "bool"}.get(v.tag, v.tag))
    if isinstance(v, np.dtype):
        return v
    raise Unsupported(f"native numpy call-through: argument of type {type(v).__name__}")


def _from_native(r):
    if isinstance(r, np.ndarray):
        if r.dtype.kind in "iub":
            return NDArr(obj_array(r.astype(object).tolist() if r.ndim else [r.item()]) if r.ndim else obj_array([r.item()]), "b" if r.dtype.kind == "b" else "i") if r.ndim else (bool(r) if r.dtype.kind == "b" else int(r))
        raise Unsupported("native numpy call-through produced a non-integer array")
    if isinstance(r, (tuple, list)):
        return type(r)(_from_native(x) for x in r)
    if isinstance(r, (np.integer,)):
        return int(r)
    if isinstance(r, (np.bool_,)):
        return bool(r)
    if isinstance(r, (int, bool, str, np.dtype)) or r is None:
        return r
    raise Unsupported(f"native numpy call-through: result of type {type(r).__name__}")


def native_numpy(dotted):
    obj = np
    for part in dotted.split(".")[1:]:
        obj = getattr(obj, part, None)
        if obj is None:
            return None
    if not callable(obj):
        return None
    from .symex import ModelFn

    def fn(I, *a, **k):
        return _from_native(obj(*[_to_native(x) for x in a], **{kk: _to_native(v) for kk, v in k.items()}))
    return ModelFn("numpy-native:" + dotted + " (exact on integer data)", fn)


def _ext(op):
    def one(x, y):
        if isinstance(x, InfVal):
            return y if ((op == "max") == (x.sign < 0)) else x
        if isinstance(y, InfVal):
            return x if ((op == "max") == (y.sign < 0)) else y
        c = num_cmp(">" if op == "max" else "<", x, y)
        c = simp(c) if is_sym(c) else c
        if not is_sym(c):
            return x if c else y
        return b_ite(c, x, y)

    def fn(I, a, b):
        A, B = as_arr(a), as_arr(b)
        d = elementwise(one, A, B)
        if not isinstance(d, np.ndarray):
            return d
        cells = d.reshape(-1)
        return NDArr(d, "o" if any(isinstance(c, InfVal) for c in cells) else arr_kind_of(cells))
    return fn


model("numpy.maximum")(_ext("max"))
model("numpy.minimum")(_ext("min"))
