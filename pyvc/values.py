"""Symbolic value domain of pyvc.

Python ints are z3 Ints (unbounded, faithful).  Python/numpy floats are z3 Reals (NOT faithful: rounding,
overflow, NaN are not modelled; this is the 'floats-as-reals' entry of every trusted base).  Float
literals of the source are taken as the exact decimal they are written as.
Static-shape numpy arrays are numpy *object* arrays whose cells hold Python numbers or z3 terms, so that
broadcasting, slicing, views and transposition are numpy's own.
"""
from fractions import Fraction
import numpy as np
import z3


class Unsupported(Exception):
    """Construct outside the verified subset: the obligation that needs it is *undecided*."""


class PyRaise(Exception):
    """An exception raised by the interpreted program (explicitly or implicitly)."""

    def __init__(self, exc_type, msg=""):
        super().__init__(exc_type, msg)
        self.exc_type = exc_type
        self.msg = msg


def is_sym(v):
    return isinstance(v, z3.ExprRef)


def is_num(v):
    return isinstance(v, (int, Fraction)) and not isinstance(v, bool) or isinstance(v, bool)


def to_frac(v):
    """Exact rational for a Python number appearing concretely (float literals: their decimal spelling)."""
    if isinstance(v, bool):
        return int(v)
    if isinstance(v, int):
        return v
    if isinstance(v, Fraction):
        return v if v.denominator != 1 else int(v)
    if isinstance(v, (float, np.floating)):
        f = Fraction(repr(float(v)))
        return int(f) if f.denominator == 1 and False else f
    if isinstance(v, np.integer):
        return int(v)
    raise Unsupported(f"number {type(v)}")


def z(v):
    """Python value -> z3 term."""
    if is_sym(v):
        return v
    if isinstance(v, bool):
        return z3.BoolVal(v)
    if isinstance(v, int):
        return z3.IntVal(v)
    if isinstance(v, Fraction):
        return z3.RealVal(str(v))
    if isinstance(v, (float, np.floating)):
        return z3.RealVal(str(Fraction(repr(float(v)))))
    if isinstance(v, np.integer):
        return z3.IntVal(int(v))
    if isinstance(v, str):
        return z3.StringVal(v)
    raise Unsupported(f"cannot convert {type(v).__name__} to a term")


def is_real(v):
    if is_sym(v):
        return z3.is_real(v)
    return isinstance(v, Fraction)


def is_int(v):
    if is_sym(v):
        return z3.is_int(v)
    return isinstance(v, int) and not isinstance(v, bool)


def is_bv(v):
    return is_sym(v) and z3.is_bv(v)


def to_real(v):
    if is_sym(v):
        if z3.is_int(v):
            return z3.ToReal(v)
        if z3.is_bool(v):
            return z3.If(v, z3.RealVal(1), z3.RealVal(0))
        return v
    if isinstance(v, bool):
        return Fraction(int(v))
    return Fraction(v)


def simp(e):
    if is_sym(e):
        s = z3.simplify(e)
        if z3.is_true(s):
            return True
        if z3.is_false(s):
            return False
        if z3.is_int_value(s):
            return s.as_long()
        if z3.is_rational_value(s):
            return Fraction(s.numerator_as_long(), s.denominator_as_long())
        return s
    return e


def _unify(a, b):
    """Bring two numeric operands to a common z3 sort."""
    az, bz = z(a), z(b)
    if z3.is_bool(az):
        az = z3.If(az, z3.IntVal(1), z3.IntVal(0))
    if z3.is_bool(bz):
        bz = z3.If(bz, z3.IntVal(1), z3.IntVal(0))
    if z3.is_bv(az) or z3.is_bv(bz):
        if not z3.is_bv(az):
            az = z3.Int2BV(az, bz.size()) if not z3.is_int_value(az) else z3.BitVecVal(az.as_long(), bz.size())
        if not z3.is_bv(bz):
            bz = z3.Int2BV(bz, az.size()) if not z3.is_int_value(bz) else z3.BitVecVal(bz.as_long(), az.size())
        return az, bz
    if z3.is_real(az) and z3.is_int(bz):
        bz = z3.ToReal(bz)
    elif z3.is_int(az) and z3.is_real(bz):
        az = z3.ToReal(az)
    return az, bz


def floor_real(x):
    """floor of a real term, as an Int term."""
    return z3.ToInt(x)


def py_floordiv(a, b):
    az, bz = _unify(a, b)
    if z3.is_bv(az):
        return z3.UDiv(az, bz)
    if z3.is_int(az):
        if z3.is_int_value(bz) and bz.as_long() > 0:
            return az / bz
        return z3.If(bz > 0, az / bz, (-az) / (-bz))
    return z3.ToReal(z3.ToInt(az / bz))


def py_mod(a, b):
    az, bz = _unify(a, b)
    if z3.is_bv(az):
        return z3.URem(az, bz)
    if z3.is_int(az):
        if z3.is_int_value(bz) and bz.as_long() > 0:
            return az % bz
        return az - bz * py_floordiv(az, bz)
    return az - bz * z3.ToReal(z3.ToInt(az / bz))


def c_trunc_div(a, b):
    """C integer division (truncation toward zero) on Int terms."""
    az, bz = _unify(a, b)
    q = z3.If(bz > 0, z3.If(az >= 0, az / bz, -((-az) / bz)), z3.If(az >= 0, -(az / (-bz)), (-az) / (-bz)))
    return q


def trunc_to_int(x):
    """float -> int conversion (toward zero)."""
    if not is_sym(x):
        x = to_frac(x)
        if isinstance(x, int):
            return x
        return int(x)  # Fraction.__trunc__
    if z3.is_int(x):
        return x
    s = z3.simplify(x)
    iv = int_valued(s)
    if iv is not None:
        return iv
    return z3.If(x >= 0, z3.ToInt(x), -z3.ToInt(-x))


def int_valued(s, depth=0):
    """Int term equal to the Real term `s` when `s` is integer-valued by construction (ToReal of an Int, integer literal,
    sums / integer multiples / negations / if-then-else of such terms); None otherwise."""
    if depth > 40:
        return None
    if z3.is_int(s):
        return s
    if z3.is_rational_value(s):
        return z3.IntVal(s.numerator_as_long()) if s.denominator_as_long() == 1 else None
    if z3.is_app_of(s, z3.Z3_OP_TO_REAL):
        return s.arg(0)
    if z3.is_app_of(s, z3.Z3_OP_ITE):
        a, b = int_valued(s.arg(1), depth + 1), int_valued(s.arg(2), depth + 1)
        return None if a is None or b is None else z3.If(s.arg(0), a, b)
    if z3.is_app_of(s, z3.Z3_OP_ADD) or z3.is_app_of(s, z3.Z3_OP_MUL) or z3.is_app_of(s, z3.Z3_OP_SUB) or z3.is_app_of(s, z3.Z3_OP_UMINUS):
        parts = [int_valued(c, depth + 1) for c in s.children()]
        if any(q is None for q in parts):
            return None
        if z3.is_app_of(s, z3.Z3_OP_ADD):
            return z3.Sum(parts)
        if z3.is_app_of(s, z3.Z3_OP_UMINUS):
            return -parts[0]
        if z3.is_app_of(s, z3.Z3_OP_SUB):
            r = parts[0]
            for q in parts[1:]:
                r = r - q
            return r
        r = parts[0]
        for q in parts[1:]:
            r = r * q
        return r
    return None


class Cx:
    """Complex scalar with real/imaginary parts that are Python numbers or z3 Real terms."""

    def __init__(self, re, im=0):
        self.re = re
        self.im = im

    def __repr__(self):
        return f"Cx({self.re}, {self.im})"


def cx_binop(op, a, b):
    a = a if isinstance(a, Cx) else Cx(a, 0)
    b = b if isinstance(b, Cx) else Cx(b, 0)
    R = lambda o, x, y: num_binop(o, x, y)
    if op == "+":
        return Cx(R("+", a.re, b.re), R("+", a.im, b.im))
    if op == "-":
        return Cx(R("-", a.re, b.re), R("-", a.im, b.im))
    if op == "*":
        return Cx(R("-", R("*", a.re, b.re), R("*", a.im, b.im)), R("+", R("*", a.re, b.im), R("*", a.im, b.re)))
    if op == "/":
        den = R("+", R("*", b.re, b.re), R("*", b.im, b.im))
        num = cx_binop("*", a, Cx(b.re, R("-", 0, b.im)))
        return Cx(R("/", num.re, den), R("/", num.im, den))
    if op == "**" and not is_sym(b.re) and to_frac(b.im) == 0 and isinstance(to_frac(b.re), int) and 0 <= to_frac(b.re) <= 6:
        r = Cx(1, 0)
        for _ in range(to_frac(b.re)):
            r = cx_binop("*", r, a)
        return r
    raise Unsupported(f"complex operator {op}")


def num_binop(op, a, b):
    """op in + - * / // % ** on scalars (Python numbers / z3 terms)."""
    if isinstance(a, Cx) or isinstance(b, Cx):
        return cx_binop(op, a, b)
    if not is_sym(a) and not is_sym(b):
        a, b = to_frac(a), to_frac(b)
        if op == "+":
            r = a + b
        elif op == "-":
            r = a - b
        elif op == "*":
            r = a * b
        elif op == "/":
            if b == 0:
                raise PyRaise("ZeroDivisionError")
            r = Fraction(a) / Fraction(b)
            return r
        elif op == "//":
            if b == 0:
                raise PyRaise("ZeroDivisionError")
            r = a // b
            if isinstance(a, Fraction) or isinstance(b, Fraction):
                r = Fraction(r)
        elif op == "%":
            if b == 0:
                raise PyRaise("ZeroDivisionError")
            r = a % b
        elif op == "**":
            if isinstance(b, int):
                r = Fraction(a) ** b if b < 0 else a ** b
            else:
                raise Unsupported("non-integer power of a constant")
        elif op == "<<":
            r = a << b
        elif op == ">>":
            r = a >> b
        elif op == "&":
            r = a & b
        elif op == "|":
            r = a | b
        elif op == "^":
            r = a ^ b
        else:
            raise Unsupported(op)
        if isinstance(r, Fraction) and not (isinstance(a, Fraction) or isinstance(b, Fraction)) and r.denominator == 1:
            r = int(r)
        return r
    if op == "**":
        if not is_sym(b):
            b = to_frac(b)
            if isinstance(b, int) and 0 <= b <= 8:
                r = 1
                for _ in range(b):
                    r = num_binop("*", r, a)
                return r
            if b == Fraction(1, 2):
                raise Unsupported("x ** 0.5 (use the sqrt model)")
        raise Unsupported("symbolic power")
    if op in ("|", "&", "^") and all((is_sym(x_) and z3.is_bool(x_)) or isinstance(x_, (bool, np.bool_)) for x_ in (a, b)):
        a, b = (bool(a) if isinstance(a, np.bool_) else a), (bool(b) if isinstance(b, np.bool_) else b)
        # boolean masks combined with the bitwise operators (numpy style: (e < 1) | (e > 103))
        pa, pb = (z3.BoolVal(a) if isinstance(a, bool) else a), (z3.BoolVal(b) if isinstance(b, bool) else b)
        return simp({"|": z3.Or, "&": z3.And, "^": z3.Xor}[op](pa, pb))
    az, bz = _unify(a, b)
    if z3.is_bv(az):
        return {"+": lambda: az + bz, "-": lambda: az - bz, "*": lambda: az * bz, "<<": lambda: az << bz,
                ">>": lambda: z3.LShR(az, bz), "&": lambda: az & bz, "|": lambda: az | bz, "^": lambda: az ^ bz,
                "//": lambda: z3.UDiv(az, bz), "%": lambda: z3.URem(az, bz)}[op]()
    if op == "+":
        return az + bz
    if op == "-":
        return az - bz
    if op == "*":
        return az * bz
    if op == "/":
        return to_real(az) / to_real(bz)
    if op == "//":
        return py_floordiv(az, bz)
    if op == "%":
        return py_mod(az, bz)
    raise Unsupported(f"operator {op} on symbolic operands ({type(a).__name__}: {str(a)[:40]}, {type(b).__name__}: {str(b)[:40]})")


def num_cmp(op, a, b):
    if not is_sym(a) and not is_sym(b):
        if isinstance(a, (int, Fraction, bool, float)) and isinstance(b, (int, Fraction, bool, float)):
            a, b = to_frac(a), to_frac(b)
        return {"==": lambda: a == b, "!=": lambda: a != b, "<": lambda: a < b, "<=": lambda: a <= b,
                ">": lambda: a > b, ">=": lambda: a >= b}[op]()
    if isinstance(a, str) or isinstance(b, str) or (is_sym(a) and z3.is_string(a)) or (is_sym(b) and z3.is_string(b)):
        az, bz = z(a), z(b)
    elif (is_sym(a) and z3.is_bool(a)) and (isinstance(b, bool) or (is_sym(b) and z3.is_bool(b))) and op in ("==", "!="):
        az, bz = z(a), z(b)
    else:
        az, bz = _unify(a, b)
    if z3.is_bv(az):
        return {"==": lambda: az == bz, "!=": lambda: az != bz, "<": lambda: z3.ULT(az, bz), "<=": lambda: z3.ULE(az, bz),
                ">": lambda: z3.UGT(az, bz), ">=": lambda: z3.UGE(az, bz)}[op]()
    return {"==": lambda: az == bz, "!=": lambda: az != bz, "<": lambda: az < bz, "<=": lambda: az <= bz,
            ">": lambda: az > bz, ">=": lambda: az >= bz}[op]()


def b_and(*xs):
    out = []
    for x in xs:
        x = simp(x) if is_sym(x) else x
        if x is False:
            return False
        if x is True:
            continue
        out.append(x)
    if not out:
        return True
    return out[0] if len(out) == 1 else z3.And(*out)


def b_or(*xs):
    out = []
    for x in xs:
        x = simp(x) if is_sym(x) else x
        if x is True:
            return True
        if x is False:
            continue
        out.append(x)
    if not out:
        return False
    return out[0] if len(out) == 1 else z3.Or(*out)


def b_not(x):
    if is_sym(x):
        return simp(z3.Not(x))
    return not x


def b_ite(c, a, b):
    if c is True:
        return a
    if c is False:
        return b
    if not is_sym(a) and not is_sym(b) and type(a) is type(b) and a == b:
        return a
    if isinstance(a, (bool, z3.BoolRef)) and isinstance(b, (bool, z3.BoolRef)):
        return z3.If(c, z(a), z(b))
    if isinstance(a, str) or isinstance(b, str):
        return z3.If(c, z(a), z(b))
    az, bz = _unify(a, b)
    return z3.If(c, az, bz)


# ---------------------------------------------------------------------------------------------
class NDArr:
    """Static-shape numpy array of symbolic cells.  kind: 'f' float (Real), 'i' int, 'b' bool, 'o' other."""

    __array_priority__ = 1000

    def __init__(self, data, kind="f"):
        if not (isinstance(data, np.ndarray) and data.dtype == object):
            data = obj_array(data)
        self.data = data
        self.kind = kind

    @property
    def shape(self):
        return self.data.shape

    @property
    def ndim(self):
        return self.data.ndim

    def copy(self):
        return NDArr(self.data.copy(), self.kind)

    def flat(self):
        return list(self.data.reshape(-1))

    def __repr__(self):
        return f"NDArr{self.data.shape}{self.kind}"


def obj_array(x):
    """Nested lists/tuples/NDArr of scalars -> numpy object array (no z3 __eq__/__len__ confusion)."""
    if isinstance(x, NDArr):
        return x.data.copy()
    if isinstance(x, np.ndarray):
        out = np.empty(x.shape, dtype=object)
        for idx in np.ndindex(*x.shape):
            v = x[idx]
            out[idx] = to_frac(v) if not is_sym(v) else v
        return out

    def shape_of(v):
        if isinstance(v, NDArr):
            return v.data.shape
        if isinstance(v, (list, tuple)):
            if len(v) == 0:
                return (0,)
            inner = shape_of(v[0])
            return (len(v),) + inner
        return ()

    shp = shape_of(x)
    out = np.empty(shp, dtype=object)

    def fill(v, idx):
        if isinstance(v, NDArr):
            for sub in np.ndindex(*v.data.shape):
                out[idx + sub] = v.data[sub]
        elif isinstance(v, (list, tuple)):
            if len(idx) >= len(shp):
                raise Unsupported("ragged array")
            if len(v) != shp[len(idx)]:
                raise Unsupported("ragged array")
            for k, e in enumerate(v):
                fill(e, idx + (k,))
        else:
            if len(idx) != len(shp):
                raise Unsupported("ragged array")
            out[idx] = v if is_sym(v) else (to_frac(v) if isinstance(v, (int, float, Fraction, bool, np.number)) else v)

    fill(x, ())
    return out


def arr_kind_of(values):
    k = "i"
    if any(isinstance(v, Cx) for v in values):
        return "c"
    for v in values:
        if not is_sym(v) and not isinstance(v, (int, float, Fraction, bool, np.number)):
            return "o"
        if is_sym(v):
            if z3.is_real(v):
                return "f"
            if z3.is_bool(v):
                k = "b" if k in ("b",) else k
        elif isinstance(v, Fraction):
            return "f"
        elif isinstance(v, bool):
            pass
    return k


def coerce_cell(v, kind):
    if type(v).__name__ == "InfVal":
        return v
    if isinstance(v, Cx):
        if kind == "c":
            return v
        if kind == "f":
            return to_real(v.re)      # numpy discards the imaginary part (with a warning)
        return v
    if kind == "c":
        return Cx(to_real(v), 0) if (is_sym(v) or isinstance(v, (int, Fraction, bool))) else v
    if kind == "f":
        return to_real(v) if (is_sym(v) or isinstance(v, (int, Fraction, bool))) else v
    if kind == "i":
        if is_sym(v) and z3.is_real(v):
            return trunc_to_int(v)
        if isinstance(v, Fraction):
            return int(v)
        return v
    return v


def elementwise(f, *arrs):
    datas = [a.data if isinstance(a, NDArr) else a for a in arrs]
    uf = np.frompyfunc(f, len(datas), 1)
    r = uf(*datas)
    if not isinstance(r, np.ndarray):
        return r
    return r
