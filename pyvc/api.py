"""Helpers for sidecar contract files."""
from fractions import Fraction
import numpy as np
import z3

from .values import NDArr, obj_array, is_sym, z, to_real, simp, b_and, b_or, b_not, num_cmp, num_binop
from .symex import Obj, Interp, Contract, LoopInv, FuncVal
from . import source, cert


def ints(prefix, n):
    return [z3.Int(f"{prefix}{i}") for i in range(n)]


def reals(prefix, n):
    return [z3.Real(f"{prefix}{i}") for i in range(n)]


def int_matrix(prefix, n, m):
    return [[z3.Int(f"{prefix}{i}{j}") for j in range(m)] for i in range(n)]


def real_matrix(prefix, n, m):
    return [[z3.Real(f"{prefix}{i}{j}") for j in range(m)] for i in range(n)]


def farr(rows):
    """float ndarray whose cells are the given terms (Ints are embedded with ToReal)."""
    d = obj_array(rows)
    for ix in np.ndindex(*d.shape):
        d[ix] = to_real(d[ix])
    return NDArr(d, "f")


def iarr(rows):
    return NDArr(obj_array(rows), "i")


def conj(xs):
    xs = [z(x) for x in xs]
    return z3.And(*xs) if xs else z3.BoolVal(True)


def in_set(v, values):
    return z3.Or(*[v == x for x in values])


def shell(I, modname, clsname, **fields):
    """An object of a chmpy class with the given fields, built without running its constructor."""
    mod = source.load_module(modname)
    return Obj(I.class_of(mod, clsname), fields)


def model_float(v):
    return float(Fraction(v)) if not isinstance(v, float) else v


def eq_arrays(a, b):
    """Cell-wise equality of two same-shape NDArr / nested lists as one Bool term."""
    a = a if isinstance(a, NDArr) else NDArr(obj_array(a))
    b = b if isinstance(b, NDArr) else NDArr(obj_array(b))
    if a.shape != b.shape:
        return False
    return b_and(*[num_cmp("==", x, y) for x, y in zip(a.flat(), b.flat())])
