"""Spike: loop invariants with arrays/quantifiers (block layout of apply_all_symops; keep/this_mol loop of molecule_environment)."""
import z3,time
def run(name, cons, to=60000):
    s=z3.Solver(); s.set('timeout',to); s.add(cons)
    t0=time.time(); r=s.check(); print(name, r, round(time.time()-t0,2)); return r
I=z3.IntSort(); R=z3.RealSort()
# ---- block layout: B : block -> site -> value ; apply(op_index, site)
B=z3.Array('B',I,z3.ArraySort(I,R)); app=z3.Function('app',I,I,R); coords=z3.Array('coords',I,R)
other=z3.Function('other',I,I)   # other_symops[i-1] -> original op index
i,M,N,k,ip=z3.Ints('i M N k ip')
inv=lambda Bx,ix: z3.And(z3.ForAll([k], z3.Implies(z3.And(0<=k,k<N), Bx[0][k]==coords[k])),
                         z3.ForAll([ip,k], z3.Implies(z3.And(1<=ip,ip<ix,0<=k,k<N), Bx[ip][k]==app(other(ip-1),k))))
# body: block i := lambda k. app(other(i-1),k)
newblk=z3.Array('newblk',I,R)
B2=z3.Store(B,i,newblk)
pre=[N>0,M>0,1<=i,i<M, inv(B,i), z3.ForAll([k], z3.Implies(z3.And(0<=k,k<N), newblk[k]==app(other(i-1),k)))]
run('block invariant preserved', pre+[z3.Not(inv(B2,i+1))])
# ---- keep / this_mol loop. sets as arrays Int->Bool
S=z3.ArraySort(I,z3.BoolSort())
keep=z3.Array('keep',S.domain(),z3.BoolSort()); 
ball=z3.Function('ball',I,I,z3.BoolSort())   # ball(t, idx): idx within radius of centre atom t
nn=z3.Function('nn',I,I)                     # nearest index of centre atom t (found)
t,T,x,tp=z3.Ints('t T x tp')
def invk(K,tt): # K[x] <=> (exists s<tt: ball(s,x)) and not (exists s<tt: x==nn(s))
    return z3.ForAll([x], K[x]==z3.And(z3.Exists([tp],z3.And(0<=tp,tp<tt,ball(tp,x))), z3.Not(z3.Exists([tp],z3.And(0<=tp,tp<tt,x==nn(tp))))))
# body at iteration t: keep[idxs]=True ; this_mol.append(nn(t)); keep[this_mol]=False
K1=z3.Lambda([x], z3.Or(keep[x], ball(t,x)))
K2=z3.Lambda([x], z3.And(K1[x], z3.Not(z3.Exists([tp],z3.And(0<=tp,tp<=t,x==nn(tp))))))
run('keep invariant preserved', [0<=t,t<T, invk(keep,t), z3.Not(invk(K2,t+1))], 120000)
