import z3,time
D=[[z3.Real(f'd{i}{j}') for j in range(3)] for i in range(3)]
I=[[z3.Real(f'i{i}{j}') for j in range(3)] for i in range(3)]
R=[[z3.Real(f'r{i}{j}') for j in range(3)] for i in range(3)]
f=[z3.Real(f'f{i}') for i in range(3)]; t=[z3.Real(f't{i}') for i in range(3)]
mm=lambda A,B:[[sum(A[i][k]*B[k][j] for k in range(3)) for j in range(3)] for i in range(3)]
T=lambda A:[[A[j][i] for j in range(3)] for i in range(3)]
vm=lambda v,A:[sum(v[k]*A[k][j] for k in range(3)) for j in range(3)]
DI=mm(D,I)
pre=[DI[i][j]==(1 if i==j else 0) for i in range(3) for j in range(3)]
# frac image: f' = f R^T + t ; cart of image: f' D
fp=[a+b for a,b in zip(vm(f,T(R)),t)]
lhs=vm(fp,D)
Rc=T(mm(T(D),mm(R,T(I))))   # (D^T R I^T)^T
tc=vm(t,D)
xc=vm(f,D)
rhs=[a+b for a,b in zip(vm(xc,Rc),tc)]
for k in range(3):
    s=z3.Solver(); s.set('timeout',120000); s.add(pre); s.add(lhs[k]!=rhs[k])
    t0=time.time(); print(k, s.check(), round(time.time()-t0,2))
