import z3,time
def run(name, cons, to=60000):
    s=z3.Solver(); s.set('timeout',to); s.add(cons)
    t0=time.time(); r=s.check(); print(name, r, round(time.time()-t0,2)); return r
M=z3.DeclareSort('M')
mul=z3.Function('mul',M,M,M); tr=z3.Function('tr',M,M); det=z3.Function('det',M,z3.RealSort()); flip=z3.Function('flip',M,M)
E=z3.Const('E',M); A,B,C=z3.Consts('A B C',M)
ax=[z3.ForAll([A,B,C], mul(mul(A,B),C)==mul(A,mul(B,C))),
    z3.ForAll([A,B], tr(mul(A,B))==mul(tr(B),tr(A))),
    z3.ForAll([A], tr(tr(A))==A), z3.ForAll([A], mul(A,E)==A), z3.ForAll([A], mul(E,A)==A),
    z3.ForAll([A,B], det(mul(A,B))==det(A)*det(B)), z3.ForAll([A], det(tr(A))==det(A)), det(E)==1,
    # flip last column: lemma proven separately at scalar level: flip(A) = A*J, J diag(1,1,-1), J*J=E, det J=-1, tr J = J
    ]
J=z3.Const('J',M)
ax+=[z3.ForAll([A], flip(A)==mul(A,J)), mul(J,J)==E, det(J)==-1, tr(J)==J]
V,W=z3.Consts('V W',M)
pre=[mul(tr(V),V)==E, mul(V,tr(V))==E, mul(W,tr(W))==E, mul(tr(W),W)==E]
# branch 1: det(V)*det(W) < 0 -> R = flip(V) W
R1=mul(flip(V),W)
run('orth branch1', ax+pre+[mul(tr(R1),R1)!=E])
run('det branch1', ax+pre+[det(V)*det(W)<0, det(R1)!=1])
R0=mul(V,W)
run('orth branch0', ax+pre+[mul(tr(R0),R0)!=E])
run('det branch0', ax+pre+[z3.Not(det(V)*det(W)<0), det(R0)!=1])
# C19 sign lemma: v.d_j - 1 = (nrm.(d_j-a))/(nrm.a); hull: sign(nrm.(dj-a)) opposite-or-zero to sign(nrm.(0-a)) => v.dj <= 1
x,y=z3.Reals('x y')   # x = nrm.(dj - a), y = nrm.a  (so nrm.(0-a) = -y); v.dj - 1 = x / y
q=z3.Real('q')
run('C19 sign', [y!=0, q*y==x, z3.Or(x==0, z3.And(x>0, -y>0), z3.And(x<0,-y<0)), q>0])
