import z3, time
a,b,c,ca,cb,cg,sg,v,w = z3.Reals('a b c ca cb cg sg v w')
# v = a*b*c*w, w = sqrt(1 - ca^2 - cb^2 - cg^2 + 2 ca cb cg)
pre = [a>0,b>0,c>0, sg>0, sg*sg+cg*cg==1, w>0, w*w == 1 - ca*ca - cb*cb - cg*cg + 2*ca*cb*cg, v == a*b*c*w]
direct = [[a,0,0],[b*cg,b*sg,0],[c*cb, c*(ca-cb*cg)/sg, v/(a*b*sg)]]
inverse = [[1/a,0,0],[-cg/(a*sg), 1/(b*sg), 0],[b*c*(ca*cg-cb)/v/sg, a*c*(cb*cg-ca)/v/sg, a*b*sg/v]]
def mm(A,B): return [[sum(A[i][k]*B[k][j] for k in range(3)) for j in range(3)] for i in range(3)]
P = mm(direct, inverse)
tot=0
for i in range(3):
    for j in range(3):
        s=z3.Solver(); s.set('timeout',20000)
        s.add(pre); s.add(P[i][j] != (1 if i==j else 0))
        t=time.time(); r=s.check(); dt=time.time()-t; tot+=dt
        print(i,j,r,round(dt,2))
# row norms and angles
n2 = lambda r: sum(x*x for x in r)
dot = lambda r,s_: sum(x*y for x,y in zip(r,s_))
checks = {'|a|':n2(direct[0])==a*a,'|b|':n2(direct[1])==b*b,'|c|':n2(direct[2])==c*c,
 'b.c':dot(direct[1],direct[2])==b*c*ca,'a.c':dot(direct[0],direct[2])==a*c*cb,'a.b':dot(direct[0],direct[1])==a*b*cg,
 'det': direct[0][0]*direct[1][1]*direct[2][2]==v}
for k,f in checks.items():
    s=z3.Solver(); s.set('timeout',20000); s.add(pre); s.add(z3.Not(f))
    t=time.time(); r=s.check(); print(k,r,round(time.time()-t,2))
