import z3,time
def run(name, pre, goal, to=60000):
    s=z3.Solver(); s.set('timeout',to); s.add(pre); s.add(z3.Not(goal))
    t0=time.time(); r=s.check(); print(name, r, round(time.time()-t0,2)); return r
# (e) (i*N+k)%N==k
i,N,k=z3.Ints('i N k')
run('mod lemma',[i>=0,N>0,k>=0,k<N],(i*N+k)%N==k)
run('div lemma',[i>=0,N>0,k>=0,k<N],(i*N+k)/N==i)
# (d) sobol triangular: m=12
m=12
V=[z3.BitVec(f'V{j}',32) for j in range(1,m+1)]
g=z3.BitVec('g',32)
pre=[]
for j,v in enumerate(V, start=1):
    pre.append(z3.Extract(32-j,32-j,v)==1)          # bit (32-j) set
    if 32-j>0: pre.append(z3.Extract(32-j-1,0,v)==0) # lower bits zero
acc=z3.BitVecVal(0,32)
for j,v in enumerate(V, start=1):
    acc = acc ^ z3.If(z3.Extract(j-1,j-1,g)==1, v, z3.BitVecVal(0,32))
run('sobol strat m=12', pre+[g!=0, z3.ULT(g, 1<<m)], z3.LShR(acc, 32-m)!=0)
# gray lemma: gray(i) == gray(i-1) ^ (1 << ctz(i))  expressed: gray(i)^gray(i-1) == i & -i
x=z3.BitVec('x',32)
gray=lambda a: a ^ z3.LShR(a,1)
run('gray lemma',[x!=0], gray(x)^gray(x-1) == (x & -x))
# (b) kabsch trivial skipped. (c) wulff vertex identity
import itertools
def vec(n): return [z3.Real(f'{n}{q}') for q in 'xyz']
dot=lambda p,q: sum(a*b for a,b in zip(p,q))
cross=lambda p,q:[p[1]*q[2]-p[2]*q[1], p[2]*q[0]-p[0]*q[2], p[0]*q[1]-p[1]*q[0]]
sub=lambda p,q:[a-b for a,b in zip(p,q)]
na,nb,nc=vec('na'),vec('nb'),vec('nc'); ea,eb,ec=z3.Reals('ea eb ec')
pre=[dot(na,na)==1,dot(nb,nb)==1,dot(nc,nc)==1,ea>0,eb>0,ec>0]
dual=lambda n,e:[x*e/(e*e*dot(n,n)) for x in n]
a,b,c=dual(na,ea),dual(nb,eb),dual(nc,ec)
nrm=cross(sub(b,a),sub(c,a))
inv=dot(nrm,na)
pre.append(inv!=0)
v=[x*ea/inv for x in nrm]
run('wulff on facet a',pre,dot(v,na)==ea)
run('wulff on facet b',pre,dot(v,nb)==eb, 120000)
