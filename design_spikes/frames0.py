"""Throw-away spike: infer assigns(m) for Crystal methods (direct + transitive via self.m())."""
import ast
src=open('/repo/src/chmpy/crystal/crystal.py').read(); tree=ast.parse(src)
cls=[n for n in tree.body if isinstance(n,ast.ClassDef) and n.name=='Crystal'][0]
def path(e):
    if isinstance(e,ast.Name): return e.id
    if isinstance(e,ast.Attribute):
        b=path(e.value); return None if b is None else b+'.'+e.attr
    if isinstance(e,ast.Subscript):
        b=path(e.value); 
        k=e.slice.value if isinstance(e.slice,ast.Constant) else '*'
        return None if b is None else f'{b}[{k!r}]' if k!='*' else b+'[*]'
    if isinstance(e,ast.Call) and isinstance(e.func,ast.Name) and e.func.id=='getattr' and isinstance(e.args[1],ast.Constant):
        b=path(e.args[0]); return None if b is None else b+'.'+e.args[1].value
    return None
info={}
for f in cls.body:
    if not isinstance(f,ast.FunctionDef): continue
    writes=set(); calls=set(); aliases={}
    for n in ast.walk(f):
        if isinstance(n,(ast.Assign,ast.AugAssign,ast.AnnAssign)):
            tg=n.targets if isinstance(n,ast.Assign) else [n.target]
            for t in tg:
                for el in (t.elts if isinstance(t,ast.Tuple) else [t]):
                    p=path(el)
                    if p and p.startswith('self') and not isinstance(el,ast.Name): writes.add(p)
                    # local alias tracking (one level): x = self.a.b
                    if isinstance(el,ast.Name) and isinstance(n,ast.Assign):
                        pv=path(n.value)
                        if pv and pv.startswith('self'): aliases[el.id]=pv
                    if isinstance(el,(ast.Subscript,ast.Attribute)):
                        root=el
                        while isinstance(root,(ast.Subscript,ast.Attribute)): root=root.value
                        if isinstance(root,ast.Name) and root.id in aliases: writes.add(aliases[root.id]+' (via '+root.id+')')
        if isinstance(n,ast.Call):
            if isinstance(n.func,ast.Name) and n.func.id in('setattr','delattr') and path(n.args[0])=='self':
                writes.add('self.'+(n.args[1].value if isinstance(n.args[1],ast.Constant) else '?'))
            if isinstance(n.func,ast.Attribute) and path(n.func.value)=='self': calls.add(n.func.attr)
    info[f.name]=(writes,calls)
# transitive closure
def closure(m,seen=None):
    seen=seen or set()
    if m in seen or m not in info: return set()
    seen.add(m); w=set(info[m][0])
    for c in info[m][1]: w|=closure(c,seen)
    return w
core=('self.unit_cell','self.space_group','self.asymmetric_unit')
for m in info:
    w=closure(m)
    if w: print(f'{m:40s}', sorted(w))
