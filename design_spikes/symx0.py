"""Throw-away spike: symbolic execution of real chmpy source (decode/encode_symm_int) to z3."""
import ast, inspect, z3, time, sys
SRC='/repo/src/chmpy/crystal/symmetry_operation.py'
tree=ast.parse(open(SRC).read())
funcs={n.name:n for n in tree.body if isinstance(n,ast.FunctionDef)}

class Arr:  # static-shape nested list
    def __init__(self, data): self.data=data
class NP: pass
def np_empty(shape, dtype=None):
    if isinstance(shape,int): return Arr([None]*shape)
    r,c=shape; return Arr([[None]*c for _ in range(r)])
def np_array(x):
    if isinstance(x,Arr): return Arr([list(r) if isinstance(r,list) else r for r in x.data])
    return Arr([list(r) if isinstance(r,(list,tuple)) else r for r in x])
def elementwise(f,a):
    return Arr([[f(v) for v in r] if isinstance(r,list) else f(r) for r in a.data])
def rnd(v):   # np.round on a Real -> Int k with |v-k|<=1/2 (ties unspecified)
    if isinstance(v,int): return v
    if z3.is_int(v): return v
    k=z3.FreshInt('rnd'); SIDE.append(z3.And(2*(z3.ToReal(k)-v)<=1, 2*(z3.ToReal(k)-v)>=-1)); return k
SIDE=[]
class Round(Arr): pass
def run(fn, args):
    env=dict(zip([a.arg for a in fn.args.args],args))
    def ev(e):
        if isinstance(e,ast.Constant): return e.value
        if isinstance(e,ast.Name):
            if e.id=='np': return 'np'
            if e.id=='int': return 'int'
            return env[e.id]
        if isinstance(e,ast.Tuple): return tuple(ev(x) for x in e.elts)
        if isinstance(e,ast.BinOp):
            l,r=ev(e.left),ev(e.right)
            if isinstance(l,Arr) or isinstance(r,Arr):
                f={ast.Add:lambda a,b:a+b, ast.Mult:lambda a,b:a*b}[type(e.op)]
                if isinstance(l,Arr): return elementwise(lambda v:f(v,r),l)
                return elementwise(lambda v:f(l,v),r)
            op=type(e.op)
            if op is ast.Add: return l+r
            if op is ast.Sub: return l-r
            if op is ast.Mult: return l*r
            if op is ast.Mod: return l%r
            if op is ast.FloorDiv:
                if isinstance(l,int) and isinstance(r,int): return l//r
                return l/r    # z3 Int div (divisor positive constant here)
            if op is ast.Div:
                l2=z3.ToReal(l) if z3.is_expr(l) and z3.is_int(l) else l
                return l2/r
            raise NotImplementedError(op)
        if isinstance(e,ast.Subscript):
            v=ev(e.value); idx=ev(e.slice)
            if isinstance(idx,tuple): return v.data[idx[0]][idx[1]]
            return v.data[idx]
        if isinstance(e,ast.Attribute):
            b=ev(e.value)
            if b=='np': return ('np',e.attr)
            return (b,e.attr)
        if isinstance(e,ast.Call):
            f=ev(e.func); a=[ev(x) for x in e.args]
            if f==('np','empty'): return np_empty(a[0])
            if f==('np','array'): return np_array(a[0])
            if f==('np','round'): return elementwise(rnd,a[0])
            if isinstance(f,tuple) and f[1]=='astype': return f[0]
            raise NotImplementedError(ast.dump(e.func))
        raise NotImplementedError(ast.dump(e))
    def ex(stmts):
        for s in stmts:
            if isinstance(s,ast.Expr): continue
            if isinstance(s,ast.Assign):
                v=ev(s.value); t=s.targets[0]
                if isinstance(t,ast.Name): env[t.id]=v
                elif isinstance(t,ast.Subscript):
                    base=ev(t.value); idx=ev(t.slice)
                    if isinstance(idx,tuple): base.data[idx[0]][idx[1]]=v
                    else: base.data[idx]=v
                else: raise NotImplementedError
            elif isinstance(s,ast.AugAssign):
                cur=ev(s.target); v=ev(s.value)
                op=type(s.op)
                new={ast.Add:lambda a,b:a+b, ast.Mult:lambda a,b:a*b, ast.FloorDiv:lambda a,b:a//b}[op](cur,v)
                env[s.target.id]=new
            elif isinstance(s,ast.For):
                for it in ev(s.iter):
                    env[s.target.id]=it; r=ex(s.body)
                    if r is not None: return r
            elif isinstance(s,ast.Return): return ev(s.value)
            else: raise NotImplementedError(ast.dump(s))
    return ex(fn.body)

c=z3.Int('c')
R,T=run(funcs['decode_symm_int'],[c])
print('decoded R[0][0] =', R.data[0][0]); print('T[2] =', T.data[2])
code=run(funcs['encode_symm_int'],[R,T])
s=z3.Solver(); s.add(c>=0,c<19683*1728); s.add(SIDE); s.add(code!=c)
t0=time.time(); print('encode(decode(c))==c on REAL source:', s.check(), round(time.time()-t0,2), 'side conds',len(SIDE))
# digits-in-range obligation for arbitrary t in [0,1]
SIDE.clear()
t=[z3.Real(f't{i}') for i in range(3)]
Rv=Arr([[z3.Int(f'r{i}{j}') for j in range(3)] for i in range(3)])
code=run(funcs['encode_symm_int'],[Rv,Arr(t)])
rot_part=sum((Rv.data[i][j]+1)*3**(8-(3*i+j)) for i in range(3) for j in range(3))
s=z3.Solver(); s.add([z3.And(x>=0,x<=1) for x in t]); s.add([z3.And(v>=-1,v<=1) for r in Rv.data for v in r]); s.add(SIDE)
tpart=(code-rot_part)
s.add(z3.Not(z3.And(tpart%19683==0, tpart/19683>=0, tpart/19683<1728, ((tpart/19683)%12) < 12)))   # weak: whole t-field in range
t0=time.time(); r=s.check(); print('t-field in range for t in [0,1]:', r, round(time.time()-t0,2)); 
if r==z3.sat: m=s.model(); print({str(d):m[d] for d in m.decls() if str(d).startswith('t')})
