import z3, time
y=z3.Reals('y0 y1 y2'); u=z3.Reals('u0 u1 u2'); r,s_=z3.Reals('r s')
dot=lambda p,q: sum(a*b for a,b in zip(p,q))
pre=[r>=0, s_>=0, s_*s_==dot(u,u), dot(y,y)<=r*r]
for name,goal in [('cs_upper', dot(y,u) <= r*s_), ('cs_lower', dot(y,u) >= -r*s_)]:
    for solver in ('z3',):
        s=z3.Solver(); s.set('timeout',60000); s.add(pre); s.add(z3.Not(goal))
        t=time.time(); print(name, s.check(), round(time.time()-t,2))
# buggy version: find counterexample: cell rows A, frac displacement d, dist<=r but |d0| > r/|a|
a,bx,by,cx,cy,cz = z3.Reals('a bx by cx cy cz')
d=z3.Reals('d0 d1 d2'); La=z3.Real('La')
A=[[a,0,0],[bx,by,0],[cx,cy,cz]]
cart=[sum(d[k]*A[k][j] for k in range(3)) for j in range(3)]
s=z3.Solver(); s.set('timeout',60000)
s.add(a>0,by>0,cz>0, r>0, dot(cart,cart)<=r*r, d[0] > r/a)
t=time.time(); print('bug cex', s.check(), round(time.time()-t,2)); 
if s.check()==z3.sat: print(s.model())
