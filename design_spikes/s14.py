import z3,time
def run(name, cons, to=120000):
    s=z3.Solver(); s.set('timeout',to); s.add(cons)
    t0=time.time(); r=s.check(); print(name, r, round(time.time()-t0,2)); return r
BV=lambda n: z3.BitVec(n,32)
c=lambda k: z3.BitVecVal(k,32)
def ok(v,j):   # j BV in [1,31]: bits below (32-j) zero and bit (32-j) set
    return z3.And((v << j)==0, (z3.LShR(v, 32-j) & 1)==1)
# step A: acc0 from V[i-s]
x=BV('x'); i=BV('i'); s_=BV('s'); k=BV('k'); y=BV('y'); acc=BV('acc'); bit=BV('bit')
rng=[z3.ULE(1,s_), z3.ULT(s_,i), z3.ULE(i,31)]
run('acc0 ok', rng+[ok(x,i-s_), z3.Not(ok(x ^ z3.LShR(x,s_), i))])
# step B: inner step preserves ok(acc,i): acc ^= bit*V[i-k], bit in {0,1}, 1<=k<s, ok(y,i-k)
run('inner step', rng+[z3.ULE(1,k), z3.ULT(k,s_), ok(acc,i), ok(y,i-k), z3.Or(bit==0,bit==1), z3.Not(ok(acc ^ (bit*y), i))])
# init: V[i] = m << (32 - i) with m odd -> ok
m=BV('m')
run('init ok', [z3.ULE(1,i), z3.ULE(i,31), (m&1)==1, z3.Not(ok(m << (32-i), i))])
# mutated recurrence (>> s-1) must be refuted
r=run('mutant', rng+[ok(x,i-s_), z3.Not(ok(x ^ z3.LShR(x,s_-1), i))])
