import deal
from chmpy.fmt import cif as _c

@deal.pre(lambda n: -10**18 < n < 10**18)
@deal.ensure(lambda n, result: result == n and type(result) is int)
def rt_int(n: int):
    return _c.parse_value(_c.format_field(n).strip())

@deal.pre(lambda s: 0 < len(s) < 12 and s.isprintable() and not s[0] in "_#;$'\"" )
@deal.ensure(lambda s, result: result == s or _c.NUM_ERR_REGEX.fullmatch(s) is not None)
def rt_str(s: str):
    f = _c.format_field(s)
    toks = _c.re.findall(_c.VALUES_REGEX, f.strip())
    return _c.parse_value(toks[0]) if len(toks) == 1 else None
