import z3, time
c=z3.Int('c')
def decode(c):
    r = c % 19683; shift=6561; R=[[None]*3 for _ in range(3)]; T=[None]*3
    for i in (0,1,2):
        for j in (0,1,2):
            R[i][j] = (r % (shift*3)) / shift - 1   # z3 Int / is integer div
            shift//=3
    t = c / 19683; shift=144
    for i in (0,1,2):
        T[i] = ((t % (shift*12)) / shift)   # digit (x/12 later)
        shift//=12
    return R,T
def encode(R,T):
    r=0; shift=1
    for i in (2,1,0):
        for j in (2,1,0):
            r = r + (R[i][j]+1)*shift; shift*=3
    t=0; shift=1
    for i in (2,1,0):
        t = t + T[i]*shift; shift*=12
    return r + t*19683
R,T=decode(c)
s=z3.Solver(); s.set('timeout',60000)
s.add(c>=0, c<19683*1728, encode(R,T)!=c)
t0=time.time(); print('enc(dec(c))==c', s.check(), round(time.time()-t0,2))
s=z3.Solver(); s.set('timeout',60000)
s.add(c>=0, c<19683*1728, z3.Or([z3.Or(R[i][j]<-1,R[i][j]>1) for i in range(3) for j in range(3)]+[z3.Or(T[i]<0,T[i]>11) for i in range(3)]))
t0=time.time(); print('ranges', s.check(), round(time.time()-t0,2))
# dec(enc(R,T)) == (R,T)
Rv=[[z3.Int(f'r{i}{j}') for j in range(3)] for i in range(3)]; Tv=[z3.Int(f't{i}') for i in range(3)]
R2,T2=decode(encode(Rv,Tv))
s=z3.Solver(); s.set('timeout',60000)
s.add([z3.And(x>=-1,x<=1) for row in Rv for x in row]); s.add([z3.And(x>=0,x<=11) for x in Tv])
s.add(z3.Or([R2[i][j]!=Rv[i][j] for i in range(3) for j in range(3)]+[T2[i]!=Tv[i] for i in range(3)]))
t0=time.time(); print('dec(enc)', s.check(), round(time.time()-t0,2))
# with digit 12 allowed (bug): find cex
s=z3.Solver(); s.set('timeout',60000)
s.add([z3.And(x>=-1,x<=1) for row in Rv for x in row]); s.add([z3.And(x>=0,x<=12) for x in Tv])
s.add(z3.Or([R2[i][j]!=Rv[i][j] for i in range(3) for j in range(3)]+[(T2[i]-Tv[i])%12!=0 for i in range(3)]))
t0=time.time(); r=s.check(); print('bug', r, round(time.time()-t0,2)); print(s.model() if r==z3.sat else '')
