import sympy as sp, time
a,b,c,ca,cb,cg,sa,sb,sg,w=sp.symbols('a b c ca cb cg sa sb sg w')
v=a*b*c*w
D=sp.Matrix([[a,0,0],[b*cg,b*sg,0],[c*cb,c*(ca-cb*cg)/sg,v/(a*b*sg)]])
I=sp.Matrix([[1/a,0,0],[-cg/(a*sg),1/(b*sg),0],[b*c*(ca*cg-cb)/v/sg, a*c*(cb*cg-ca)/v/sg, a*b*sg/v]])
hyps=[sa**2+ca**2-1, sb**2+cb**2-1, sg**2+cg**2-1, w**2-(1-ca**2-cb**2-cg**2+2*ca*cb*cg)]
gens=[a,b,c,ca,cb,cg,sa,sb,sg,w]
def check(name, expr):
    t0=time.time()
    num,den=sp.fraction(sp.cancel(sp.together(expr)))
    G=sp.groebner(hyps,*gens,order='grevlex')
    q,r=sp.reduced(sp.expand(num),list(G),*gens,order='grevlex')
    print(name,'remainder',r,'t',round(time.time()-t0,2))
astar=I[:,0]; bstar=I[:,1]; cstar=I[:,2]
check('a*^2', astar.dot(astar)-(b*c*sa/v)**2)
check('b*^2', bstar.dot(bstar)-(a*c*sb/v)**2)
check('c*^2', cstar.dot(cstar)-(a*b*sg/v)**2)
# cos alpha* = (cb*cg - ca)/(sb*sg); claim: b*.c* = |b*||c*| cos alpha*  with |b*|=a c sb/v, |c*|=a b sg/v
check('alpha*', bstar.dot(cstar)-(a*c*sb/v)*(a*b*sg/v)*(cb*cg-ca)/(sb*sg))
check('beta*', astar.dot(cstar)-(b*c*sa/v)*(a*b*sg/v)*(ca*cg-cb)/(sa*sg))
check('gamma*', astar.dot(bstar)-(b*c*sa/v)*(a*c*sb/v)*(ca*cb-cg)/(sa*sb))
# Gram determinant identity for general vectors
X=sp.Matrix(3,3,sp.symbols('x0:9'))
G=X*X.T
print('gram det', sp.expand(G.det()-X.det()**2))
