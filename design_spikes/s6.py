import z3,time
M=z3.DeclareSort('M')
mul=z3.Function('mul',M,M,M); add=z3.Function('add',M,M,M); tr=z3.Function('tr',M,M)
E=z3.Const('E',M)
A,B,C=z3.Consts('A B C',M)
ax=[
 z3.ForAll([A,B,C], mul(mul(A,B),C)==mul(A,mul(B,C))),
 z3.ForAll([A,B,C], mul(add(A,B),C)==add(mul(A,C),mul(B,C))),
 z3.ForAll([A,B], tr(mul(A,B))==mul(tr(B),tr(A))),
 z3.ForAll([A], tr(tr(A))==A),
 z3.ForAll([A], mul(A,E)==A), z3.ForAll([A], mul(E,A)==A),
]
D,I,R,f,t=z3.Consts('D I R f t',M)
pre=[mul(D,I)==E]
lhs=mul(add(mul(f,tr(R)),t),D)
Rc=tr(mul(tr(D),mul(R,tr(I))))
rhs=add(mul(mul(f,D),Rc), mul(t,D))
s=z3.Solver(); s.set('timeout',60000); s.add(ax); s.add(pre); s.add(lhs!=rhs)
t0=time.time(); print(s.check(), round(time.time()-t0,2))
# mutated: missing transpose  -> should not be provable (expect unknown or sat)
Rc2=mul(tr(D),mul(R,tr(I)))
rhs2=add(mul(mul(f,D),Rc2), mul(t,D))
s=z3.Solver(); s.set('timeout',10000); s.add(ax); s.add(pre); s.add(lhs!=rhs2)
t0=time.time(); print('mutant', s.check(), round(time.time()-t0,2))
