import z3,time
dV,dW,dR=z3.Reals('dV dW dR')
s=z3.Solver(); s.set('timeout',20000)
s.add(dV*dV==1, dW*dW==1, dV*dW<0, dR==(dV*-1)*dW, dR!=1)
t0=time.time(); print('det ground', s.check(), round(time.time()-t0,2))
s=z3.Solver(); s.set('timeout',20000)
s.add(dV*dV==1, dW*dW==1, z3.Not(dV*dW<0), dR==dV*dW, dR!=1)
t0=time.time(); print('det ground b0', s.check(), round(time.time()-t0,2))
