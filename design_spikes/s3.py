import z3, time
S=z3.StringVal
fx,fy,fz,sym=z3.Strings('fx fy fz sym')
pre=[z3.Length(fx)==10,z3.Length(fy)==10,z3.Length(fz)==10,z3.Length(sym)==3]
def chk(name, line):
    for nm,goal in [('x',z3.SubString(line,0,10)==fx),('y',z3.SubString(line,10,10)==fy),('z',z3.SubString(line,20,10)==fz),('sym',z3.SubString(line,31,3)==sym)]:
        s=z3.Solver(); s.set('timeout',30000); s.add(pre); s.add(z3.Not(goal))
        t=time.time(); r=s.check(); print(name,nm,r,round(time.time()-t,2), s.model() if r==z3.sat else '')
chk('buggy', z3.Concat(fx,S(" "),fy,S(" "),fz,S(" "),sym, S("  0")))
chk('fixed', z3.Concat(fx,fy,fz,S(" "),sym, S("  0")))
# integer format: f"{n: 3d}" = pad_left(sign+digits, 3)
n=z3.Int('n'); 
digits=z3.IntToStr(n)
body=z3.Concat(S(" "),digits)
out=z3.If(z3.Length(body)>=3, body, z3.If(z3.Length(body)==2, z3.Concat(S(" "),body), z3.Concat(S("  "),body)))
s=z3.Solver(); s.set('timeout',30000); s.add(n>=0,n<=200, z3.Length(out)!=3)
t=time.time(); r=s.check(); print('fmt 3d width', r, round(time.time()-t,2), s.model() if r==z3.sat else '')
s=z3.Solver(); s.set('timeout',30000); s.add(n>=0,n<=99, z3.Length(out)!=3)
t=time.time(); r=s.check(); print('fmt 3d width<=99', r, round(time.time()-t,2))
# parse back: int(out) == n  (str.to_int of stripped)
s=z3.Solver(); s.set('timeout',30000); s.add(n>=0,n<=99, z3.StrToInt(z3.SubString(out, z3.Length(out)-z3.Length(digits), z3.Length(digits)))!=n)
t=time.time(); r=s.check(); print('roundtrip', r, round(time.time()-t,2))
