import z3,time
def run(name, pre, goal, to=60000, tactic=None):
    s=z3.Solver() if tactic is None else z3.Then('simplify','nlsat').solver() if tactic=='nlsat' else z3.SolverFor(tactic)
    s.set('timeout',to); s.add(pre); s.add(z3.Not(goal))
    t0=time.time(); r=s.check(); print(name, r, round(time.time()-t0,2)); return r
def vec(n): return [z3.Real(f'{n}{q}') for q in 'xyz']
dot=lambda p,q: sum(a*b for a,b in zip(p,q))
cross=lambda p,q:[p[1]*q[2]-p[2]*q[1], p[2]*q[0]-p[0]*q[2], p[0]*q[1]-p[1]*q[0]]
sub=lambda p,q:[a-b for a,b in zip(p,q)]
na,nb,nc=vec('na'),vec('nb'),vec('nc'); ea,eb,ec=z3.Reals('ea eb ec')
# dual vectors as fresh vars with defining equations cleared of denominators: d * (e*e*n.n) = n*e
a,b,c=vec('a'),vec('b'),vec('c')
pre=[dot(na,na)==1,dot(nb,nb)==1,dot(nc,nc)==1,ea>0,eb>0,ec>0]
for d,n,e in ((a,na,ea),(b,nb,eb),(c,nc,ec)):
    for q in range(3): pre.append(d[q]*e == n[q])      # using n.n==1: d = n/e
nrm=cross(sub(b,a),sub(c,a))
inv=z3.Real('inv'); pre += [inv==dot(nrm,na), inv!=0]
v=vec('v')
for q in range(3): pre.append(v[q]*inv == nrm[q]*ea)
run('on a',pre,dot(v,na)==ea)
run('on b',pre,dot(v,nb)==eb)
run('on b QF_NRA',pre,dot(v,nb)==eb, tactic='QF_NRA')
# help: key fact v.(b-a)=0 since nrm ⟂ (b-a)
run('nrm perp', [], dot(nrm, sub(b,a))==0)
