import sympy as sp, time
na=sp.symbols('nax nay naz'); nb=sp.symbols('nbx nby nbz'); nc=sp.symbols('ncx ncy ncz'); ea,eb,ec=sp.symbols('ea eb ec')
dot=lambda p,q: sum(a*b for a,b in zip(p,q))
cross=lambda p,q:[p[1]*q[2]-p[2]*q[1], p[2]*q[0]-p[0]*q[2], p[0]*q[1]-p[1]*q[0]]
sub=lambda p,q:[a-b for a,b in zip(p,q)]
dual=lambda n,e:[x*e/(e*e*dot(n,n)) for x in n]
a,b,c=dual(na,ea),dual(nb,eb),dual(nc,ec)
nrm=cross(sub(b,a),sub(c,a)); inv=dot(nrm,na)
v=[x*ea/inv for x in nrm]
t0=time.time()
for nm,(n,e) in {'a':(na,ea),'b':(nb,eb),'c':(nc,ec)}.items():
    expr=sp.together(dot(v,n)-e)
    num,den=sp.fraction(sp.cancel(expr))
    hyps=[dot(na,na)-1,dot(nb,nb)-1,dot(nc,nc)-1]
    q,r=sp.reduced(sp.expand(num),hyps,*na,*nb,*nc,ea,eb,ec)
    print(nm,'remainder',r, 'time',round(time.time()-t0,2))
