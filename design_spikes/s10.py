import z3,time
S=z3.StringVal
letters=z3.Union(z3.Range('a','z'),z3.Range('A','Z'))
digit=z3.Range('0','9')
def run(name, cons, to=30000):
    s=z3.Solver(); s.set('timeout',to); s.add(cons)
    t0=time.time(); r=s.check(); print(name, r, round(time.time()-t0,2), s.model() if r==z3.sat else ''); return r
d,suf,g,rest=z3.Strings('d suf g rest')
for sym in ("C","Ca","cL","H"):
    label=z3.Concat(S(sym),d,suf)
    cons=[z3.InRe(d,z3.Plus(digit)), label==z3.Concat(g,rest), z3.InRe(g,z3.Plus(letters)),
          z3.Or(rest==S(""), z3.Not(z3.InRe(z3.SubString(rest,0,1),letters))),
          g!=S(sym)]
    run('label '+sym, cons)
# without digits (suffix arbitrary): expect sat (e.g. "C"+"a")
label=z3.Concat(S("C"),suf)
run('label no digits', [label==z3.Concat(g,rest), z3.InRe(g,z3.Plus(letters)), z3.Or(rest==S(""), z3.Not(z3.InRe(z3.SubString(rest,0,1),letters))), g!=S("C")])
# (g) fixed-point format model: x real, k = round(x*10^4); text = sign + int(|k| div 10^4) + "." + pad4(|k| mod 10^4); len==10 iff ...
x=z3.Real('x'); k=z3.Int('k')
ip=z3.Int('ip'); fp=z3.Int('fp')
pre=[2*(z3.ToReal(k)-x*10000)<=1, 2*(z3.ToReal(k)-x*10000)>-1, k>=0, ip==k/10000, fp==k%10000]
frac=z3.IntToStr(fp)
fracp=z3.If(z3.Length(frac)==4,frac,z3.If(z3.Length(frac)==3,z3.Concat(S("0"),frac),z3.If(z3.Length(frac)==2,z3.Concat(S("00"),frac),z3.Concat(S("000"),frac))))
body=z3.Concat(z3.IntToStr(ip),S("."),fracp)
run('f width<=10 when x<99999.99995', pre+[x>=0, x<z3.RealVal('99999.99995'), z3.Length(body)>10])
run('f width>10 possible when bigger', pre+[x>=0, x<1000000, z3.Length(body)>10])
# parse back: value = ip + fp/10^4 ; |value - x| <= 0.5e-4
val=z3.ToReal(z3.StrToInt(z3.SubString(body,0,z3.IndexOf(body,S("."),0)))) + z3.ToReal(z3.StrToInt(z3.SubString(body,z3.IndexOf(body,S("."),0)+1,4)))/10000
run('f roundtrip', pre+[x>=0,x<100000, z3.Or(val-x>z3.RealVal('0.00005'), x-val>z3.RealVal('0.00005'))], 60000)
