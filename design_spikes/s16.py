"""Spike: structured-string symbolic execution of the REAL fmt/sdf.py to_atom_line + parse via _ATOM_FIELDS.
Segments: ('lit', text) | ('fmt', name, kind, width, prec, flags)  with symbolic length terms (z3 Int)."""
import ast, z3, time
SRC='/repo/src/chmpy/fmt/sdf.py'
tree=ast.parse(open(SRC).read())
fn={n.name:n for n in tree.body if isinstance(n,ast.FunctionDef)}
tables={}
for n in tree.body:
    if isinstance(n,ast.Assign) and isinstance(n.targets[0],ast.Name) and n.targets[0].id.startswith('_'):
        try: tables[n.targets[0].id]=ast.literal_eval(ast.unparse(n.value).replace('lambda x: x.strip()','"strip"').replace('int','"int"').replace('float','"float"').replace('bool','"bool"').replace('str,','"str",'))
        except Exception as e: pass
class Seg:
    def __init__(s,kind,**kw): s.kind=kind; s.__dict__.update(kw)
side=[]
def fmt_segment(name, spec):
    # spec like '10.4f', ' 3d', '2d', '3s'
    flags=' ' if spec.startswith(' ') else ''
    sp=spec.strip()
    kind=sp[-1]; body=sp[:-1]
    width=int(body.split('.')[0]) if body else 0
    L=z3.Int(f'len_{name}')
    if kind=='f':
        # precondition chosen in the contract: value fits => len == width
        side.append(L==width)
    elif kind=='d':
        nd=z3.Int(f'nd_{name}'); side.append(nd>=1)
        minimal = nd + (1 if flags==' ' else 0)      # sign column for ' ' flag (non-negative) 
        side.append(L==z3.If(minimal>width, minimal, width))
        Seg_nd[name]=nd
    elif kind=='s':
        sl=z3.Int(f'slen_{name}'); side.append(sl>=0); side.append(L==z3.If(sl>width,sl,width)); Seg_nd[name]=sl
    return Seg('fmt',name=name,len=L,spec=spec)
Seg_nd={}
def exec_to_atom_line():
    f=fn['to_atom_line']; ret=[s for s in f.body if isinstance(s,ast.Return)][0].value
    parts=[]
    def walk(e):
        if isinstance(e,ast.JoinedStr):
            for v in e.values:
                if isinstance(v,ast.Constant): parts.append(Seg('lit',text=v.value,len=z3.IntVal(len(v.value))))
                else:
                    spec=''.join(c.value for c in v.format_spec.values) if v.format_spec else ''
                    parts.append(fmt_segment(v.value.id,spec))
        elif isinstance(e,ast.BinOp): walk(e.left); walk(e.right)
        else: raise NotImplementedError(ast.dump(e))
    walk(ret); return parts
parts=exec_to_atom_line()
print('segments:', [(p.kind, getattr(p,'name',getattr(p,'text',None))) for p in parts][:12],'...')
# offsets
off={}; cur=z3.IntVal(0)
for p in parts:
    if p.kind=='fmt': off[p.name]=(cur,p.len)
    cur=cur+p.len
total=cur
# parser slices from _ATOM_FIELDS (real table): field name -> [n, n+length)
n=0; obl=[]
for (name,parser,length) in tables['_ATOM_FIELDS']:
    if name in off: obl.append((name,n,length,off[name]))
    n+=length
def check(name, cons):
    s=z3.Solver(); s.add(side); s.add(cons); t0=time.time(); r=s.check(); 
    return r, round(time.time()-t0,3), (s.model() if r==z3.sat else None)
# contract preconditions: ints written are 1-digit non-negative here except we leave nd free in [1,2]; symbol length in [1,2]
pre=[]
for k,v in Seg_nd.items():
    pre.append(v<=2 if k!='symbol' else z3.And(v>=1,v<=2))
for name,start,length,(o,l) in obl:
    r,t,m=check(name, pre+[z3.Not(z3.And(o==start, l==length))])
    print(f'{name:16s} slice [{start},{start+length}) vs written at offset/len:', 'ALIGNED (proved)' if r==z3.unsat else f'MISALIGNED e.g. offset={m.eval(o)} len={m.eval(l)}', t,'s')
r,t,m=check('total', pre+[total!=69]); print('len(line)==69:', r, (m.eval(total) if m else ''))
