#!/usr/bin/env python3
"""Re-run ./check for every seeded change (seeded/<Cxx>-m<k>/patch.diff) in scratch worktrees of /repo HEAD (one per worker, removed at the end) and refresh
meta.json['check_result'].  A change whose own property check exits 0 is also run against the properties named in meta['also_check'] / 'check_note' ("./check Cyy").
usage: tools/recheck_seeded.py [Cxx ...]"""
import json, os, re, subprocess, sys, shutil
from concurrent.futures import ThreadPoolExecutor
ROOT = os.path.dirname(os.path.dirname(os.path.abspath(__file__)))
want = set(sys.argv[1:])
entries = sorted(e for e in os.listdir(f"{ROOT}/seeded") if os.path.exists(f"{ROOT}/seeded/{e}/patch.diff") and (not want or e.split("-")[0] in want))
NW = 8
wts = [f"/tmp/recheck_wt_{i}" for i in range(NW)]
for w in wts:
    subprocess.run(["git", "-C", "/repo", "worktree", "remove", "--force", w], capture_output=True)
    subprocess.run([f"{ROOT}/tools/mkworktree.sh", w], capture_output=True, check=True)


def run_check(prop, wt):
    c = subprocess.run(f"./check {prop} --tier quick", shell=True, cwd=ROOT, capture_output=True, text=True, env=dict(os.environ, CHMPY_VERIF_REPO=wt))
    viol = [l for l in c.stdout.splitlines() if l.startswith("VIOLATION")]
    return c.returncode, viol


def work(args):
    i, e = args
    wt = wts[i % NW]
    return e, wt


import threading
locks = {w: threading.Lock() for w in wts}


def job(e_idx):
    idx, e = e_idx
    wt = wts[idx % NW]
    with locks[wt]:
        subprocess.run(["git", "-C", wt, "checkout", "-q", "--", "src"], capture_output=True)
        a = subprocess.run(["git", "-C", wt, "apply", f"{ROOT}/seeded/{e}/patch.diff"], capture_output=True, text=True)
        mp = f"{ROOT}/seeded/{e}/meta.json"
        meta = json.load(open(mp))
        if a.returncode:
            meta["check_result"] = {"cmd": "n/a", "exit": None, "note": "patch no longer applies to the current tree (the lines it changes were repaired by a fix: commit)"}
            json.dump(meta, open(mp, "w"), indent=1)
            return f"{e}: patch does not apply"
        prop = e.split("-")[0]
        rc, viol = run_check(prop, wt)
        meta["check_result"] = {"cmd": f"./check {prop} --tier quick", "exit": rc, "violations": len(viol), "first_obligations": [v.split("replay=")[1].split("/")[-1][:110] for v in viol[:4]]}
        out = f"{e}: {prop} exit {rc} ({len(viol)} violations)"
        if rc != 1:
            others = re.findall(r"\./check (C\d\d)", meta.get("check_note", "")) + list(meta.get("also_check", []))
            for o in dict.fromkeys(others):
                rc2, v2 = run_check(o, wt)
                meta.setdefault("sibling_results", {})[o] = {"exit": rc2, "violations": len(v2)}
                out += f" | {o} exit {rc2}"
        subprocess.run(["git", "-C", wt, "checkout", "-q", "--", "src"], capture_output=True)
        json.dump(meta, open(mp, "w"), indent=1)
        return out


with ThreadPoolExecutor(max_workers=NW) as ex:
    for line in ex.map(job, list(enumerate(entries))):
        print(line, flush=True)
for w in wts:
    subprocess.run(["git", "-C", "/repo", "worktree", "remove", "--force", w], capture_output=True)
    shutil.rmtree(w, ignore_errors=True)
subprocess.run(["git", "-C", "/repo", "worktree", "prune"])
