#!/bin/sh
# Re-run every claimed check (quick tier) on the current /repo tree so that the committed evidence comes from the unchanged tree.
cd /verif
if [ -n "$(git -C /repo status --porcelain --untracked-files=no)" ]; then echo "refusing: /repo has uncommitted changes"; exit 1; fi
rc=0
for p in $(python3 -c "import json; print(' '.join(c['property_id'] for c in json.load(open('MANIFEST.json'))['checks']))"); do
  if [ -n "$1" ] && [ "$1" != "$p" ]; then continue; fi
  ./check $p --tier quick | tail -1
  [ $? -eq 0 ] || rc=1
done
.venv/bin/python - <<'PY'
import json, jsonschema, glob
sch = json.load(open('/root/.vp/EVIDENCE.schema.json'))
claimed = {c['property_id'] for c in json.load(open('/verif/MANIFEST.json'))['checks']}
for f in sorted(glob.glob('/verif/evidence/*.json')):
    if f.split('/')[-1][:-5] not in claimed:
        continue
    d = json.load(open(f)); jsonschema.validate(d, sch)
    c = d['coverage']
    assert d['violations'] == 0, f
    if d['level'] == 'proof':
        assert c['obligations'] == c['discharged'] > 0, (f, c['obligations'], c['discharged'])
jsonschema.validate(json.load(open('/verif/MANIFEST.json')), json.load(open('/root/.vp/MANIFEST.schema.json')))
print('evidence + manifest valid')
PY
