#!/usr/bin/env python3
"""Confirm sub-agent mutants in their scratch worktree, run the /verif check against each (in the scratch worktree, CHMPY_VERIF_REPO),
and store the confirmed ones under /verif/seeded/<prop>-m<k>/."""
import json, os, shutil, subprocess, sys

prop, wt = sys.argv[1], sys.argv[2]
offset = int(sys.argv[3]) if len(sys.argv) > 3 else 0
env = dict(os.environ, PYTHONPATH=f"{wt}/src")


def sh(cmd, cwd=wt, **kw):
    return subprocess.run(cmd, shell=True, cwd=cwd, env=env, capture_output=True, text=True, **kw)


import re
sh("git checkout -- src")
_base = sh("/venv/bin/python -m pytest -q -p no:cacheprovider src/chmpy/tests 2>&1 | tail -1").stdout
BASE = tuple(re.findall(r"(\d+) (failed|passed)", _base))
print("baseline on the unchanged worktree:", BASE)
for name in sorted(os.listdir(f"{wt}/mutants")):
    d = f"{wt}/mutants/{name}"
    if not os.path.exists(f"{d}/patch.diff"):
        continue
    sh("git checkout -- src")
    base_demo = sh(f"/venv/bin/python {d}/demo.py")
    a = sh(f"git apply {d}/patch.diff")
    if a.returncode:
        print(name, "patch does not apply", a.stderr[:200]); continue
    t = sh("/venv/bin/python -m pytest -q -p no:cacheprovider src/chmpy/tests 2>&1 | tail -1")
    mut_demo = sh(f"/venv/bin/python {d}/demo.py")
    sh("git checkout -- src")
    tests_ok = tuple(re.findall(r"(\d+) (failed|passed)", t.stdout)) == BASE
    ok = tests_ok and base_demo.returncode == 0 and mut_demo.returncode != 0
    print(name, "tests:", t.stdout.strip()[-40:], "| demo base rc", base_demo.returncode, "mutant rc", mut_demo.returncode, "=> confirmed" if ok else "=> REJECTED")
    if not ok:
        continue
    # run our check against the scratch worktree with the mutant applied (CHMPY_VERIF_REPO: /repo and /verif/evidence are not touched)
    sh(f"git apply {d}/patch.diff")
    try:
        c = subprocess.run(f"./check {prop} --tier quick", shell=True, cwd="/verif", capture_output=True, text=True, env=dict(os.environ, CHMPY_VERIF_REPO=wt))
    finally:
        sh("git checkout -- src")
    viol = [l for l in c.stdout.splitlines() if l.startswith("VIOLATION")]
    k = int(name.lstrip("m")) + offset
    dest = f"/verif/seeded/{prop}-m{k}"
    os.makedirs(dest, exist_ok=True)
    for f in ("patch.diff", "demo.py"):
        shutil.copy(f"{d}/{f}", dest)
    meta = json.load(open(f"{d}/meta.json"))
    meta.update({"breaks_property": prop, "confirmed": {"tests_with_change": t.stdout.strip()[-60:], "demo_exit_unchanged": base_demo.returncode,
                 "demo_exit_with_change": mut_demo.returncode, "how": "scratch worktree: git apply, full test suite, demo.py; git checkout; demo.py"},
                 "check_result": {"cmd": f"./check {prop} --tier quick", "exit": c.returncode, "violations": len(viol),
                                  "first_obligations": [v.split("replay=")[1].split("/")[-1][:110] for v in viol[:4]]}})
    json.dump(meta, open(f"{dest}/meta.json", "w"), indent=1)
    print("   check exit", c.returncode, "violations", len(viol))
