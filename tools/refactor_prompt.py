#!/usr/bin/env python3
import json, sys
pid, wt, n = sys.argv[1], sys.argv[2], sys.argv[3]
p = {json.loads(l)['id']: json.loads(l) for l in open('/verif/properties.jsonl')}[pid]
print(f"""You are helping test a verification effort for the Python library chmpy (computational chemistry: crystals, molecules, space groups, file formats, surfaces).

You have your own scratch git worktree of the library at {wt} (source under {wt}/src/chmpy). Work ONLY inside {wt}; never touch /repo or /verif and do not read anything under /verif.

PROPERTY that the library satisfies and must KEEP satisfying:
  id: {pid}
  title: {p['title']}
  statement: {p['statement']}
  relevant files: {', '.join(p['anchors']['files'])}

YOUR TASK: produce {n} DIFFERENT behaviour-preserving refactorings ("harmless edits") of the code this property depends on — the kind of clean-up a maintainer might do without changing what the functions compute for ANY input: rename local variables, reorder independent statements, inline or extract a small helper function, replace a loop by an equivalent comprehension (or the reverse), rewrite an expression in an algebraically identical form that is also identical in floating point for practical purposes (e.g. a*b -> b*a, x[lower:upper] with renamed bounds, np.dot(a, b) -> a @ b, using a temporary), change string quoting style, add or remove comments/docstrings, reformat long calls. Each refactoring should touch the core functions of the property (not just unrelated code) and should be non-trivial (5-40 changed lines). They must NOT change behaviour: same results, same exceptions, same side effects, for every input. Do not edit tests, do not touch .pyx/.c/.so files or data files.

How to run things:
  * test suite:   cd {wt} && PYTHONPATH={wt}/src /venv/bin/python -m pytest -q -p no:cacheprovider src/chmpy/tests 2>&1 | tail -5     (expected on the unchanged tree AND with every refactoring: "1 failed, 97 passed")
  * scripts:      cd {wt} && PYTHONPATH={wt}/src /venv/bin/python your_script.py

For EACH refactoring k = 1..{n} deliver in {wt}/refactors/r<k>/ :
  * patch.diff   — `git diff -- src` relative to the unchanged worktree (applicable with `git apply` from the worktree root);
  * equiv.py     — a stand-alone script that exercises the refactored functions on a good range of inputs (including edge cases relevant to the property) and prints a deterministic digest (e.g. sha256 of repr of rounded results); run it on the unchanged tree and with the refactoring and confirm the digests are IDENTICAL;
  * meta.json    — {{"property": "{pid}", "summary": "<what was refactored>", "files": [...]}}.
Procedure: edit, run tests (97 passed / 1 failed), run equiv.py and record the digest, save the diff, `git checkout -- src`, run equiv.py again and compare digests (must be identical). Discard any refactoring whose digest differs.

Reply with a short list (directory + one-line summary each). Leave the worktree restored (git status clean except refactors/).""")
