#!/bin/sh
# usage: tools/mkworktree.sh <dir>   -- scratch git worktree of /repo HEAD with the compiled extension modules copied in
set -e
D="$1"
git -C /repo worktree add --detach "$D" HEAD >/dev/null 2>&1
cd /repo
find src -name "*.so" | while read f; do cp "$f" "$D/$f"; done
echo "$D"
