#!/bin/sh
# usage: tools/try_mutant.sh <patch.diff> <Cxx> [tier]   -- apply to /repo, run the check, undo
P="$1"; C="$2"; T="${3:-quick}"
git -C /repo apply "$P" || { echo "APPLY FAILED"; exit 9; }
cd /verif && ./check "$C" --tier "$T" > /tmp/try_mutant.out 2>&1; rc=$?
git -C /repo checkout -- .; git -C /verif checkout -- evidence 2>/dev/null
grep -c "^VIOLATION" /tmp/try_mutant.out | sed "s/^/violations: /"
grep "^VIOLATION" /tmp/try_mutant.out | head -3 | cut -c1-220
tail -1 /tmp/try_mutant.out
echo "exit=$rc"
