#!/usr/bin/env python3
import json, sys
pid, wt, n = sys.argv[1], sys.argv[2], sys.argv[3]
p = {json.loads(l)['id']: json.loads(l) for l in open('/verif/properties.jsonl')}[pid]
print(open('/verif/tools/mutant_prompt.txt').read().format(WT=wt, ID=pid, TITLE=p['title'], STATEMENT=p['statement'], QUANT=p['quantifier']['text'], FILES=", ".join(p['anchors']['files']), N=n))
