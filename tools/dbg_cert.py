import sys, time; sys.path.insert(0,'/verif')
import importlib
from pyvc.checkctx import CheckContext
from pyvc import cert
prop = sys.argv[1]; pat = sys.argv[2]
C = importlib.import_module('contracts.' + prop)
ctx = CheckContext(prop)
if hasattr(C,'constructors'): C.constructors=lambda *a: None
C.build(ctx)
for r in ctx.records:
    if pat in r.ident:
        print(r.ident, r.verdict, r.backend, r.detail)
