#!/usr/bin/env python3
"""Run ./check <prop> (and optionally other props) against each harmless refactoring produced in a scratch worktree: every run must exit 0."""
import json, os, subprocess, sys
prop, wr = sys.argv[1], sys.argv[2]
others = sys.argv[3:]
env = dict(os.environ, CHMPY_VERIF_REPO=wr)
def sh(cmd, cwd=wr, **kw):
    return subprocess.run(cmd, shell=True, cwd=cwd, capture_output=True, text=True, **kw)
for name in sorted(os.listdir(f"{wr}/refactors")):
    d = f"{wr}/refactors/{name}"
    if not os.path.exists(f"{d}/patch.diff"):
        continue
    sh("git checkout -- src && git clean -fdq src")
    a = sh(f"git apply {d}/patch.diff")
    if a.returncode:
        print(name, "patch does not apply"); continue
    t = sh(f"PYTHONPATH={wr}/src /venv/bin/python -m pytest -q -p no:cacheprovider src/chmpy/tests 2>&1 | tail -1")
    summ = json.load(open(f"{d}/meta.json")).get("summary", "")[:90]
    for p in [prop] + others:
        c = subprocess.run(f"./check {p} --tier quick", shell=True, cwd="/verif", capture_output=True, text=True, env=env)
        last = c.stdout.strip().splitlines()[-1] if c.stdout.strip() else c.stderr[-200:]
        flag = "ok" if c.returncode == 0 else "FALSE-ALARM"
        print(f"{name} [{t.stdout.strip()[:22]}] {p}: exit {c.returncode} {flag} | {summ}")
        if c.returncode != 0:
            for l in c.stdout.splitlines():
                if l.startswith(("VIOLATION", "UNDECIDED", "CHECKER")):
                    print("     ", l[:200])
    sh("git checkout -- src && git clean -fdq src")
