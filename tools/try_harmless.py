#!/usr/bin/env python3
"""Replay the corpus of behaviour-preserving refactorings (harmless/<Cxx>-r<k>/patch.diff) against the checks: every check must exit 0.
usage: tools/try_harmless.py [Cxx ...]   (default: every corpus entry against the property it was written for)
A scratch worktree of /repo is created under /tmp and removed at the end; /repo itself is not touched."""
import json, os, subprocess, sys, tempfile, shutil
from concurrent.futures import ThreadPoolExecutor
ROOT = os.path.dirname(os.path.dirname(os.path.abspath(__file__)))
want = set(sys.argv[1:])
entries = sorted(e for e in os.listdir(f"{ROOT}/harmless") if os.path.exists(f"{ROOT}/harmless/{e}/patch.diff") and (not want or e.split("-")[0] in want))
EXTRA = {"C01": ["C02", "C14"], "C02": ["C01", "C11", "C10"], "C03": ["C14"], "C04": ["C14", "C17"], "C05": ["C06", "C17"], "C06": ["C05"], "C07": ["C08"], "C08": ["C07", "C09"], "C09": ["C08", "C07", "C05"], "C10": ["C15", "C02", "C11", "C12"], "C11": ["C17", "C01", "C02"], "C12": ["C13"], "C13": ["C12", "C14", "C01", "C02"], "C14": ["C01", "C03", "C04", "C13"], "C15": ["C10"], "C16": ["C05", "C17"], "C17": ["C11", "C16"], "C18": ["C11"]}


def run(e):
    wt = tempfile.mkdtemp(prefix=f"harmless_{e}_", dir="/tmp")
    os.rmdir(wt)
    out = []
    try:
        subprocess.run([f"{ROOT}/tools/mkworktree.sh", wt], capture_output=True, check=True)      # worktree + compiled extension modules
        a = subprocess.run(["git", "-C", wt, "apply", f"{ROOT}/harmless/{e}/patch.diff"], capture_output=True, text=True)
        if a.returncode:
            return [f"{e}: patch does not apply (tree moved on)"]
        env = dict(os.environ, CHMPY_VERIF_REPO=wt)
        prop = e.split("-")[0]
        meta = json.load(open(f"{ROOT}/harmless/{e}/meta.json"))
        for p in [prop] + EXTRA.get(prop, []):
            c = subprocess.run(f"./check {p} --tier quick", shell=True, cwd=ROOT, capture_output=True, text=True, env=env)
            expected = meta.get("expected_exit", 0) if p == prop else 0       # a few entries are recorded as 'left undecided' (exit 2, no VIOLATION line): see meta.json
            ok = c.returncode == 0 or (c.returncode == expected and "VIOLATION" not in c.stdout)
            out.append(f"{e} {p}: exit {c.returncode} {'ok' if ok else 'FALSE-ALARM'}" + ("" if c.returncode == 0 else " (recorded as undecided)" if ok else ""))
            if c.returncode:
                out += ["     " + l[:200] for l in c.stdout.splitlines() if l.startswith(("VIOLATION", "UNDECIDED", "CHECKER"))][:6]
    finally:
        subprocess.run(["git", "-C", "/repo", "worktree", "remove", "--force", wt], capture_output=True)
        shutil.rmtree(wt, ignore_errors=True)
    return out


with ThreadPoolExecutor(max_workers=6) as ex:
    bad = 0
    for res in ex.map(run, entries):
        for l in res:
            print(l, flush=True)
            bad += "FALSE-ALARM" in l
subprocess.run(["git", "-C", "/repo", "worktree", "prune"])
sys.exit(1 if bad else 0)
