#!/usr/bin/env python3
"""Prompt for a further round of sub-agent mutants: the property text, the scratch worktree, and one-line summaries of the changes already tried (so that the new ones differ)."""
import json, sys, os, glob
pid, wt, n = sys.argv[1], sys.argv[2], sys.argv[3]
p = {json.loads(l)['id']: json.loads(l) for l in open('/verif/properties.jsonl')}[pid]
txt = open('/verif/tools/mutant_prompt.txt').read().format(WT=wt, ID=pid, TITLE=p['title'], STATEMENT=p['statement'], QUANT=p['quantifier']['text'], FILES=", ".join(p['anchors']['files']), N=n)
tried = []
for m in sorted(glob.glob(f'/verif/seeded/{pid}-m*/meta.json')):
    tried.append("  - " + json.load(open(m)).get('summary', '')[:260])
txt += "\n\nCHANGES ALREADY TRIED in earlier rounds (do NOT repeat these or close variants of them; look for different functions, different branches, different kinds of slip — e.g. state kept between calls or between objects, unusual but valid argument forms (lists, integer or float32 arrays, non-contiguous arrays, keyword vs positional arguments, optional arguments at non-default values), extreme magnitudes, empty or single-element inputs, rarely used public entry points named in the property statement, interactions between two functions):\n" + "\n".join(tried)
print(txt)
