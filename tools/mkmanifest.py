#!/usr/bin/env python3
"""Regenerates /verif/MANIFEST.json from the table below (a property is claimed iff it has an entry in CLAIMS)."""
import json
import os

V = os.path.dirname(os.path.dirname(os.path.abspath(__file__)))
TECH = "contract-based deductive verification: sidecar contracts on the real functions, own AST->SMT VC generator (pyvc), z3+cvc5, checked algebraic certificates, exact finite-domain evaluation; run-time contracts as labelled bounded stand-ins"

CLAIMS = {
    "C11": ("proof",
            "Contracts on the real functions of symmetry_operation.py and Crystal.cartesian_symmetry_operations; VCs generated from the working-tree source by symbolic execution and discharged by z3/cvc5 (packed codec both directions for all 34M codes, equality/hash/code modulo the lattice with a symbolic noise term, apply on 3- and 4-vectors, Seitz layout), a checked algebraic certificate for the Cartesian form, exact evaluation of the string codec over its complete per-row grid. Spelling grammar and float noise are bounded stand-ins, not counted.",
            "floats as reals; numpy.round half-even; Fraction.limit_denominator; library models listed in evidence.trusted_base"),
    "C17": ("proof",
            "Contracts on Element.from_atomic_number/from_string/from_label/__getitem__/__lt__/__eq__/__hash__ and the vectorised helpers: symbolic atomic number with Python's negative-index semantics, labels symbol+digits+arbitrary suffix as structured strings (for all digit strings and suffixes), ordering axioms for all triples; complete enumeration of the property's finite domains (103 elements x spellings, integers -200..300) by exact evaluation of the real functions.",
            "regex longest-letter-prefix model; str.strip/capitalize over-approximated on the unconstrained suffix; table values are their own reference"),
    "C12": ("proof",
            "Contracts on UnitCell.set_lengths_and_angles / set_vectors / volume / to_cartesian / to_fractional / reciprocal quantities / every named constructor: the real source is executed on symbolic lengths and angles (cos, sin, sqrt, arccos as uninterpreted functions with their defining identities) and every clause of the statement (mutual inverses, row norms and angles, det = volume, coordinate round trip, reciprocal lengths and angles, agreement of the two construction routes, constructor parameters in degrees and radians) is discharged for all cells by checked algebraic certificates (rewriting to normal form 0 / cofactors verified with exact arithmetic) or z3/cvc5; _set_cell_type by a frame obligation.",
            "floats as reals; real-analysis facts cos^2+sin^2=1, sqrt(x)^2=x, arccos(cos x)=x on [0,pi]; numpy.linalg.inv two-sided inverse; domain: positive lengths, angles in (0,pi), positive radicand"),
    "C16": ("proof",
            "Contracts on Molecule.to_xyz_string/from_xyz_string/to_sdf_string/from_sdf_dict, parse_xyz_string and the SDF line writers/readers: the real code is executed on symbolic coordinates with structured strings, giving for all coordinates in range: column alignment of every written field against the published V2000 table, parse(format(x)) within half a unit of the last digit, coordinate k read back as coordinate k, whole-text write->read for two-atom instances; frame obligations show every reader/writer loop is a map, lifting the per-line contracts to any atom count; tables checked against the V2000 standard; all 103 elements and the dispatch table enumerated. Native save/load of seeded molecules (1..200 atoms, bonds, multi-record files) is a bounded stand-in.",
            "CPython format/parse contract and str.split/splitlines/join models (assumed); floats as reals; whole-text obligations are instances at 2 atoms lifted by the map-loop frame argument"),
    "C02": ("proof",
            "The property's domain is finite and is enumerated completely on every run: for each of the 530 tabulated (number, choice) settings the real constructor, reduce/expand functions and both lookups are executed and the group axioms (duplicate-free, identity, closure, inverses modulo the lattice, centrosymmetric flag) are decided in exact integer arithmetic on the operations as decoded (the decoding is proved for all codes in C11); table-independent paths (range checks, LATT value and sign) are VCs from the source.",
            "finite domain = the bundled sgdata.json as loaded; decode spec from C11"),
    "C14": ("proof",
            "A property of histories, decided as a representation invariant plus frame conditions on the real class: the frame checker infers assigns(m) for every method of Crystal (aliases, in-place operations, setattr/delattr, transitive self calls) and discharges: every query is pure w.r.t. cell/space group/asymmetric unit; each memo field has a single writer behind its `if hasattr: return` guard and is computed from core state only; every method that assigns core state deletes every memo field after its last core store and drops/refreshes stale stored CIF items; objects held by memos are read-only apart from one write-once annotation. The induction over history length is the cited Hoare-logic meta-theorem; a native replay of histories up to length 3-4 against fresh crystals is the bounded stand-in for it.",
            "syntactic frame inference (assumes called numpy/scipy/chmpy helpers mutate arguments only through tracked forms); memo fields are not keyed by query arguments (statement's proviso)"),
    "C08": ("other",
            "P: make_N_invariants executed on symbolic complex coefficient vectors — for every degree (symbolic loop index) the slice read is exactly [l^2,(l+1)^2), and for L<=3 instances N_l^2 equals the block sum of |c|^2 (certificates). G: every Clebsch-Gordan value the bispectrum can request up to l_max 12 (23 thorough) equals the exact Racah value; count and order of invariants for l_max 0..12. B: rotation invariance of N, P and power spectrum on seeded band-limited functions rotated by exact resampling (real and complex transforms), per-coefficient locality of N. Rotation invariance of the bispectrum expression itself is a cited theorem, the compiled kernel is only reached through run-time checks, hence level 'other'.",
            "bispectrum theorem; compiled Cython kernel tied to its source only by run-time conformance; SHT exactness (C07)"),
    "C03": ("proof",
            "extent.complete: for every invertible cell, radius, centre and atom image, an image within the radius lies inside the cell bounds the real atoms_in_radius passes to slab — the real statements are executed symbolically up to the slab call and the argument is discharged in small steps (offset identity by certificate, extent = r|a*_i| from the sqrt axioms, Cauchy-Schwarz as Lagrange identity, integer floor/ceil step in linear arithmetic); frame obligations show all multi-centre queries use the same extent and accumulate it over centres; slab layout and ball bookkeeping on symbolic instances with an exact KD-tree model (selected <=> within radius, same index vector on every array). All query functions against brute-force periodic search on oblique generated crystals is the bounded stand-in.",
            "scipy cKDTree exactness assumed; floats as reals; unit-cell atom list from C01; multi-centre functions carried by frame obligations + bounded runs rather than their own VCs"),
    "C01": ("other",
            "P: block layout of apply_all_symops / ordered_symmetry_operations on a symbolic instance; the wrap statement of unit_cell_atoms proved to map every real coordinate into [0,1) by an integer shift; unit_cell_atoms executed on a symbolic 2-site x 2-operation instance under every coincidence pattern that is an equivalence relation (exact model of the sparse distance matrix): one mask on all arrays, least row of each class survives, merged occupancy = class sum, Cartesian = fractional.D. G: int32 range of generator codes. B: the real function against an exact rational orbit (general positions in and out of the cell, exact special positions with fractional occupancy) for 40 seeded settings (all 530 in the thorough tier). 'Every distinct image exactly once for every setting' combines C02 (group), the merge instance and the bounded runs, hence 'other'.",
            "scipy sparse_distance_matrix exactness and row-major dok.items() order assumed (monitored by the bounded runs); floats as reals; instance-level (2x2) merge proof"),
    "C05": ("other",
            "P: VCs from density.py and from _density.pyx (mechanically de-cythonised on every run; memoryviews of symbolic extent, every index proved in range; atom loop by the classical invariant rule, so rho = sum of per-atom interpolants for any number of atoms): interpolation regimes equal the oracle, squared-distance/bohr conversion, row Z-1 per atom, weight formula and range, complementary weights sum to one, constructor rejects Z outside 1..103. G: all 103x4096 table entries (positive, monotone ratio, uniform knots). L: positivity, additivity/permutation/rigid-motion lemmas. F: prange iterations independent. B: the compiled kernel (cannot be rebuilt from the .pyx here) against a float64 oracle on seeded systems. One open known finding (float->int cast overflow beyond ~7664 A) is listed in known_findings.json.",
            "floats as reals; Cython/gcc implement the de-cythonised semantics and the .so corresponds to the .pyx (only run-time conformance); induction over atoms cited"),
    "C18": ("other",
            "P: kabsch_rotation_matrix executed on symbolic N x 3 point sets with the SVD as an assumed contract: covariance A^T B, R = v diag(1,1,sigma) w with sigma = -1 exactly when det v det w < 0, R orthogonal, det R = +1, trace(R^T A^T B) = s0+s1+sigma s2 (explicit certificates); reorient_points / rmsd_points / Dimer.calculate_transform dataflow through a modular contract. L: the lemmas from which optimality over proper rotations follows (rmsd vs trace, cyclic trace, |T_ii| <= 1, improper trace bound). The composition of the lemmas into optimality is on paper, floats are reals: level 'other'. B: optimality against Horn's quaternion eigenvalue and 4009 sampled proper rotations per pair, generic/planar/collinear sets, noise and reflections.",
            "SVD contract (numpy.linalg.svd), Kabsch argument composed on paper from the proved lemmas, floats as reals"),
    "C04": ("other",
            "P: the unwrapping loop of unit_cell_molecules executed on symbolic instances (three unit-cell atoms, symbolic integer edge cells, both predecessor orientations, csgraph traversal computed for the concrete topology): for every stored edge the unwrapped atoms sit at their bonding image, all arrays given to the molecule are indexed by one node order sorted by parent site, the recentring translation is an integer lattice vector placing the centre of mass in [0,1). F: edge conventions of unit_cell_connectivity and the shape-safe comparison in symmetry_unique_molecules. The partition / wholeness / count clauses are graph-theoretic facts about scipy's csgraph and KD-tree results: bounded stand-in on generated molecular crystals (40 seeded settings quick, all 530 thorough; equal and different molecules, any atom order, sites listed as symmetry images, any placement relative to the cell).",
            "scipy csgraph / cKDTree assumed; instance-level unwrapping proof; floats as reals; centre of mass above -7 cells"),
    "C07": ("other",
            "G (complete over L = 0..64): grid-size rounding rules, FFT bins, work-array shapes from the real constructor. P: orthonormal three-term recurrence coefficients for all symbolic 0 <= m < l in assoc_legendre.py and the mechanically extracted _sht.pyx; per instance L (symbolic data): evaluate_batch, the four pure-Python paths and the extracted kernels equal the quadrature/Fourier oracle, complete_coefficients symmetry, point-wise evaluation equals the harmonic sum, analysis(synthesis(c)) = c under discrete orthonormality of the quadrature rule (hypothesis). B: exactness against scipy harmonics, both round trips, kernels vs pure Python, point-wise, linearity and Parseval for every L = 0..64 to 1e-10. Quadrature/FFT exactness is assumed, so 'exact for every L' as a whole is bounded: level 'other'.",
            "Gauss-Legendre and FFT exactness assumed; structure proofs per instance L; compiled kernels tied to the .pyx text only by run-time conformance; floats as reals"),
    "C10": ("other",
            "G: every CIF item the reader needs is written under the same name; SHELX atom labels (all 103 symbols x label forms) never collide with a keyword. P: an ATOM line written with the real format string and a POSCAR row written with the real f-string read back through the real readers on symbolic values (coordinates within half a unit of the last digit, SFAC index -> element); F: SFAC numbering and POSCAR element blocks. Space-group identification after a round trip is C11 composed with C02. B: whole-file CIF / RES / POSCAR round trips through Crystal.save/load on seeded crystals of 60 settings (all 530 thorough), built in memory or loaded from a file first.",
            "CIF text layer (C15), CPython parsing, numpy.fromstring model; whole documents only bounded"),
    "C20": ("other",
            "P: the front end quasirandom calls the right kernel with the right arguments on all four paths; the Sobol and Korobov kernels, extracted mechanically from the .pyx text, verified with symbolic seeds/bounds (loop-invariant VCs, BV32): every array access in bounds, every shift below 32, single and batch results equal one shared spec term u2d(X_d(seed-1))/2^32 (so batch row = single point for all seeds and results depend on (seed, dimension) only), range [0,1). L: Gray-code step, closed form of the recurrence, direction-number shape, unit-triangular => stratification for m = 1..12. G: Joe-Kuo table rows for dimensions <= 1000, libm log2 ceiling, and on the compiled binary the complete finite domains of the statement (first 2^12 points x 1000 dimensions vs reference, stratification for every m <= 12, (0,m,2)-nets, single = batch for 4096 seeds). B: seeded windows up to 10^6 through the front end. The kernels that run are the compiled ones, tied to the verified text by conformance runs: level 'other'.",
            "Cython/gcc semantics of the extracted text, .so corresponds to the .pyx (embedded-source comparison + run-time conformance), floats as reals in the Korobov part, libm log"),
}

NA_PENDING = "check not built yet in this session (see DESIGN.md section 8 build order)"
NA = {}


def main():
    props = [json.loads(l) for l in open(os.path.join(V, "properties.jsonl"))]
    checks = []
    for p in props:
        pid = p["id"]
        if pid in CLAIMS and os.path.exists(os.path.join(V, "contracts", pid + ".py")):
            cat, text, note = CLAIMS[pid]
            checks.append({"property_id": pid, "quick_cmd": f"./check {pid} --tier quick", "thorough_cmd": f"./check {pid} --tier thorough",
                           "evidence_file": f"evidence/{pid}.json", "replay_cmd_template": f"./check {pid} --replay {{path}}", "engine": "pyvc",
                           "level_claimed": {"category": cat, "text": text, "design_ref": f"DESIGN.md section 6 {pid}"},
                           "level_note": note, "technique": TECH})
    claimed = {c["property_id"] for c in checks}
    m = {"version": 1, "setup_cmd": "./setup.sh",
         "hooks": {"guard": "CHMPY_VERIF", "enable": "none needed: contracts are sidecar files under /verif/contracts; /repo is read and executed, never instrumented",
                   "baseline_off_cmd": "cd /repo && /venv/bin/python -m pytest -ra -q -p no:cacheprovider --timeout=900 --continue-on-collection-errors",
                   "source_commits": [], "add_only": True},
         "engines": [{"name": "pyvc", "path": "pyvc/", "serves_properties": sorted(claimed),
                      "kind_free_text": "AST->z3/cvc5 verification-condition generator over the real chmpy source, sidecar contracts, certificate checker, frame checker, run-time contract stand-ins"}],
         "checks": checks,
         "notes": "Repairs of genuine defects are 'fix:' commits in /repo, listed in known_findings.json (fixed).",
         "not_applicable": [{"property_id": p["id"], "reason": NA.get(p["id"], NA_PENDING)} for p in props if p["id"] not in claimed]}
    json.dump(m, open(os.path.join(V, "MANIFEST.json"), "w"), indent=1)
    print("claimed:", sorted(claimed))


if __name__ == "__main__":
    main()
