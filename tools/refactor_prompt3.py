#!/usr/bin/env python3
"""Prompt for a further round of behaviour-preserving refactorings: the base prompt plus one-line summaries of the refactorings already collected (so that new ones differ)."""
import json, sys, glob, subprocess
pid, wt, n = sys.argv[1], sys.argv[2], sys.argv[3]
base = subprocess.run([sys.executable, "/verif/tools/refactor_prompt.py", pid, wt, n], capture_output=True, text=True).stdout
tried = ["  - " + json.load(open(m)).get("summary", "")[:220] for m in sorted(glob.glob(f"/verif/harmless/{pid}-r*/meta.json"))]
print(base + "\n\nREFACTORINGS ALREADY COLLECTED in earlier rounds (do NOT repeat these; be more adventurous, while still strictly behaviour-preserving for every input: restructure control flow, "
      "split a long function into helpers or merge helpers back, move a helper to another module and import it, replace a numpy idiom by an equivalent one with bit-identical results, hoist or sink "
      "computations, change how an internal cache / lazily computed attribute is spelled WITHOUT changing when it is filled or dropped, convert between list/tuple/array for purely internal "
      "temporaries, introduce early returns, use keyword arguments instead of positional ones in internal calls, turn a staticmethod into a module function kept available under the old name, "
      "add type hints / asserts that cannot fire):\n" + "\n".join(tried))
