import sys, time; sys.path.insert(0,'/verif')
import importlib
from pyvc.checkctx import CheckContext
from pyvc import cert
prop = sys.argv[1]
C = importlib.import_module('contracts.' + prop)
ctx = CheckContext(prop)
def timed(hyps,l,r):
    t0=time.time()
    try:
        g = cert.z3_to_ratfun(l) - cert.z3_to_ratfun(r)
        hp=[]
        for a,b in cert.equalities_of(hyps):
            try:
                d=cert.z3_to_ratfun(a)-cert.z3_to_ratfun(b)
                if not d.num.is_zero(): hp.append(d.num)
            except cert.NotPolynomial: pass
        print('numerator terms', len(g.num.t), 'hyps', [len(h.t) for h in hp], 'vars', len(g.num.variables()), round(time.time()-t0,2)); sys.stdout.flush()
    except cert.NotPolynomial as e:
        print('notpoly', e)
    return {"ok": False, "why":"skipped"}
cert.certify_equation = timed
if hasattr(C,'constructors'): C.constructors=lambda *a: None
C.build(ctx)
