#!/usr/bin/env python3
"""Regenerate the per-property table of DESIGN.md section 9.3a from the evidence files of the last quick run."""
import json, re, collections
rows = []
man = {c["property_id"]: c for c in json.load(open("/verif/MANIFEST.json"))["checks"]} if True else {}
for k in range(1, 21):
    pid = f"C{k:02d}"
    d = json.load(open(f"/verif/evidence/{pid}.json"))
    cov = d["coverage"]
    tags = collections.Counter(o.get("tag") for o in cov.get("obligation_list", []))
    backs = cov.get("backends") or {}
    if isinstance(backs, dict):
        bs = ", ".join(f"{b}:{v['obligations'] if isinstance(v, dict) else v}" for b, v in backs.items())
    else:
        bs = str(backs)
    xc = cov.get("engine_crosscheck") or []
    xcs = f"{sum(x['agree'] for x in xc)}/{sum(x['calls'] for x in xc)} calls, {len(xc)} functions" if xc else "—"
    kf = len(cov.get("known_findings") or [])
    rows.append(f"| {pid} | {d['level']} | {cov.get('obligations')} ({', '.join(f'{t} {n}' for t, n in sorted(tags.items()) if t)}) | {cov.get('discharged')} | {len(cov.get('bounded', []))} | {kf} | {bs} | {xcs} | {d['wall_s']:.0f} s |")
table = ("| property | level | counted obligations (by tag) | discharged | bounded stand-ins | known findings printed | back ends (obligations) | engine cross-check | wall |\n"
         "|---|---|---|---|---|---|---|---|---|\n" + "\n".join(rows))
p = "/verif/DESIGN.md"
s = open(p).read()
a = s.index("### 9.3a Per-property summary")
b = s.index("All 20 properties are claimed", a)
head = s[a:s.index("\n", a) + 1]
s = s[:a] + head + "\n" + table + "\n\n" + s[b:]
open(p, "w").write(s)
print(table)
